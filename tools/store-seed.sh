#!/bin/sh
# tools/store-seed.sh <src dir> <k> <new id> <first-run result words...>
# copies a confirmed seeded change (patch<k>.diff, demo<k>/, notes<k>.md) into seeded/<id>/ and writes meta.json
# from tools/eval-seed.sh's verdict on the current checks.
set -u
HERE=$(cd "$(dirname "$0")/.." && pwd)
S=$1; K=$2; ID=$3
D="$HERE/seeded/$ID"; mkdir -p "$D"
cp "$S/patch$K.diff" "$D/patch.diff"
rm -rf "$D/demo"; cp -a "$S/demo$K" "$D/demo"
cp "$S/notes$K.md" "$D/README.md"
# eval-seed expects patch<k>.diff / demo<k>
T=$(mktemp -d /tmp/ucanstore.XXXXXX); cp "$D/patch.diff" "$T/patch1.diff"; cp -a "$D/demo" "$T/demo1"
R=$("$HERE/tools/eval-seed.sh" "$T" 1 | tail -1); rm -rf "$T"
python3 - "$D" "$ID" "$R" "$HERE" <<'PY'
import json,sys,re,os
d,id_,r,here=sys.argv[1:5]
prop=id_.split('-')[0]
title=''
for l in open(os.path.join(here,'properties.jsonl')):
    o=json.loads(l)
    if o['id']==prop: title=o['title']
m=re.search(r'suite-failures-with-change=(\d+) demo-with-change=(\w+) demo-without-change=(\w+) checks-reporting: (.*)',r)
hits=[h for h in m.group(4).split() if h!='NONE']
demos=[]
for root,_,fs in os.walk(os.path.join(d,'demo')):
    for f in fs: demos.append(os.path.relpath(os.path.join(root,f),os.path.join(d,'demo')))
old={}
mp=os.path.join(d,'meta.json')
if os.path.exists(mp): old=json.load(open(mp))
meta={"id":id_,"property":prop,"property_title":title,
 "origin":"written by an independent sub-agent (round 3) that saw only the property text, the one-line 'needs' of the two earlier seeds of this property and a scratch worktree of /repo (nothing from /verif)",
 "needs_to_manifest":old.get("needs_to_manifest",""),
 "demonstration":sorted(demos),
 "confirmed":{"command":"tools/eval-seed.sh (scratch copy of /repo's tree: apply patch, go build, go test ./..., demo with and without the change, then ucanlint -property all on the patched copy)",
   "existing_suite_failures_with_change":int(m.group(1)),"demo_with_change":m.group(2),"demo_without_change":m.group(3)},
 "detected_by":hits,
 "detected_when_first_run":old.get("detected_when_first_run",bool(hits)),
 "strengthening":old.get("strengthening","")}
json.dump(meta,open(mp,'w'),indent=1)
print(id_,m.group(2),m.group(3),hits)
PY
