#!/bin/sh
# tools/selftest.sh [Cxx|all] [--tests]   run the checker regression suite (mutants/<prop>/{fire,silent}/*.patch)
# against scratch copies of /repo's current working tree. Prints one line per patch and a summary;
# exit 0 iff every applicable fire patch is caught by one of its expected rules and every silent patch
# raises no violation in ANY property. Patches that no longer apply are SKIPped.
set -u
HERE=$(cd "$(dirname "$0")/.." && pwd)
export GOFLAGS=-mod=mod GOPROXY=off GOSUMDB=off GOTOOLCHAIN=local GOWORK=off
REPO=${VERIF_REPO:-/repo}
sel=${1:-all}; tests=0; [ "${2:-}" = "--tests" ] && tests=1
BIN="${UCANLINT:-$HERE/bin/ucanlint}"
[ -x "$BIN" ] || (cd "$HERE/lint" && go build -o "$BIN" ./cmd/ucanlint) || exit 2
BASE=$(mktemp -d /tmp/ucanself.XXXXXX)
trap 'rm -rf "$BASE"' EXIT
mkdir -p "$BASE/base"
(cd "$REPO" && git ls-files -z | xargs -0 cp --parents -t "$BASE/base") || exit 2
(cd "$REPO" && git diff HEAD) > "$BASE/wt.diff"; [ -s "$BASE/wt.diff" ] && (cd "$BASE/base" && patch -s -p1 < "$BASE/wt.diff")
ALLPROPS=$("$BIN" -list | tr '\n' ',' | sed 's/,$//')
one() {
  p=$1
  prop=$(sed -n 's/^# property: //p' "$p"); kind=$(sed -n 's/^# kind: //p' "$p"); expect=$(sed -n 's/^# expect: //p' "$p")
  name="$prop/$kind/$(basename "$p" .patch)"
  T=$(mktemp -d "$BASE/m.XXXXXX"); cp -a "$BASE/base" "$T/repo"; mkdir "$T/out"
  if ! (cd "$T/repo" && patch -s -p1 < "$p" >/dev/null 2>&1); then echo "SKIP        $name (patch does not apply to the current tree)"; rm -rf "$T"; return; fi
  if ! (cd "$T/repo" && go build ./... >/dev/null 2>"$T/build.err"); then echo "BUILD-FAIL  $name"; rm -rf "$T"; return; fi
  if [ $tests = 1 ]; then
    if ! (cd "$T/repo" && go test -vet=off -count=1 ./... >"$T/test.out" 2>&1); then echo "TESTS-FAIL  $name $(grep -c '^--- FAIL' "$T/test.out") failing"; fi
  fi
  if [ "$kind" = fire ]; then
    props=$prop
    for e in $expect; do q=${e%%.*}; case ",$ALLPROPS," in *",$q,"*) ;; *) continue;; esac; case ",$props," in *",$q,"*) ;; *) props="$props,$q";; esac; done
    "$BIN" -property "$props" -tier quick -repo "$T/repo" -verif "$HERE" -out "$T/out" > "$T/log" 2>&1
    hit=""
    for e in $expect; do if grep -q "^  rule $e" "$T/log"; then hit="$hit $e"; fi; done
    if [ -n "$hit" ]; then echo "FIRE-OK     $name ->$hit"; else echo "MISSED      $name (expected one of: $expect; got: $(grep '^  rule' "$T/log" | awk '{print $2}' | sort -u | tr '\n' ' '))"; fi
  else
    "$BIN" -property "$ALLPROPS" -tier quick -repo "$T/repo" -verif "$HERE" -out "$T/out" > "$T/log" 2>&1
    if grep -q '^VIOLATION' "$T/log"; then echo "FALSE-ALARM $name: $(grep -A3 '^VIOLATION' "$T/log" | grep 'key:' | head -3 | tr '\n' ' ')"; else echo "SILENT-OK   $name"; fi
  fi
  rm -rf "$T"
}
if [ "$sel" = all ]; then list=$(ls "$HERE"/mutants/C*/*/*.patch 2>/dev/null); else list=$(ls "$HERE"/mutants/"$sel"/*/*.patch 2>/dev/null); fi
# run up to 8 in parallel
n=0
for p in $list; do
  one "$p" > "$BASE/res.$n" 2>&1 &
  n=$((n+1))
  if [ $((n % 8)) = 0 ]; then wait; fi
done
wait
cat "$BASE"/res.* 2>/dev/null | sort > "$BASE/all"
cat "$BASE/all"
ok=$(grep -c '^FIRE-OK\|^SILENT-OK' "$BASE/all"); bad=$(grep -c "^MISSED\|^FALSE-ALARM\|^BUILD-FAIL" "$BASE/all"); skip=$(grep -c '^SKIP' "$BASE/all")
echo "selftest: $ok ok, $bad bad, $skip skipped"
[ "$bad" = 0 ]
