#!/bin/sh
# tools/refactorings.sh   apply every stored behaviour-preserving refactoring (refactorings/*.diff, written by
# independent sub-agents) to a scratch copy of /repo's tree and list what the checks report: should be nothing.
set -u
HERE=$(cd "$(dirname "$0")/.." && pwd)
n=0; bad=0
for f in "$HERE"/refactorings/*.diff; do
  r=$("$HERE/tools/eval-refac.sh" "$f")
  case "$r" in
    "violations=0 "*) echo "QUIET  $(basename "$f" .diff)";;
    PATCH-FAILED*|BUILD-FAILED*) echo "SKIP   $(basename "$f" .diff) ($r)";;
    *) echo "ALARM  $(basename "$f" .diff) $r" | cut -c1-300; bad=$((bad+1));;
  esac
  n=$((n+1))
done
echo "refactorings: $n applied, $bad raise an alarm"
