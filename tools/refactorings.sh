#!/bin/sh
# tools/refactorings.sh   apply every stored behaviour-preserving refactoring (refactorings/*.diff, written by
# independent sub-agents) to a scratch copy of /repo's tree and list what the checks report: should be nothing.
# REFAC_JOBS (default 6) scratch copies are examined at a time.
set -u
HERE=$(cd "$(dirname "$0")/.." && pwd)
one() {
  f=$1
  r=$("$HERE/tools/eval-refac.sh" "$f")
  case "$r" in
    "violations=0 "*) echo "QUIET  $(basename "$f" .diff)";;
    PATCH-FAILED*|BUILD-FAILED*) echo "SKIP   $(basename "$f" .diff) ($r)";;
    *) echo "ALARM  $(basename "$f" .diff) $r" | cut -c1-300;;
  esac
}
if [ "${1:-}" = "--one" ]; then one "$2"; exit 0; fi
T=$(mktemp /tmp/ucanrefacs.XXXXXX); trap 'rm -f "$T"' EXIT
ls "$HERE"/refactorings/*.diff | xargs -P "${REFAC_JOBS:-6}" -n1 "$0" --one > "$T"
sort -k2,2 "$T"
n=$(grep -c . "$T"); bad=$(grep -c '^ALARM' "$T")
echo "refactorings: $n applied, $bad raise an alarm"
