#!/bin/sh
# tools/eval-seed.sh <seed dir> <k>   confirm a seeded change (patch<k>.diff + demo<k>/) and run all checks on it.
#   - demo fails with the change, passes without; the existing suite passes with the change
#   - prints which rules of which properties report it
set -u
HERE=$(cd "$(dirname "$0")/.." && pwd)
export GOFLAGS=-mod=mod GOPROXY=off GOSUMDB=off GOTOOLCHAIN=local GOWORK=off
D=$1; K=$2
T=$(mktemp -d /tmp/ucanseed.XXXXXX)
trap 'rm -rf "$T"' EXIT
mkdir -p "$T/clean" "$T/mut" "$T/out"
(cd /repo && git ls-files -z | xargs -0 cp --parents -t "$T/clean")
cp -a "$T/clean/." "$T/mut/"
if ! (cd "$T/mut" && git init -q . >/dev/null 2>&1; git apply --whitespace=nowarn "$D/patch$K.diff" 2>"$T/apply.err" || patch -s -p1 < "$D/patch$K.diff" >/dev/null 2>&1); then echo "PATCH-FAILED $(cat "$T/apply.err" | head -2)"; exit 3; fi
rm -rf "$T/mut/.git"
(cd "$T/mut" && go build ./... 2>&1 | head -5) > "$T/build.log"; [ -s "$T/build.log" ] && { echo "BUILD-FAILED"; cat "$T/build.log"; exit 4; }
suite=$( (cd "$T/mut" && go test -vet=off -count=1 ./... 2>&1) | grep -c '^FAIL\|^--- FAIL')
# demo placement
demo_pkgs=$(cd "$D/demo$K" && find . -name '*.go' -exec dirname {} \; | sort -u)
for side in mut clean; do (cd "$D/demo$K" && find . -type f | while read f; do mkdir -p "$T/$side/$(dirname "$f")"; cp "$f" "$T/$side/$f"; done); done
res_mut=PASS; res_clean=PASS
for p in $demo_pkgs; do
  (cd "$T/mut" && go test -vet=off -count=1 "./$p" >"$T/demo_mut.log" 2>&1) || res_mut=FAIL
  (cd "$T/clean" && go test -vet=off -count=1 "./$p" >"$T/demo_clean.log" 2>&1) || res_clean=FAIL
done
(cd "$D/demo$K" && find . -type f | while read f; do rm -f "$T/mut/$f"; done)
"${UCANLINT:-$HERE/bin/ucanlint}" -property all -tier quick -repo "$T/mut" -verif "$HERE" -out "$T/out" > "$T/lint.log" 2>&1
hits=$(grep '^  rule' "$T/lint.log" | awk '{print $2}' | sort -u | tr '\n' ' ')
echo "suite-failures-with-change=$suite demo-with-change=$res_mut demo-without-change=$res_clean checks-reporting: ${hits:-NONE}"
[ "${VERBOSE:-0}" = 1 ] && grep -A6 '^VIOLATION' "$T/lint.log" | cut -c1-260
exit 0
