#!/usr/bin/env python3
# tools/ruletable.py <ucanlint output>   rewrite the rule table of DESIGN.md section 7.2 from a run of ucanlint -property all
import re,sys,os
here=os.path.dirname(os.path.dirname(os.path.abspath(__file__)))
rows={}
for l in open(sys.argv[1]):
    m=re.match(r'^  (C\d+\.[A-Z0-9]+)\s+instances=(\d+)\s+min=(\d+)\s+failed=(\d+)\s+(.*)$',l.rstrip('\n'))
    if m: rows[m.group(1)]=(m.group(5),m.group(2),m.group(3))
def key(r):
    p,s=r.split('.'); m=re.match(r'([A-Z]+)(\d*)',s)
    return (p,{'R':0,'ACC':1}.get(m.group(1),2),m.group(1),int(m.group(2) or 0))
tab="| Rule | What it requires (as implemented) | Instances on today's tree (min) |\n|---|---|---|\n"
for r in sorted(rows,key=key):
    t,n,mn=rows[r]; tab+=f"| {r} | {t.replace('|','/')} | {n} ({mn}) |\n"
p=os.path.join(here,'DESIGN.md'); s=open(p).read()
a=s.index("| Rule | What it requires (as implemented)")
b=s.index("\n\n",a)
s=s[:a]+tab.rstrip('\n')+s[b:]
open(p,'w').write(s)
print(len(rows),"rules,",sum(int(v[1]) for v in rows.values()),"obligations")
