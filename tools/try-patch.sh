#!/bin/sh
# tools/try-patch.sh <patch|-R:commit> <props>  — apply a patch to a scratch copy of /repo's working tree,
# run the given properties' checks on it (evidence goes to the scratch dir), clean up.
set -u
HERE=$(cd "$(dirname "$0")/.." && pwd)
export GOFLAGS=-mod=mod GOPROXY=off GOSUMDB=off GOTOOLCHAIN=local GOWORK=off
patch=$1; props=${2:-all}
T=$(mktemp -d /tmp/ucanmut.XXXXXX)
trap 'rm -rf "$T"' EXIT
mkdir -p "$T/repo" "$T/out"
(cd /repo && git ls-files -z | xargs -0 cp --parents -t "$T/repo") || exit 2
# include uncommitted edits
(cd /repo && git diff HEAD) > "$T/wt.diff"; [ -s "$T/wt.diff" ] && (cd "$T/repo" && patch -s -p1 < "$T/wt.diff")
case "$patch" in
  -R:*) (cd /repo && git show "${patch#-R:}") > "$T/p.diff"; (cd "$T/repo" && patch -s -R -p1 < "$T/p.diff") || { echo "PATCH-FAILED"; exit 3; } ;;
  *) (cd "$T/repo" && patch -s -p1 < "$patch") || { echo "PATCH-FAILED"; exit 3; } ;;
esac
(cd "$T/repo" && go build ./... ) || { echo "BUILD-FAILED"; exit 4; }
if [ "${RUN_TESTS:-0}" = 1 ]; then (cd "$T/repo" && go test -vet=off -count=1 ./... 2>&1 | grep -v '^ok\|no test files' ; true); fi
if [ -n "${DUMP:-}" ]; then "$HERE/bin/ucandump" -repo "$T/repo" "$DUMP" | sed "s#$T/repo/##g"; fi
"$HERE/bin/ucanlint" -property "$props" -tier quick -repo "$T/repo" -verif "$HERE" -out "$T/out" | sed "s#$T/repo/##g"
