#!/bin/sh
# tools/seeded.sh   re-run every stored seeded change (seeded/<id>/patch.diff) against all checks on a scratch copy
# of /repo's current tree; prints which rules report each one. Exit 0 iff every applicable seed is reported.
# tools/seeded.sh Cxx   only the seeds of one property.   SEEDED_JOBS=n runs n at a time (default 4).
set -u
HERE=$(cd "$(dirname "$0")/.." && pwd)
export GOFLAGS=-mod=mod GOPROXY=off GOSUMDB=off GOTOOLCHAIN=local GOWORK=off
export HERE
one() {
  d=$1
  id=$(basename "$d")
  T=$(mktemp -d /tmp/ucanseeded.XXXXXX)
  mkdir -p "$T/repo" "$T/out"
  (cd /repo && git ls-files -z | xargs -0 cp --parents -t "$T/repo")
  if ! (cd "$T/repo" && patch -s -p1 < "$d/patch.diff" >/dev/null 2>&1); then echo "SKIP   $id (patch does not apply to the current tree)"; rm -rf "$T"; return; fi
  if ! (cd "$T/repo" && go build ./... >/dev/null 2>&1); then echo "SKIP   $id (does not build on the current tree)"; rm -rf "$T"; return; fi
  "${UCANLINT:-$HERE/bin/ucanlint}" -property all -repo "$T/repo" -verif "$HERE" -out "$T/out" > "$T/log" 2>&1
  hits=$(grep '^  rule' "$T/log" | awk '{print $2}' | sort -u | tr '\n' ' ')
  if [ -n "$hits" ]; then echo "CAUGHT $id -> $hits"; else echo "MISSED $id"; fi
  rm -rf "$T"
}
if [ "${1:-}" = "--one" ]; then one "$2"; exit 0; fi
R=$(mktemp /tmp/ucanseeded.res.XXXXXX)
ls -d "$HERE"/seeded/${1:-}*/ | xargs -P "${SEEDED_JOBS:-4}" -I{} "$0" --one {} > "$R" 2>&1
sort "$R" | grep -v '^WARNING'
bad=$(grep -c '^MISSED' "$R"); rm -f "$R"
[ "$bad" = 0 ]
