#!/bin/sh
# tools/seeded.sh   re-run every stored seeded change (seeded/<id>/patch.diff) against all checks on a scratch copy
# of /repo's current tree; prints which rules report each one. Exit 0 iff every applicable seed is reported.
# tools/seeded.sh Cxx   only the seeds of one property
set -u
HERE=$(cd "$(dirname "$0")/.." && pwd)
export GOFLAGS=-mod=mod GOPROXY=off GOSUMDB=off GOTOOLCHAIN=local GOWORK=off
bad=0
for d in "$HERE"/seeded/${1:-}*/; do
  id=$(basename "$d")
  T=$(mktemp -d /tmp/ucanseeded.XXXXXX)
  mkdir -p "$T/repo" "$T/out"
  (cd /repo && git ls-files -z | xargs -0 cp --parents -t "$T/repo")
  if ! (cd "$T/repo" && patch -s -p1 < "$d/patch.diff" >/dev/null 2>&1); then echo "SKIP   $id (patch does not apply to the current tree)"; rm -rf "$T"; continue; fi
  if ! (cd "$T/repo" && go build ./... >/dev/null 2>&1); then echo "SKIP   $id (does not build on the current tree)"; rm -rf "$T"; continue; fi
  "${UCANLINT:-$HERE/bin/ucanlint}" -property all -repo "$T/repo" -verif "$HERE" -out "$T/out" > "$T/log" 2>&1
  hits=$(grep '^  rule' "$T/log" | awk '{print $2}' | sort -u | tr '\n' ' ')
  if [ -n "$hits" ]; then echo "CAUGHT $id -> $hits"; else echo "MISSED $id"; bad=1; fi
  rm -rf "$T"
done
exit $bad
