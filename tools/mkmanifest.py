#!/usr/bin/env python3
"""Regenerate MANIFEST.json from the registered properties (bin/ucanlint -list) and tools/manifest_meta.py."""
import json, subprocess, os, importlib.util
HERE = os.path.dirname(os.path.dirname(os.path.abspath(__file__)))
spec = importlib.util.spec_from_file_location("meta", os.path.join(HERE, "tools", "manifest_meta.py"))
meta = importlib.util.module_from_spec(spec); spec.loader.exec_module(meta)
claimed = subprocess.run([os.path.join(HERE, "bin", "ucanlint"), "-list"], capture_output=True, text=True).stdout.split()
ids = [json.loads(l)["id"] for l in open(os.path.join(HERE, "properties.jsonl"))]
checks, na = [], []
for i in ids:
    if i in claimed and i in meta.CHECKS:
        c = meta.CHECKS[i]
        checks.append({
            "property_id": i,
            "quick_cmd": f"./check {i} quick",
            "thorough_cmd": f"./check {i} thorough",
            "evidence_file": f"/verif/evidence/{i}.json",
            "replay_cmd_template": "./check --replay {path}",
            "engine": "ucanlint",
            "level_claimed": {"category": "other", "text": c["text"], "design_ref": c["ref"]},
            "level_note": c["note"],
            "technique": c["technique"],
        })
    else:
        na.append({"property_id": i, "reason": meta.NOT_APPLICABLE.get(i, "check not built yet (framework under construction); will be claimed once its rules exist")})
m = {
    "version": 1,
    "setup_cmd": "cd /verif/lint && GOFLAGS=-mod=mod GOPROXY=off GOSUMDB=off GOTOOLCHAIN=local GOWORK=off go build -o ../bin/ucanlint ./cmd/ucanlint && go build -o ../bin/ucandump ./cmd/ucandump",
    "hooks": {"guard": "verif", "enable": "none: the checks are static analyses of /repo's source; nothing in /repo is instrumented and no build tag is needed",
              "baseline_off_cmd": "cd /repo && GOFLAGS=-mod=mod GOPROXY=off GOSUMDB=off GOTOOLCHAIN=local go test -json -vet=off -count=1 -timeout 25m ./...",
              "source_commits": [], "add_only": True},
    "engines": [{"name": "ucanlint", "path": "/verif/lint", "serves_properties": [c["property_id"] for c in checks],
                 "kind_free_text": "custom static analyser over go/packages + go/ssa (x/tools v0.29.0): acyclic CFG path enumeration with branch facts and origin terms, call-graph reachability, taint/effect analysis, type-resolved tables, compiler prove-pass oracle; nothing in /repo is executed"}],
    "checks": checks,
    "notes": "Static analysis only; every claim is at level 'other': the checks decide structural necessary conditions of each property (listed per rule in the evidence and in DESIGN.md section 5), not the runtime behaviour. Known findings: known_findings.json.",
    "not_applicable": na,
}
json.dump(m, open(os.path.join(HERE, "MANIFEST.json"), "w"), indent=1)
print(f"{len(checks)} checks, {len(na)} not applicable")
