#!/bin/sh
# tools/eval-refac.sh <diff>   apply a behaviour-preserving refactoring to a scratch copy and list what the checks report
set -u
HERE=$(cd "$(dirname "$0")/.." && pwd)
export GOFLAGS=-mod=mod GOPROXY=off GOSUMDB=off GOTOOLCHAIN=local GOWORK=off
T=$(mktemp -d /tmp/ucanrefac.XXXXXX); trap 'rm -rf "$T"' EXIT
mkdir -p "$T/repo" "$T/out"
(cd /repo && git ls-files -z | xargs -0 cp --parents -t "$T/repo")
(cd "$T/repo" && patch -s -p1 < "$1" >/dev/null 2>&1) || { echo "PATCH-FAILED"; exit 3; }
(cd "$T/repo" && go build ./... >/dev/null 2>&1) || { echo "BUILD-FAILED"; exit 4; }
"${UCANLINT:-$HERE/bin/ucanlint}" -property all -repo "$T/repo" -verif "$HERE" -out "$T/out" > "$T/log" 2>&1
n=$(grep -c '^VIOLATION' "$T/log")
echo "violations=$n $(grep '^  key:' "$T/log" | sed 's/^ *key: //' | cut -c1-110 | tr '\n' ';')"
[ "${VERBOSE:-0}" = 1 ] && grep -A9 '^VIOLATION' "$T/log" | cut -c1-300
exit 0
