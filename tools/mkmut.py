#!/usr/bin/env python3
"""Generate one-instance-broken (fire) and behaviour-preserving (silent) patches from mutants/specs.py.
Each spec: (property, kind, name, expect_rule_prefixes, [(file, old, new), ...], note)
Patches are unified diffs against /repo's current working tree, with a header naming the expectation."""
import os, sys, difflib, importlib.util
HERE = os.path.dirname(os.path.dirname(os.path.abspath(__file__)))
spec = importlib.util.spec_from_file_location("specs", os.path.join(HERE, "mutants", "specs.py"))
m = importlib.util.module_from_spec(spec); spec.loader.exec_module(m)
REPO = os.environ.get("VERIF_REPO", "/repo")
bad = 0
for prop, kind, name, expect, edits, note in m.SPECS:
    out = []
    files = {}
    ok = True
    for f, old, new in edits:
        src = files.get(f)
        if src is None:
            src = open(os.path.join(REPO, f)).read()
        if src.count(old) != 1:
            print(f"SPEC-ERROR {prop}/{kind}/{name}: pattern occurs {src.count(old)} times in {f}", file=sys.stderr)
            ok = False; bad += 1
            break
        files[f] = src.replace(old, new)
    if not ok:
        continue
    for f, new in files.items():
        a = open(os.path.join(REPO, f)).read().splitlines(keepends=True)
        b = new.splitlines(keepends=True)
        out += list(difflib.unified_diff(a, b, "a/" + f, "b/" + f))
    d = os.path.join(HERE, "mutants", prop, kind)
    os.makedirs(d, exist_ok=True)
    with open(os.path.join(d, name + ".patch"), "w") as fh:
        fh.write(f"# property: {prop}\n# kind: {kind}\n# expect: {' '.join(expect)}\n# note: {note}\n")
        fh.writelines(out)
sys.exit(1 if bad else 0)
