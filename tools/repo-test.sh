#!/bin/sh
# run the pinned suite of /repo (guard off; there are no hooks)
export GOFLAGS=-mod=mod GOPROXY=off GOSUMDB=off GOTOOLCHAIN=local
cd "${1:-/repo}" && go build ./... && go test -vet=off -count=1 ./... 2>&1 | grep -v 'no test files'
