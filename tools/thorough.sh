#!/bin/sh
# tools/thorough.sh <Cxx> <repo>   thorough tier of one property:
#   1. the rules on a second build configuration (-tags jwx_es256k; the module does not type-check for 32-bit
#      targets, so GOARCH=386 is not a configuration of this code base) and on the CHA call graph
#      (superset reachability) — each must give no violation;
#   2. the checker regression suite of that property (fire / silent variants applied to scratch copies of
#      the current tree; informational, recorded in the evidence);
#   2b. the independently written seeded changes of that property (seeded/<prop>-*), against all checks; informational;
#   3. the rules on the default configuration, tier=thorough, which writes the evidence file and decides
#      the exit status together with step 1.
set -u
HERE=$(cd "$(dirname "$0")/.." && pwd)
export GOFLAGS=-mod=mod GOPROXY=off GOSUMDB=off GOTOOLCHAIN=local GOWORK=off
prop=$1; REPO=${2:-/repo}
BIN="$HERE/bin/ucanlint"
T=$(mktemp -d /tmp/ucanthor.XXXXXX)
trap 'rm -rf "$T"' EXIT
worst=0
cfgs=""
for cfg in "tags:-tags jwx_es256k" "cha:-cha"; do
  name=${cfg%%:*}; flags=${cfg#*:}
  mkdir -p "$T/$name"
  # shellcheck disable=SC2086
  "$BIN" -property "$prop" -tier thorough -repo "$REPO" -verif "$HERE" -out "$T/$name" $flags > "$T/$name.log" 2>&1
  rc=$?
  nv=$(grep -c '^VIOLATION' "$T/$name.log")
  cfgs="$cfgs\"$name\": {\"flags\": \"$flags\", \"exit\": $rc, \"violations\": $nv},"
  if [ $rc -ne 0 ]; then
    worst=1
    echo "configuration $name ($flags) disagrees with a clean verdict:"
    sed "s#$T/$name/evidence/replay#$HERE/evidence/replay#" "$T/$name.log" | grep -A8 '^VIOLATION'
    mkdir -p "$HERE/evidence/replay"; cp "$T/$name"/evidence/replay/*.json "$HERE/evidence/replay/" 2>/dev/null
  fi
done
"$HERE/tools/selftest.sh" "$prop" > "$T/selftest.log" 2>&1
fire_ok=$(grep -c '^FIRE-OK' "$T/selftest.log"); missed=$(grep -c '^MISSED' "$T/selftest.log")
silent_ok=$(grep -c '^SILENT-OK' "$T/selftest.log"); alarms=$(grep -c '^FALSE-ALARM' "$T/selftest.log"); skipped=$(grep -c '^SKIP' "$T/selftest.log")
grep '^MISSED\|^FALSE-ALARM\|^selftest:' "$T/selftest.log"
"$HERE/tools/seeded.sh" "$prop" > "$T/seeded.log" 2>&1
seed_caught=$(grep -c '^CAUGHT' "$T/seeded.log"); seed_missed=$(grep -c '^MISSED' "$T/seeded.log"); seed_skip=$(grep -c '^SKIP' "$T/seeded.log")
grep '^MISSED' "$T/seeded.log"
cat > "$T/extra.json" <<EOJ
{"configurations": {${cfgs%,}},
 "selftest": {"fire_variants_caught": $fire_ok, "fire_variants_missed": $missed, "silent_variants_quiet": $silent_ok, "silent_variants_false_alarm": $alarms, "skipped_not_applicable_to_current_tree": $skipped,
  "note": "one-instance-broken and behaviour-preserving variants of the CURRENT tree (mutants/$prop); informational, the verdict is computed on the current tree alone"},
 "seeded_changes": {"reported": $seed_caught, "missed": $seed_missed, "skipped_not_applicable_to_current_tree": $seed_skip,
  "note": "independently written breaking changes of this property (seeded/$prop-*), applied to scratch copies of the current tree and run against all checks; informational"}}
EOJ
"$BIN" -property "$prop" -tier thorough -repo "$REPO" -verif "$HERE" -extra "$T/extra.json"
rc=$?
[ $rc -gt $worst ] && worst=$rc
exit $worst
