# Per-property manifest texts.
def _c(text, note, technique, ref):
    return {"text": text, "note": note, "technique": technique, "ref": ref}

TB = "trusted: go/packages + go/ssa (x/tools v0.29.0) represent the source faithfully; third-party libraries named in the evidence file's trusted_base; rule tables hand-confirmed against the tree (minimum instance counts enforced)"

CHECKS = {
 "C01": _c("Decides, over every acyclic CFG path of the authorization functions, the structural necessary conditions of the statement: both entry points must pass through all four stages; empty proof list cannot succeed; every proof is loaded at its index and a loader error fails; every iteration over all proofs is guarded by subject == invocation subject and audience == running issuer; root check after the loop; audience field never read. Not the behaviour of the loader or of DID parsing.", TB,
           "SSA path-fact analysis (must-pass-through, iteration guards, loop-carried value shapes) + call-graph field-read check", "DESIGN.md 5.1"),
 "C02": _c("Decides that every iteration over all proofs is guarded by Command(delegation).Covers(running command) with the running command carried from the invocation command to each delegation's command and with receiver/argument roles as stated; the relation Covers itself is decided by C15.", TB,
           "SSA path-fact analysis (iteration guard with loop-carried operand, role check)", "DESIGN.md 5.2"),
 "C03": _c("Decides the conjunction structure: the policy matched aggregates the policies of every delegation of a full-range loop, against ToIPLD(arguments) with arguments = token arguments / hook result; verdict required for success; Policy.Match's per-statement four-valued transition table read off the CFG. Not the truth of individual statements.", TB,
           "SSA path-fact analysis + finite decision table read off the CFG + loop-carried accumulator shape", "DESIGN.md 5.3"),
 "C04": _c("Decides the finite decision tables of both IsValidAt methods (bound present/absent x probe side), the use of these by verifyTimeBoundAt for the invocation and every delegation, the clock source, and the decode-side timestamp conversion and bounds. Not the time package.", TB,
           "finite decision tables evaluated on enumerated CFG paths; iteration-guard and term checks", "DESIGN.md 5.4"),
 "C05": _c("Closed-world classification of every failure exit of the authorization path: each must be selected by one of the denials the rules allow; no panic exits; irrelevant fields never read. A necessary structural condition for completeness, modulo correctness of Covers, IsValidAt, Match, ToIPLD (C15, C04, C11).", TB,
           "exhaustive enumeration and classification of failure exits over CFG paths + field-read reachability", "DESIGN.md 5.5"),
 "C12": _c("Decides structural necessary conditions of compositional resolution: every segment literal Parse can build is dispatched by resolve to the kind it intends (abstract evaluation of the dispatch predicates on the literal's fields, including regex-derived non-emptiness); no node is returned from inside the loop over all segments; field and index failure exits go through the optional idiom; slice index resolution uses the length of the collection that is sliced; Select = resolve. Index and slice arithmetic is not decided.", TB,
           "SSA path-fact analysis + abstract evaluation of dispatch predicates over producer literals (sibling/producer-consumer agreement), regexp/syntax minimum-length", "DESIGN.md 5.12"),
 "C13": _c("Decides that no step of the two-pointer glob matcher consumes a '*' or '\\' of the pattern as a literal (step classification of every loop path by how the indices advance, with the facts each kind of step must carry), that parseGlob rejects a trailing lone backslash, and that glob values only come from parseGlob. Language equality is not decided; another algorithm is reported as unrecognised.", TB,
           "SSA path-fact analysis: classification of loop back-edge paths by loop-carried value updates; who-may-convert check", "DESIGN.md 5.13"),
 "C14": _c("Decides that the selector tokenizer is a partition of its input (no pending tail can be dropped on any exit path), that every token produces exactly one segment printing as that token or an error, and that the policy tuple decoder and encoder agree on field positions and arities for each of the five statement structs. Deep equality of round trips is not decided.", TB,
           "SSA path-fact analysis of loop-carried accumulators; producer/consumer position tables extracted from both codecs", "DESIGN.md 5.14"),
 "C15": _c("Decides the finite decision tables of Covers (textual prefix AND one of three boundary facts, roles checked; no spurious false) and Parse (three rejection conditions, nothing else rejected, input returned unchanged), and the single separator constant. The order axioms follow from that shape for valid commands but are not themselves decided.", TB,
           "finite decision tables evaluated on enumerated CFG paths", "DESIGN.md 5.15"),
 "C19": _c("Decides the must-pass-through and who-may-call structure that the confidentiality/authentication claims rest on: key validation and a fresh crypto/rand nonce dominate Seal, the same nonce array is sealed and prefixed, Open's ok result guards the plaintext, validateKey's decision table, plaintext confinement in AddEncrypted, option wiring. Cryptographic strength is the trusted contract of NaCl secretbox.", TB,
           "SSA path-fact analysis (must-pass-through, operand identity), who-may-call over resolved callees, decision table", "DESIGN.md 5.19"),
}

NOT_APPLICABLE = {}
