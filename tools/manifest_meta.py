# Per-property manifest texts.
def _c(text, note, technique, ref):
    return {"text": text, "note": note, "technique": technique, "ref": ref}

TB = "trusted: go/packages + go/ssa (x/tools v0.29.0) represent the source faithfully; third-party libraries named in the evidence file's trusted_base; rule tables hand-confirmed against the tree (minimum instance counts enforced)"

CHECKS = {
 "C01": _c("Decides, over every acyclic CFG path of the authorization functions, the structural necessary conditions of the statement: both entry points must pass through all four stages; empty proof list cannot succeed; every proof is loaded at its index and a loader error fails; every iteration over all proofs is guarded by subject == invocation subject and audience == running issuer; root check after the loop; audience field never read. Not the behaviour of the loader or of DID parsing.", TB,
           "SSA path-fact analysis (must-pass-through, iteration guards, loop-carried value shapes) + call-graph field-read check", "DESIGN.md 5.1"),
 "C02": _c("Decides that every iteration over all proofs is guarded by Command(delegation).Covers(running command) with the running command carried from the invocation command to each delegation's command and with receiver/argument roles as stated; the relation Covers itself is decided by C15.", TB,
           "SSA path-fact analysis (iteration guard with loop-carried operand, role check)", "DESIGN.md 5.2"),
 "C03": _c("Decides the conjunction structure: the policy matched aggregates the policies of every delegation of a full-range loop, against ToIPLD(arguments) with arguments = token arguments / hook result; verdict required for success; Policy.Match's per-statement four-valued transition table read off the CFG. Not the truth of individual statements.", TB,
           "SSA path-fact analysis + finite decision table read off the CFG + loop-carried accumulator shape", "DESIGN.md 5.3"),
 "C04": _c("Decides the finite decision tables of both IsValidAt methods (bound present/absent x probe side), the use of these by verifyTimeBoundAt for the invocation and every delegation, the clock source, and the decode-side timestamp conversion and bounds. Not the time package.", TB,
           "finite decision tables evaluated on enumerated CFG paths; iteration-guard and term checks", "DESIGN.md 5.4"),
 "C05": _c("Closed-world classification of every failure exit of the authorization path: each must be selected by one of the denials the rules allow; no panic exits; irrelevant fields never read. A necessary structural condition for completeness, modulo correctness of Covers, IsValidAt, Match, ToIPLD (C15, C04, C11).", TB,
           "exhaustive enumeration and classification of failure exits over CFG paths + field-read reachability", "DESIGN.md 5.5"),
}

NOT_APPLICABLE = {}
