#!/bin/sh
# tools/regress.sh   snapshot the current checker binary and run the three regression suites with it
# (mutants, seeded changes, behaviour-preserving refactorings); results in /tmp/ucan-regress.*.log
HERE=$(cd "$(dirname "$0")/.." && pwd)
S=$(mktemp -d /tmp/ucanbin.XXXXXX)
cp "$HERE/bin/ucanlint" "$S/ucanlint"
export UCANLINT="$S/ucanlint"
"$HERE/tools/refactorings.sh" > /tmp/ucan-regress.refac.log 2>&1
"$HERE/tools/seeded.sh" > /tmp/ucan-regress.seeded.log 2>&1
"$HERE/tools/selftest.sh" all > /tmp/ucan-regress.selftest.log 2>&1
rm -rf "$S"
echo "refactorings: $(tail -1 /tmp/ucan-regress.refac.log)"
echo "seeded: $(grep -c CAUGHT /tmp/ucan-regress.seeded.log) caught, $(grep -vc CAUGHT /tmp/ucan-regress.seeded.log) other"
echo "selftest: $(tail -1 /tmp/ucan-regress.selftest.log)"
