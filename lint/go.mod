module verif/lint

go 1.23

require golang.org/x/tools v0.29.0
