// Package pool is a positive example for the pool-release rule: it must be reported on every run.
package pool

import (
	"bufio"
	"bytes"
	"io"
	"sync"
)

var readers = sync.Pool{New: func() any { return bufio.NewReader(nil) }}

// LazyLines returns an iterator that keeps using a pooled reader after the deferred Put gave it back: flagged.
func LazyLines(r io.Reader) func(yield func(string) bool) {
	br := readers.Get().(*bufio.Reader)
	br.Reset(r)
	defer readers.Put(br)
	return func(yield func(string) bool) {
		for {
			s, err := br.ReadString('\n')
			if err != nil || !yield(s) {
				return
			}
		}
	}
}

// FirstLine gives the reader back after its last use: not flagged.
func FirstLine(r io.Reader) (string, error) {
	br := readers.Get().(*bufio.Reader)
	br.Reset(r)
	defer readers.Put(br)
	return br.ReadString('\n')
}

// Leak returns the pooled object itself while also giving it back: flagged.
func Leak(r io.Reader) *bufio.Reader {
	br := readers.Get().(*bufio.Reader)
	br.Reset(r)
	readers.Put(br)
	return br
}

var buffers = sync.Pool{New: func() any { return new(bytes.Buffer) }}

// View returns bytes that live inside a pooled buffer: the next user of the buffer overwrites them: flagged.
func View(s string) []byte {
	buf := buffers.Get().(*bytes.Buffer)
	defer buffers.Put(buf)
	buf.Reset()
	buf.WriteString(s)
	return buf.Bytes()
}

// Copy returns a copy of the pooled buffer's bytes: not flagged.
func Copy(s string) []byte {
	buf := buffers.Get().(*bytes.Buffer)
	defer buffers.Put(buf)
	buf.Reset()
	buf.WriteString(s)
	return append([]byte(nil), buf.Bytes()...)
}
