module canary

go 1.23
