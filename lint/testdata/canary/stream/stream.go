// Package stream is a positive example for the single-read rule: it must be reported on every run.
package stream

import (
	"bufio"
	"io"
)

// Header fills a fixed-size buffer with one Read: what it gets depends on how the stream is chunked: flagged.
func Header(r *bufio.Reader, n int) ([]byte, error) {
	buf := make([]byte, n)
	got, err := r.Read(buf)
	if err != nil {
		return nil, err
	}
	if got < n {
		return nil, io.ErrUnexpectedEOF
	}
	return buf, nil
}

// HeaderFull uses io.ReadFull: not flagged.
func HeaderFull(r *bufio.Reader, n int) ([]byte, error) {
	buf := make([]byte, n)
	if _, err := io.ReadFull(r, buf); err != nil {
		return nil, err
	}
	return buf, nil
}

// Drain reads in a loop until the stream ends: not flagged.
func Drain(r io.Reader) (int, error) {
	buf := make([]byte, 512)
	total := 0
	for {
		n, err := r.Read(buf)
		total += n
		if err == io.EOF {
			return total, nil
		}
		if err != nil {
			return total, err
		}
	}
}

type counting struct {
	r io.Reader
	n int
}

// Read of a wrapper hands one Read on: not flagged.
func (c *counting) Read(p []byte) (int, error) {
	n, err := c.r.Read(p)
	c.n += n
	return n, err
}
