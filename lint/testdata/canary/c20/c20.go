// Package c20 is a positive example for the C20 effect analysis: a "read-only" method that sorts a
// shared slice in place, one that writes through an alias returned by a helper, and one that is clean.
package c20

import "sort"

type Bag struct {
	keys []string
	vals map[string]int
	hits int
}

// Print is documented read-only but sorts the shared key slice (must be flagged: mutator-call).
func (b *Bag) Print() string {
	sort.Strings(b.keys)
	out := ""
	for _, k := range b.keys {
		out += k
	}
	return out
}

func (b *Bag) view() []string { return b.keys }

// First writes through an alias obtained from a helper (must be flagged: store).
func (b *Bag) First() string {
	v := b.view()
	if len(v) > 1 && v[0] > v[1] {
		v[0], v[1] = v[1], v[0]
	}
	return v[0]
}

// Count writes a counter field (must be flagged: store).
func (b *Bag) Count() int {
	b.hits++
	return len(b.vals)
}

// Sorted is clean: it sorts a copy (must NOT be flagged).
func (b *Bag) Sorted() []string {
	c := make([]string, len(b.keys))
	copy(c, b.keys)
	sort.Strings(c)
	return c
}
