// Package repeat is a positive example for the rule "the count of strings.Repeat / bytes.Repeat is known not to
// be negative" (C09.P5): Pad must be flagged on every run, the other functions must not.
package repeat

import (
	"bytes"
	"strings"
	"unicode/utf8"
)

// Pad aligns a key on a width counted in runes with a length counted in bytes: negative for a non-ASCII key.
func Pad(key string, width int) string {
	return key + strings.Repeat(" ", width-len(key))
}

// PadGuarded tests the count first.
func PadGuarded(key string, width int) string {
	if n := width - utf8.RuneCountInString(key); n > 0 {
		return key + strings.Repeat(" ", n)
	}
	return key
}

// Rule repeats a constant number of times.
func Rule() string { return strings.Repeat("-", 40) }

// Same repeats once per byte of the key.
func Same(key string) []byte { return bytes.Repeat([]byte{'*'}, len(key)) }

// Clamped uses max.
func Clamped(key string, width int) string {
	return key + strings.Repeat(" ", max(0, width-len(key)))
}
