// ucandump prints the enumerated paths of functions (development aid and --replay backend).
package main

import (
	"flag"
	"fmt"
	"os"
	"strings"

	"verif/lint/internal/load"
	"verif/lint/internal/paths"
)

func main() {
	repo := flag.String("repo", "/repo", "repository")
	list := flag.Bool("list", false, "list function names matching the argument")
	anchors := flag.Bool("anchors", false, "print the frozen anchor table (Go source) for internal/load/anchors_gen.go")
	flag.Parse()
	p, err := load.Load(load.Options{Dir: *repo})
	if err != nil {
		fmt.Fprintln(os.Stderr, err)
		os.Exit(2)
	}
	if *anchors {
		fmt.Print(load.GenAnchors(p))
		return
	}
	for _, a := range flag.Args() {
		if *list {
			for _, f := range p.ModuleFuncs() {
				if strings.Contains(load.ShortName(f), a) {
					fmt.Println(load.ShortName(f))
				}
			}
			continue
		}
		f := p.Func(a)
		if f == nil {
			fmt.Println("no such function:", a)
			continue
		}
		ps, err := paths.Enumerate(f)
		if err != nil {
			fmt.Println(err)
			continue
		}
		fi := paths.Info(f)
		fmt.Printf("== %s: %d paths, %d loops\n", a, len(ps), len(fi.Loops))
		for _, l := range fi.Loops {
			fmt.Printf("   loop#%d header b%d iv=%v start=%d bound=%v\n", l.Index, l.Header.Index, l.IV != nil, l.Start, func() string {
				if l.Bound == nil {
					return "-"
				}
				return paths.DetachedTerm(f, l.Bound).String()
			}())
		}
		for i, q := range ps {
			fmt.Printf("-- path %d\n%s\n", i, q)
		}
	}
}
