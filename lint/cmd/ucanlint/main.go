// ucanlint decides the structural rules of one or more properties on /repo's current source.
package main

import (
	"encoding/json"
	"flag"
	"fmt"
	"os"
	"runtime/debug"
	"strings"

	"verif/lint/internal/load"
	"verif/lint/internal/paths"
	"verif/lint/internal/report"
	"verif/lint/internal/rules"
)

func main() {
	prop := flag.String("property", "", "property id (C01..C20), comma separated list, or 'all'")
	tier := flag.String("tier", "quick", "quick | thorough")
	repo := flag.String("repo", "/repo", "repository to analyse")
	verif := flag.String("verif", "/verif", "verification directory (known findings)")
	out := flag.String("out", "", "directory receiving evidence/ (default: the verification directory)")
	tags := flag.String("tags", "", "build tags")
	goarch := flag.String("goarch", "", "GOARCH for loading")
	list := flag.Bool("list", false, "list registered properties")
	useCHA := flag.Bool("cha", false, "use the CHA call graph (superset of VTA) for reachability")
	extra := flag.String("extra", "", "JSON file whose object is merged into the evidence coverage (thorough tier: self-test and configuration results)")
	flag.Parse()
	if *list {
		for _, id := range rules.IDs() {
			fmt.Println(id)
		}
		return
	}
	if *out == "" {
		*out = *verif
	}
	var ids []string
	if *prop == "all" {
		ids = rules.IDs()
	} else {
		ids = strings.Split(*prop, ",")
	}
	for _, id := range ids {
		if rules.Registry[id] == nil {
			fmt.Fprintf(os.Stderr, "unknown property %q\n", id)
			os.Exit(2)
		}
	}
	p, lerr := load.Load(load.Options{Dir: *repo, Tags: *tags, GOARCH: *goarch, CHA: *useCHA})
	worst := 0
	for _, id := range ids {
		pr := rules.Registry[id]
		chk := report.New(pr.Meta, *tier)
		stats := map[string]any{}
		code := func() (code int) {
			defer func() {
				if r := recover(); r != nil {
					chk.Unresolved(id+".ENGINE", "checker-panic", "-", fmt.Sprintf("%v\n%s", r, debug.Stack()))
					code = chk.Finish(*verif, *out, stats)
				}
			}()
			if lerr != nil {
				chk.Unresolved(id+".LOAD", "load", "-", lerr.Error())
				return chk.Finish(*verif, *out, stats)
			}
			eng := paths.NewEngine(p.InModule)
			x := &rules.Ctx{P: p, E: eng, C: chk, Tier: *tier, VerifDir: *verif}
			pr.Run(x)
			stats["packages_loaded"] = len(p.Pkgs)
			stats["functions_path_enumerated"] = eng.FuncsEnumerated
			stats["paths_enumerated"] = eng.PathsEnumerated
			stats["consistency_queries"] = eng.Queries
			stats["call_graph"] = map[bool]string{true: "CHA", false: "VTA seeded by CHA"}[*useCHA]
			if *extra != "" {
				if b, err := os.ReadFile(*extra); err == nil {
					var m map[string]any
					if json.Unmarshal(b, &m) == nil {
						for k, v := range m {
							stats[k] = v
						}
					}
				}
			}
			return chk.Finish(*verif, *out, stats)
		}()
		if code > worst {
			worst = code
		}
	}
	os.Exit(worst)
}
