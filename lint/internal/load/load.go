// Package load type-checks /repo, builds its SSA form and the in-module call graph (engine E0).
package load

import (
	"fmt"
	"go/token"
	"go/types"
	"os"
	"sort"
	"strings"

	"golang.org/x/tools/go/callgraph"
	"golang.org/x/tools/go/callgraph/cha"
	"golang.org/x/tools/go/callgraph/vta"
	"golang.org/x/tools/go/packages"
	"golang.org/x/tools/go/ssa"
	"golang.org/x/tools/go/ssa/ssautil"

	"verif/lint/internal/paths"
)

// Module is the import path prefix of the analysed module.
const Module = "github.com/ucan-wg/go-ucan"

// LibraryPackages are the packages that must be present (relative to Module).
var LibraryPackages = []string{
	"did", "pkg/args", "pkg/command", "pkg/container", "pkg/meta", "pkg/meta/internal/crypto",
	"pkg/policy", "pkg/policy/limits", "pkg/policy/literal", "pkg/policy/selector",
	"token", "token/delegation", "token/invocation", "token/internal/envelope",
	"token/internal/nonce", "token/internal/parse", "token/internal/varsig",
}

// Program is the loaded, type-checked program.
type Program struct {
	refs   map[*ssa.Function][]*ssa.Function
	Mod    string
	UseCHA bool
	Dir    string
	Fset   *token.FileSet
	Pkgs   []*packages.Package // module packages only (non-test variants)
	All    []*packages.Package
	Prog   *ssa.Program
	SSA    map[string]*ssa.Package // by import path
	Funcs  map[*ssa.Function]bool  // all functions (incl. instantiations, closures)

	cg            *callgraph.Graph
	inMod         map[*ssa.Function]bool
	edges         map[*ssa.Function][]*ssa.Function // in-module call edges (resolved) + parent→closure
	callers       map[*ssa.Function][]*callgraph.Edge
	byName        map[string]*ssa.Function
	siteCallees   map[ssa.CallInstruction][]*ssa.Function
	renamed       map[string]string
	fieldsRenamed map[string]string
}

// Options configures loading.
type Options struct {
	// Module overrides the module path prefix (default: the go-ucan module); when set, the
	// library package presence check is skipped (used for canary packages).
	Module string
	Dir    string
	Tags   string
	GOARCH string
	// CHA selects the class-hierarchy call graph (a superset of VTA) for reachability.
	CHA bool
}

// Load loads ./... of dir.
func Load(opt Options) (*Program, error) {
	env := append(os.Environ(), "GOFLAGS=-mod=mod", "GOPROXY=off", "GOSUMDB=off", "GOTOOLCHAIN=local", "GOWORK=off")
	if opt.GOARCH != "" {
		env = append(env, "GOARCH="+opt.GOARCH)
	}
	cfg := &packages.Config{
		Mode:  packages.LoadAllSyntax,
		Dir:   opt.Dir,
		Env:   env,
		Tests: false,
	}
	if opt.Tags != "" {
		cfg.BuildFlags = []string{"-tags=" + opt.Tags}
	}
	pkgs, err := packages.Load(cfg, "./...")
	if err != nil {
		return nil, fmt.Errorf("packages.Load: %w", err)
	}
	if len(pkgs) == 0 {
		return nil, fmt.Errorf("no packages loaded from %s", opt.Dir)
	}
	mod := Module
	if opt.Module != "" {
		mod = opt.Module
	}
	var errs []string
	packages.Visit(pkgs, nil, func(p *packages.Package) {
		if !strings.HasPrefix(p.PkgPath, mod) {
			return
		}
		for _, e := range p.Errors {
			errs = append(errs, e.Error())
		}
	})
	if len(errs) > 0 {
		return nil, fmt.Errorf("type-check errors in module:\n  %s", strings.Join(errs, "\n  "))
	}
	p := &Program{Mod: mod, Dir: opt.Dir, Fset: pkgs[0].Fset, All: pkgs, UseCHA: opt.CHA}
	have := map[string]bool{}
	for _, pk := range pkgs {
		if strings.HasPrefix(pk.PkgPath, mod) {
			p.Pkgs = append(p.Pkgs, pk)
			have[strings.TrimPrefix(strings.TrimPrefix(pk.PkgPath, mod), "/")] = true
		}
	}
	if opt.Module == "" {
		for _, lp := range LibraryPackages {
			if !have[lp] {
				return nil, fmt.Errorf("library package %s/%s not loaded", Module, lp)
			}
		}
	}
	prog, ssapkgs := ssautil.AllPackages(pkgs, ssa.InstantiateGenerics)
	prog.Build()
	p.Prog = prog
	p.SSA = map[string]*ssa.Package{}
	for i, sp := range ssapkgs {
		if sp != nil {
			p.SSA[pkgs[i].PkgPath] = sp
		}
	}
	for _, sp := range prog.AllPackages() {
		if _, ok := p.SSA[sp.Pkg.Path()]; !ok {
			p.SSA[sp.Pkg.Path()] = sp
		}
	}
	p.Funcs = ssautil.AllFunctions(prog)
	p.inMod = map[*ssa.Function]bool{}
	p.byName = map[string]*ssa.Function{}
	for f := range p.Funcs {
		if p.isInModule(f) {
			p.inMod[f] = true
		}
	}
	if opt.Module == "" {
		p.resolveRenames()
		p.resolveFieldRenames()
		paths.InModule = func(g *ssa.Function) bool { return p.inMod[g] }
		// helper functions that did not exist on the confirmed tree are spliced into their callers' paths
		paths.Inlineable = func(g *ssa.Function) bool {
			if g == nil || !p.inMod[g] || len(g.Blocks) == 0 {
				return false
			}
			if g.Parent() != nil {
				// a function literal that captures nothing, called by name in its own function (a local helper
				// written as "f := func(x T) U {...}"): spliced like a helper function
				return len(g.FreeVars) == 0 && g.Recover == nil && g.Synthetic == ""
			}
			if g.Origin() != nil && strings.HasPrefix(g.Synthetic, "instance of") {
				// a ground instance of a generic helper has its own body; what it is is decided on the generic function
				o := g.Origin()
				_, frozen := FrozenAnchors[paths.FuncName(o)]
				return !frozen && o.Object() != nil && (!o.Object().Exported() || p.isInternalPkg(o)) && o.Parent() == nil
			}
			if g.Synthetic != "" || g.Origin() != nil {
				return false
			}
			if g.Object() != nil && g.Object().Exported() && !p.isInternalPkg(g) {
				return false // API functions keep their name on their callers' paths, whatever their body looks like
			}
			if a, frozen := FrozenAnchors[paths.FuncName(g)]; frozen {
				// a function of the confirmed tree keeps its name on its callers' paths, unless it was a one-line
				// forwarding wrapper there (and still is): callers then see the wrapped call
				return a.Wrapper && paths.TrivialWrapper(g)
			}
			if paths.TrivialWrapper(g) {
				return true // forwards to one call: callers see the wrapped call
			}
			_, frozen := FrozenAnchors[paths.FuncName(g)]
			return !frozen
		}
	}
	for f := range p.inMod {
		p.byName[ShortName(f)] = f
	}
	return p, nil
}

func (p *Program) isInModule(f *ssa.Function) bool {
	for g := f; g != nil; g = g.Parent() {
		if g.Pkg != nil {
			return strings.HasPrefix(g.Pkg.Pkg.Path(), p.Mod)
		}
		if o := g.Origin(); o != nil && o.Pkg != nil {
			return strings.HasPrefix(o.Pkg.Pkg.Path(), p.Mod)
		}
		if g.Object() != nil && g.Object().Pkg() != nil {
			return strings.HasPrefix(g.Object().Pkg().Path(), p.Mod)
		}
	}
	return false
}

// InModule tells whether f belongs to the analysed module.
func (p *Program) InModule(f *ssa.Function) bool { return p.inMod[f] }

// ShortName is the canonical short name of a function: module prefix stripped.
// e.g. "(*token/invocation.Token).verifyProofs", "pkg/policy.matchStatement", "token/invocation.New$1".
func ShortName(f *ssa.Function) string {
	return paths.FuncName(f)
}

// Func finds an in-module function by short name; nil if absent.
func (p *Program) Func(short string) *ssa.Function { return p.byName[short] }

// ModuleFuncs returns all in-module functions sorted by short name.
func (p *Program) ModuleFuncs() []*ssa.Function {
	var out []*ssa.Function
	for f := range p.inMod {
		out = append(out, f)
	}
	sort.Slice(out, func(i, j int) bool { return ShortName(out[i]) < ShortName(out[j]) })
	return out
}

// IsLibrary tells whether f lives in one of the library packages (not test helpers / generators).
func (p *Program) IsLibrary(f *ssa.Function) bool {
	pp := p.PkgPathOf(f)
	rel := strings.TrimPrefix(strings.TrimPrefix(pp, Module), "/")
	for _, lp := range LibraryPackages {
		if lp == rel {
			return true
		}
	}
	return false
}

// PkgPathOf returns the package path owning f (through parents and generic origins).
func (p *Program) PkgPathOf(f *ssa.Function) string {
	for g := f; g != nil; g = g.Parent() {
		if g.Pkg != nil {
			return g.Pkg.Pkg.Path()
		}
		if o := g.Origin(); o != nil && o.Pkg != nil {
			return o.Pkg.Pkg.Path()
		}
		if g.Object() != nil && g.Object().Pkg() != nil {
			return g.Object().Pkg().Path()
		}
	}
	return ""
}

// CallGraph builds (once) the VTA call graph seeded by CHA.
func (p *Program) CallGraph() *callgraph.Graph {
	if p.cg == nil {
		if p.UseCHA {
			p.cg = cha.CallGraph(p.Prog)
		} else {
			p.cg = vta.CallGraph(p.Funcs, cha.CallGraph(p.Prog))
		}
		p.buildEdges()
	}
	return p.cg
}

func (p *Program) buildEdges() {
	p.edges = map[*ssa.Function][]*ssa.Function{}
	p.callers = map[*ssa.Function][]*callgraph.Edge{}
	seen := map[[2]*ssa.Function]bool{}
	add := func(a, b *ssa.Function) {
		k := [2]*ssa.Function{a, b}
		if seen[k] {
			return
		}
		seen[k] = true
		p.edges[a] = append(p.edges[a], b)
	}
	for f, n := range p.cg.Nodes {
		if f == nil || !p.inMod[f] {
			continue
		}
		for _, e := range n.Out {
			c := e.Callee.Func
			if c == nil || !p.inMod[c] {
				continue
			}
			// closures are reached through their lexical parent only (see DESIGN E0)
			if c.Parent() != nil {
				continue
			}
			add(f, c)
			p.callers[c] = append(p.callers[c], e)
		}
	}
	for f := range p.inMod {
		for _, af := range f.AnonFuncs {
			add(f, af)
		}
	}
}

// Callees returns the in-module callees of f (closures via their parent).
func (p *Program) Callees(f *ssa.Function) []*ssa.Function {
	p.CallGraph()
	return p.edges[f]
}

// CallersOf returns the in-module call edges whose callee is f.
func (p *Program) CallersOf(f *ssa.Function) []*callgraph.Edge {
	p.CallGraph()
	return p.callers[f]
}

// Reach computes the set of in-module functions reachable from roots.
func (p *Program) Reach(roots []*ssa.Function) map[*ssa.Function]bool {
	p.CallGraph()
	seen := map[*ssa.Function]bool{}
	var stack []*ssa.Function
	for _, r := range roots {
		if r != nil && !seen[r] {
			seen[r] = true
			stack = append(stack, r)
		}
	}
	for len(stack) > 0 {
		f := stack[len(stack)-1]
		stack = stack[:len(stack)-1]
		for _, c := range p.edges[f] {
			if !seen[c] {
				seen[c] = true
				stack = append(stack, c)
			}
		}
	}
	return seen
}

// ReachFrom is Reach from one root, context-sensitive in function-valued arguments: when a function receives a
// function value (function, closure, method value) as an argument, the calls it makes through that parameter
// reach only the values passed at the call being followed, not those passed by other callers. A helper shared
// by several entry points (run this serializer against a buffer) therefore does not connect them.
func (p *Program) ReachFrom(root *ssa.Function) map[*ssa.Function]bool {
	p.CallGraph()
	seen := map[*ssa.Function]bool{}
	done := map[string]bool{}
	type env map[int][]*ssa.Function
	key := func(f *ssa.Function, e env) string {
		var ks []string
		for i, fs := range e {
			for _, g := range fs {
				ks = append(ks, fmt.Sprintf("%d=%s", i, g.String()))
			}
		}
		sort.Strings(ks)
		return f.String() + "|" + strings.Join(ks, ",")
	}
	// funcsOf resolves a function-valued operand of f under e
	var funcsOf func(f *ssa.Function, e env, v ssa.Value) []*ssa.Function
	funcsOf = func(f *ssa.Function, e env, v ssa.Value) []*ssa.Function {
		switch x := v.(type) {
		case *ssa.Function:
			return []*ssa.Function{x}
		case *ssa.MakeClosure:
			g := x.Fn.(*ssa.Function)
			if strings.HasPrefix(g.Synthetic, "bound method wrapper") {
				if obj, ok := g.Object().(*types.Func); ok {
					if m := p.Prog.FuncValue(obj); m != nil {
						return []*ssa.Function{m}
					}
				}
			}
			return []*ssa.Function{g}
		case *ssa.ChangeType:
			return funcsOf(f, e, x.X)
		case *ssa.Parameter:
			for i, prm := range f.Params {
				if prm == x {
					return e[i]
				}
			}
		}
		return nil
	}
	var visit func(f *ssa.Function, e env)
	visit = func(f *ssa.Function, e env) {
		if f == nil || !p.inMod[f] {
			return
		}
		k := key(f, e)
		if done[k] {
			return
		}
		done[k] = true
		seen[f] = true
		for _, af := range f.AnonFuncs {
			visit(af, nil)
		}
		for _, b := range f.Blocks {
			for _, in := range b.Instrs {
				site, ok := in.(ssa.CallInstruction)
				if !ok {
					continue
				}
				cc := site.Common()
				var targets []*ssa.Function
				if !cc.IsInvoke() {
					targets = funcsOf(f, e, cc.Value)
				}
				if len(targets) == 0 {
					for _, g := range p.CalleesAt(site) {
						if g.Parent() == nil || g.Parent() == f { // closures are reached through their lexical parent only
							targets = append(targets, g)
						}
					}
				}
				for _, g := range targets {
					if strings.HasPrefix(g.Synthetic, "instantiation wrapper") && g.Origin() != nil {
						g = g.Origin()
					}
					var ge env
					for i, a := range cc.Args {
						if _, isFn := a.Type().Underlying().(*types.Signature); !isFn {
							continue
						}
						if fs := funcsOf(f, e, a); len(fs) > 0 && i < len(g.Params) {
							if ge == nil {
								ge = env{}
							}
							ge[i] = fs
						}
					}
					visit(g, ge)
					// function values handed to code outside the module (qp.List(n, f), slices.SortFunc, ...) are called by it
					if !p.inMod[g] {
						for _, fs := range ge {
							for _, h := range fs {
								visit(h, nil)
							}
						}
					}
				}
				if len(targets) == 0 || cc.IsInvoke() {
					for _, a := range cc.Args {
						if _, isFn := a.Type().Underlying().(*types.Signature); isFn {
							for _, h := range funcsOf(f, e, a) {
								visit(h, nil)
							}
						}
					}
				}
			}
		}
	}
	visit(root, nil)
	return seen
}

// Pos renders a position relative to the repo dir.
func (p *Program) Pos(pos token.Pos) string {
	if !pos.IsValid() {
		return "-"
	}
	ps := p.Fset.Position(pos)
	fn := strings.TrimPrefix(ps.Filename, p.Dir+"/")
	return fmt.Sprintf("%s:%d", fn, ps.Line)
}

// FuncPos renders the position of a function.
func (p *Program) FuncPos(f *ssa.Function) string {
	for g := f; g != nil; g = g.Parent() {
		if g.Pos().IsValid() {
			return p.Pos(g.Pos())
		}
		if o := g.Origin(); o != nil && o.Pos().IsValid() {
			return p.Pos(o.Pos())
		}
	}
	return "-"
}

// ExportedAPI returns exported functions and methods (of exported or unexported named types
// reachable by users through interfaces) of the library packages.
func (p *Program) ExportedAPI() []*ssa.Function {
	var out []*ssa.Function
	seen := map[*ssa.Function]bool{}
	for _, pk := range p.Pkgs {
		sp := p.SSA[pk.PkgPath]
		if sp == nil {
			continue
		}
		rel := strings.TrimPrefix(strings.TrimPrefix(pk.PkgPath, Module), "/")
		lib := false
		for _, lp := range LibraryPackages {
			if lp == rel {
				lib = true
			}
		}
		if !lib {
			continue
		}
		for _, m := range sp.Members {
			switch m := m.(type) {
			case *ssa.Function:
				if m.Object() != nil && m.Object().Exported() && m.TypeParams().Len() == 0 {
					if !seen[m] {
						seen[m] = true
						out = append(out, m)
					}
				}
			case *ssa.Type:
				nt, ok := m.Type().(*types.Named)
				if !ok {
					continue
				}
				for _, t := range []types.Type{nt, types.NewPointer(nt)} {
					ms := p.Prog.MethodSets.MethodSet(t)
					for i := 0; i < ms.Len(); i++ {
						sel := ms.At(i)
						if !sel.Obj().Exported() {
							continue
						}
						fn := p.Prog.MethodValue(sel)
						if fn == nil || seen[fn] {
							continue
						}
						// skip wrappers: keep the declared method
						if fn.Synthetic != "" {
							continue
						}
						seen[fn] = true
						out = append(out, fn)
					}
				}
			}
		}
	}
	sort.Slice(out, func(i, j int) bool { return ShortName(out[i]) < ShortName(out[j]) })
	return out
}

// CalleesAt resolves the in-module callees of one call instruction: the static callee, or the
// call-graph (VTA) targets for interface invokes and function values.
func (p *Program) CalleesAt(site ssa.CallInstruction) []*ssa.Function {
	cc := site.Common()
	if !cc.IsInvoke() {
		switch v := cc.Value.(type) {
		case *ssa.Function:
			if p.inMod[v] {
				return []*ssa.Function{v}
			}
			return nil
		case *ssa.MakeClosure:
			return []*ssa.Function{v.Fn.(*ssa.Function)}
		case *ssa.Builtin:
			return nil
		}
	}
	p.CallGraph()
	if p.siteCallees == nil {
		p.siteCallees = map[ssa.CallInstruction][]*ssa.Function{}
		for _, n := range p.cg.Nodes {
			for _, e := range n.Out {
				if e.Site != nil && e.Callee.Func != nil && p.inMod[e.Callee.Func] {
					p.siteCallees[e.Site] = append(p.siteCallees[e.Site], e.Callee.Func)
				}
			}
		}
	}
	return p.siteCallees[site]
}

// Renamed lists the anchors that were resolved by signature (canonical name -> current name).
func (p *Program) Renamed() map[string]string { return p.renamed }

// sigKey renders package, receiver and signature of a function (names of parameters excluded).
func sigKey(f *ssa.Function) string {
	recv := ""
	if r := f.Signature.Recv(); r != nil {
		recv = r.Type().String()
	}
	return recv + "|" + types.TypeString(types.NewSignatureType(nil, nil, nil, unnamed(f.Signature.Params()), unnamed(f.Signature.Results()), f.Signature.Variadic()), nil)
}

// unnamed drops the parameter / result names of a tuple (a rename of a parameter is not a new signature).
func unnamed(t *types.Tuple) *types.Tuple {
	vs := make([]*types.Var, t.Len())
	for i := range vs {
		vs[i] = types.NewVar(0, nil, "", t.At(i).Type())
	}
	return types.NewTuple(vs...)
}

// resolveRenames binds frozen anchor names that no longer exist to the unique function of the same
// package / receiver / signature whose own name is not a frozen name (a renamed unexported function).
func (p *Program) resolveRenames() {
	p.renamed = map[string]string{}
	have := map[string]*ssa.Function{}
	byPkgSig := map[string][]*ssa.Function{}
	for f := range p.inMod {
		if f.Parent() != nil || f.Synthetic != "" || f.Origin() != nil {
			continue
		}
		name := strings.ReplaceAll(strings.ReplaceAll(f.String(), Module+"/", ""), Module, "")
		have[name] = f
		byPkgSig[p.PkgPathOf(f)+"#"+sigKey(f)] = append(byPkgSig[p.PkgPathOf(f)+"#"+sigKey(f)], f)
	}
	for name, a := range FrozenAnchors {
		if _, ok := have[name]; ok {
			continue
		}
		var cands []*ssa.Function
		for _, f := range byPkgSig[Module+"/"+a.Pkg+"#"+a.Sig] {
			cur := strings.ReplaceAll(strings.ReplaceAll(f.String(), Module+"/", ""), Module, "")
			if _, frozen := FrozenAnchors[cur]; frozen {
				continue
			}
			if f.Object() != nil && f.Object().Exported() {
				continue
			}
			cands = append(cands, f)
		}
		if len(cands) == 1 {
			paths.Alias[cands[0]] = name
			p.renamed[name] = cands[0].String()
		}
	}
}

// libraryStructs lists the named struct types of the library packages, keyed "pkg.Type" (package relative
// to the module).
func (p *Program) libraryStructs() map[string]*types.Struct {
	out := map[string]*types.Struct{}
	for _, lp := range LibraryPackages {
		sp := p.SSA[Module+"/"+lp]
		if sp == nil {
			continue
		}
		sc := sp.Pkg.Scope()
		for _, n := range sc.Names() {
			tn, ok := sc.Lookup(n).(*types.TypeName)
			if !ok || tn.IsAlias() {
				continue
			}
			if st, ok := tn.Type().Underlying().(*types.Struct); ok {
				out[lp+"."+n] = st
			}
		}
	}
	return out
}

// FieldsRenamed lists the struct fields that were resolved by type (struct.canonical -> current name).
func (p *Program) FieldsRenamed() map[string]string { return p.fieldsRenamed }

// resolveFieldRenames binds frozen unexported field names that no longer exist in their struct to the unique
// new field of the same type (the one at the same position when several qualify): a renamed field.
func (p *Program) resolveFieldRenames() {
	p.fieldsRenamed = map[string]string{}
	for key, st := range p.libraryStructs() {
		frozen, ok := FrozenFields[key]
		if !ok {
			continue
		}
		fnames := map[string]bool{}
		for _, f := range frozen {
			fnames[f.Name] = true
		}
		cur := map[string]bool{}
		for i := 0; i < st.NumFields(); i++ {
			cur[st.Field(i).Name()] = true
		}
		used := map[int]bool{}
		for fi, f := range frozen {
			if cur[f.Name] {
				continue
			}
			var cands []int
			for i := 0; i < st.NumFields(); i++ {
				v := st.Field(i)
				if fnames[v.Name()] || v.Exported() || used[i] || types.TypeString(v.Type(), nil) != f.Type {
					continue
				}
				cands = append(cands, i)
			}
			pick := -1
			if len(cands) == 1 {
				pick = cands[0]
			} else {
				for _, c := range cands {
					if c == fi {
						pick = c
					}
				}
			}
			if pick >= 0 {
				used[pick] = true
				paths.FieldAlias[st.Field(pick)] = f.Name
				p.fieldsRenamed[key+"."+f.Name] = st.Field(pick).Name()
			}
		}
	}
}

// GenAnchors renders the frozen anchor table for the current tree.
func GenAnchors(p *Program) string {
	var names []string
	ents := map[string]Anchor{}
	for f := range p.inMod {
		if f.Parent() != nil || f.Synthetic != "" || f.Origin() != nil || !p.IsLibrary(f) {
			continue
		}
		if f.Object() == nil || (f.Object().Exported() && !p.isInternalPkg(f)) {
			continue
		}
		name := strings.ReplaceAll(strings.ReplaceAll(f.String(), Module+"/", ""), Module, "")
		if strings.HasSuffix(name, ".init") {
			continue
		}
		ents[name] = Anchor{Pkg: strings.TrimPrefix(p.PkgPathOf(f), Module+"/"), Sig: sigKey(f), Wrapper: paths.TrivialWrapper(f)}
		names = append(names, name)
	}
	sort.Strings(names)
	var sb strings.Builder
	sb.WriteString("package load\n\n// Code generated by `ucandump -anchors`; DO NOT EDIT by hand.\n\n")
	sb.WriteString("// Anchor is the frozen identity of an unexported function: package (relative to the module) and\n// receiver|signature rendering.\ntype Anchor struct {\n\tPkg, Sig string\n\tWrapper  bool // a one-line forwarding wrapper on the confirmed tree\n}\n\n")
	sb.WriteString("// FrozenAnchors lists the unexported library functions of the tree the rules were confirmed on. When one of\n// these names is missing, the loader binds it to the unique function with the same package, receiver and\n// signature that carries an unknown name (a renamed function), so that renames do not unresolve anchors.\nvar FrozenAnchors = map[string]Anchor{\n")
	for _, n := range names {
		fmt.Fprintf(&sb, "\t%q: {%q, %q, %v},\n", n, ents[n].Pkg, ents[n].Sig, ents[n].Wrapper)
	}
	sb.WriteString("}\n")
	sb.WriteString("\n// FrozenField is the frozen identity of a struct field: name and type.\ntype FrozenField struct{ Name, Type string }\n\n")
	sb.WriteString("// FrozenFields lists the fields of the library's struct types on the tree the rules were confirmed on. When an\n// unexported one of these names is missing from its struct, the loader binds it to the unique new field of the\n// same type (a renamed field), so that renames of unexported fields change no term.\nvar FrozenFields = map[string][]FrozenField{\n")
	structs := p.libraryStructs()
	var keys []string
	for k := range structs {
		keys = append(keys, k)
	}
	sort.Strings(keys)
	for _, k := range keys {
		st := structs[k]
		var fents []string
		for i := 0; i < st.NumFields(); i++ {
			v := st.Field(i)
			fents = append(fents, fmt.Sprintf("{%q, %q}", v.Name(), types.TypeString(v.Type(), nil)))
		}
		if len(fents) > 0 {
			fmt.Fprintf(&sb, "\t%q: {%s},\n", k, strings.Join(fents, ", "))
		}
	}
	sb.WriteString("}\n")
	return sb.String()
}

// IsNewHelper tells whether f is an unexported top-level function that did not exist (under any
// name: renames are resolved first) on the tree the rules and audited tables were confirmed on.
func (p *Program) IsNewHelper(f *ssa.Function) bool {
	if f == nil || !p.inMod[f] || f.Synthetic != "" || f.Parent() != nil || f.Origin() != nil || len(f.Blocks) == 0 {
		return false
	}
	if f.Object() == nil || (f.Object().Exported() && !p.isInternalPkg(f)) {
		return false
	}
	_, frozen := FrozenAnchors[paths.FuncName(f)]
	return !frozen
}

// isInternalPkg tells whether f lives in an internal/ package of the module: its exported functions are not
// API, a new one is a helper like any unexported function.
func (p *Program) isInternalPkg(f *ssa.Function) bool {
	return strings.Contains(p.PkgPathOf(f)+"/", "/internal/")
}

// Owners gives the confirmed functions an inventory entry of f is attributed to: closures belong to
// their top-level function; a new helper belongs to the confirmed functions it is (transitively)
// called from, so that moving code into a helper does not change any per-function inventory.
func (p *Program) Owners(f *ssa.Function) []*ssa.Function { return p.owners(f, true) }

// PathOwners gives the functions on whose enumerated paths the instructions of f appear: f itself,
// unless it is a new helper, which is spliced into the paths of its (transitive) confirmed callers.
func (p *Program) PathOwners(f *ssa.Function) []*ssa.Function { return p.owners(f, false) }

func (p *Program) owners(f *ssa.Function, lift bool) []*ssa.Function {
	seen := map[*ssa.Function]bool{}
	out := map[*ssa.Function]bool{}
	var visit func(g *ssa.Function)
	visit = func(g *ssa.Function) {
		for lift && g.Parent() != nil {
			g = g.Parent()
		}
		if seen[g] {
			return
		}
		seen[g] = true
		wrapper := g.Synthetic != "" && (strings.HasPrefix(g.Synthetic, "bound method") || strings.HasPrefix(g.Synthetic, "thunk") || strings.HasPrefix(g.Synthetic, "wrapper") || strings.HasPrefix(g.Synthetic, "instan"))
		if !wrapper && (!p.IsNewHelper(g) || paths.Inlineable == nil || !lift && !paths.Inlineable(g)) {
			out[g] = true
			return
		}
		n := 0
		for _, e := range p.CallersOf(g) {
			if e.Caller.Func != nil && p.inMod[e.Caller.Func] && p.IsLibrary(e.Caller.Func) && e.Site != nil && e.Site.Common().StaticCallee() == g {
				visit(e.Caller.Func)
				n++
			}
		}
		// functions that take g as a value (method values, callbacks handed to library code)
		for _, r := range p.valueRefs()[g] {
			visit(r)
			n++
		}
		if n == 0 && !(wrapper && g != f) {
			out[g] = true // (a compiler-generated wrapper nobody calls owns nothing)
		}
	}
	visit(f)
	var fs []*ssa.Function
	for g := range out {
		fs = append(fs, g)
	}
	sort.Slice(fs, func(i, j int) bool { return ShortName(fs[i]) < ShortName(fs[j]) })
	return fs
}

// valueRefs maps a function to the library functions that use it as a value (not in call position).
func (p *Program) valueRefs() map[*ssa.Function][]*ssa.Function {
	if p.refs != nil {
		return p.refs
	}
	p.refs = map[*ssa.Function][]*ssa.Function{}
	for f := range p.inMod {
		if !p.IsLibrary(f) {
			continue
		}
		seen := map[*ssa.Function]bool{}
		for _, b := range f.Blocks {
			for _, in := range b.Instrs {
				var callee ssa.Value
				if c, ok := in.(ssa.CallInstruction); ok && !c.Common().IsInvoke() {
					callee = c.Common().Value
				}
				for _, op := range in.Operands(nil) {
					if *op == nil || *op == callee {
						continue
					}
					if g, ok := (*op).(*ssa.Function); ok && !seen[g] && g != f {
						seen[g] = true
						p.refs[g] = append(p.refs[g], f)
					}
				}
			}
		}
	}
	return p.refs
}
