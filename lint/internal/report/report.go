// Package report collects obligations, matches failures against the committed known findings,
// prints VIOLATION / KNOWN-FINDING lines and writes the evidence file.
package report

import (
	"encoding/json"
	"fmt"
	"os"
	"path/filepath"
	"sort"
	"strconv"
	"strings"
	"time"
)

// Obligation is one rule instance decided on the current tree.
type Obligation struct {
	Rule   string `json:"rule"`
	Key    string `json:"key"`
	Where  string `json:"where"`
	Desc   string `json:"requires"`
	OK     bool   `json:"ok"`
	Kind   string `json:"kind,omitempty"` // violation | unresolved-anchor | below-minimum
	Detail string `json:"detail,omitempty"`
}

// RuleStat counts instances per rule.
type RuleStat struct {
	Rule      string `json:"rule"`
	Doc       string `json:"doc"`
	Instances int    `json:"instances"`
	Min       int    `json:"min"`
	Failed    int    `json:"failed"`
}

// Meta is the static description of a property check.
type Meta struct {
	Property    string
	Explanation string
	Assumptions []string
	Trusted     []string
	NotDecided  []string
}

// Check accumulates the obligations of one run.
type Check struct {
	Meta  Meta
	Tier  string
	Obls  []Obligation
	rules map[string]*RuleStat
	order []string
	start time.Time
	Extra map[string]any
	Notes []string
}

// New starts a check.
func New(meta Meta, tier string) *Check {
	return &Check{Meta: meta, Tier: tier, rules: map[string]*RuleStat{}, start: time.Now(), Extra: map[string]any{}}
}

// Rule declares a rule with its documentation and minimum instance count.
func (c *Check) Rule(rule, doc string, min int) {
	if _, ok := c.rules[rule]; !ok {
		c.rules[rule] = &RuleStat{Rule: rule, Doc: doc, Min: min}
		c.order = append(c.order, rule)
	}
}

func (c *Check) stat(rule string) *RuleStat {
	if s, ok := c.rules[rule]; ok {
		return s
	}
	c.Rule(rule, "", 0)
	return c.rules[rule]
}

// Obl records an obligation.
func (c *Check) Obl(rule, key, where, desc string, ok bool, detail string) bool {
	s := c.stat(rule)
	s.Instances++
	o := Obligation{Rule: rule, Key: rule + "|" + key, Where: where, Desc: desc, OK: ok}
	if !ok {
		o.Kind = "violation"
		o.Detail = detail
		s.Failed++
	}
	c.Obls = append(c.Obls, o)
	return ok
}

// Unresolved records an anchor that could not be resolved (always a failure).
func (c *Check) Unresolved(rule, key, where, why string) {
	s := c.stat(rule)
	s.Instances++
	s.Failed++
	c.Obls = append(c.Obls, Obligation{Rule: rule, Key: rule + "|" + key, Where: where, Desc: "anchor must resolve", OK: false, Kind: "unresolved-anchor", Detail: why})
}

// Note adds a free-text note to the evidence.
func (c *Check) Note(format string, a ...any) { c.Notes = append(c.Notes, fmt.Sprintf(format, a...)) }

type knownFile struct {
	Open []struct {
		Property string `json:"property"`
		Key      string `json:"key"`
		What     string `json:"what"`
	} `json:"open"`
	Fixed []string `json:"fixed"`
}

// Finish prints the verdict lines, writes the evidence and replay files and returns the exit code.
func (c *Check) Finish(verifDir, outDir string, stats map[string]any) int {
	// minimum instance counts
	for _, r := range c.order {
		s := c.rules[r]
		if s.Instances < s.Min {
			s.Failed++
			c.Obls = append(c.Obls, Obligation{Rule: r, Key: r + "|instance-count", Where: "-", Desc: fmt.Sprintf("rule must match at least %d instances", s.Min), OK: false, Kind: "below-minimum", Detail: fmt.Sprintf("matched %d", s.Instances)})
		}
	}
	var kf knownFile
	if b, err := os.ReadFile(filepath.Join(verifDir, "known_findings.json")); err == nil {
		if err := json.Unmarshal(b, &kf); err != nil {
			fmt.Printf("error: known_findings.json does not parse: %v\n", err)
			return 2
		}
	}
	open := map[string]string{}
	for _, o := range kf.Open {
		if o.Property == c.Meta.Property {
			open[o.Key] = o.What
		}
	}
	prop := c.Meta.Property
	replayDir := filepath.Join(outDir, "evidence", "replay")
	os.MkdirAll(replayDir, 0o755)
	// remove stale replay files of this property
	if old, _ := filepath.Glob(filepath.Join(replayDir, prop+"-*.json")); old != nil {
		for _, f := range old {
			os.Remove(f)
		}
	}
	discharged, violations := 0, 0
	var known []string
	n := 0
	for _, o := range c.Obls {
		if o.OK {
			discharged++
			continue
		}
		if what, ok := open[o.Key]; ok {
			fmt.Printf("KNOWN-FINDING: property=%s %s [%s at %s]\n", prop, what, o.Key, o.Where)
			known = append(known, o.Key)
			continue
		}
		violations++
		n++
		rp := filepath.Join(replayDir, fmt.Sprintf("%s-%d.json", prop, n))
		rb, _ := json.MarshalIndent(map[string]any{"property": prop, "tier": c.Tier, "obligation": o}, "", " ")
		os.WriteFile(rp, rb, 0o644)
		fmt.Printf("VIOLATION property=%s replay=%s\n", prop, rp)
		fmt.Printf("  rule %s (%s) at %s\n  key: %s\n  requires: %s\n", o.Rule, o.Kind, o.Where, o.Key, o.Desc)
		for _, l := range strings.Split(strings.TrimRight(o.Detail, "\n"), "\n") {
			fmt.Printf("  | %s\n", l)
		}
	}
	// evidence
	var rules []RuleStat
	for _, r := range c.order {
		rules = append(rules, *c.rules[r])
	}
	var samples []any
	step := len(c.Obls)/8 + 1
	for i := 0; i < len(c.Obls); i += step {
		o := c.Obls[i]
		samples = append(samples, map[string]any{"rule": o.Rule, "key": o.Key, "where": o.Where, "requires": o.Desc, "ok": o.OK})
	}
	distinct := map[string]bool{}
	for _, o := range c.Obls {
		distinct[o.Key] = true
	}
	seed := 0
	if s := os.Getenv("VERIF_SEED"); s != "" {
		seed, _ = strconv.Atoi(s)
	}
	cov := map[string]any{
		"explanation":         c.Meta.Explanation,
		"obligations":         len(c.Obls),
		"discharged":          discharged,
		"known_findings":      known,
		"evaluations":         len(c.Obls),
		"distinct_nontrivial": len(distinct),
		"rule":                "one obligation per rule instance (rule + construct key) found in /repo's current source; distinct = distinct keys; all are non-trivial in the sense that each names a concrete construct (function, loop, call site, table entry) that was resolved in the type-checked program",
		"samples":             samples,
		"rules":               rules,
		"checker_cmd":         "./check " + prop + " " + c.Tier,
		"trusted_base":        c.Meta.Trusted,
		"not_decided":         c.Meta.NotDecided,
		"exhaustive":          false,
	}
	for k, v := range stats {
		cov[k] = v
	}
	for k, v := range c.Extra {
		cov[k] = v
	}
	if len(c.Notes) > 0 {
		cov["notes"] = c.Notes
	}
	ev := map[string]any{
		"property_id": prop,
		"tier":        c.Tier,
		"seed":        seed,
		"level":       "other",
		"coverage":    cov,
		"assumptions": c.Meta.Assumptions,
		"wall_s":      time.Since(c.start).Seconds(),
		"violations":  violations,
	}
	eb, _ := json.MarshalIndent(ev, "", " ")
	os.MkdirAll(filepath.Join(outDir, "evidence"), 0o755)
	if err := os.WriteFile(filepath.Join(outDir, "evidence", prop+".json"), eb, 0o644); err != nil {
		fmt.Printf("error: cannot write evidence: %v\n", err)
		return 2
	}
	// summary
	sort.Strings(known)
	fmt.Printf("%s %s: %d obligations, %d discharged, %d known finding(s), %d violation(s)\n", prop, c.Tier, len(c.Obls), discharged, len(known), violations)
	for _, r := range rules {
		fmt.Printf("  %-8s instances=%-3d min=%-3d failed=%-2d %s\n", r.Rule, r.Instances, r.Min, r.Failed, r.Doc)
	}
	if violations > 0 {
		return 1
	}
	return 0
}
