package paths

import (
	"fmt"
	"go/token"
	"go/types"
	"sort"
	"strings"

	"golang.org/x/tools/go/ssa"
)

// MaxPaths is the per-function cap on enumerated paths; exceeding it is an unresolved anchor.
const MaxPaths = 20000

// Loop is a natural loop of a function.
type Loop struct {
	Fn      *ssa.Function
	Index   int
	Header  *ssa.BasicBlock
	Body    map[*ssa.BasicBlock]bool // includes header
	Latches []*ssa.BasicBlock

	// counted-loop recognition (nil IV if not a recognised counted idiom)
	IV     ssa.Value // the SSA value that denotes the current iteration's index inside the body
	IVPhi  *ssa.Phi
	Start  int64
	Bound  ssa.Value // the loop runs while IV < Bound
	CondIf *ssa.If
}

// FuncInfo caches the loop structure of a function.
type FuncInfo struct {
	Fn     *ssa.Function
	Loops  []*Loop
	header map[*ssa.BasicBlock]*Loop
	ivOf   map[ssa.Value]*Loop
	allocN map[*ssa.Alloc]int
}

var infoCache = map[*ssa.Function]*FuncInfo{}

// Info computes (and caches) loop information for fn.
func Info(fn *ssa.Function) *FuncInfo {
	if fi, ok := infoCache[fn]; ok {
		return fi
	}
	fi := &FuncInfo{Fn: fn, header: map[*ssa.BasicBlock]*Loop{}, ivOf: map[ssa.Value]*Loop{}, allocN: map[*ssa.Alloc]int{}}
	infoCache[fn] = fi
	if len(fn.Blocks) == 0 {
		return fi
	}
	// back edges u->h with h dominating u
	for _, u := range fn.Blocks {
		for _, h := range u.Succs {
			if h.Dominates(u) {
				l := fi.header[h]
				if l == nil {
					l = &Loop{Fn: fn, Header: h, Body: map[*ssa.BasicBlock]bool{h: true}}
					fi.header[h] = l
					fi.Loops = append(fi.Loops, l)
				}
				l.Latches = append(l.Latches, u)
				// natural loop body: blocks reaching u without passing h
				stack := []*ssa.BasicBlock{u}
				for len(stack) > 0 {
					b := stack[len(stack)-1]
					stack = stack[:len(stack)-1]
					if l.Body[b] {
						continue
					}
					l.Body[b] = true
					stack = append(stack, b.Preds...)
				}
			}
		}
	}
	sort.Slice(fi.Loops, func(i, j int) bool { return fi.Loops[i].Header.Index < fi.Loops[j].Header.Index })
	for i, l := range fi.Loops {
		l.Index = i
		fi.recogniseCounted(l)
	}
	n := 0
	for _, b := range fn.Blocks {
		for _, in := range b.Instrs {
			if a, ok := in.(*ssa.Alloc); ok {
				fi.allocN[a] = n
				n++
			}
		}
	}
	return fi
}

// phiName names a loop-header phi by loop index and position among the header's phis.
func (fi *FuncInfo) phiName(v *ssa.Phi) string {
	l := fi.header[v.Block()]
	k := 0
	for _, in := range v.Block().Instrs {
		if in == ssa.Instruction(v) {
			break
		}
		if _, ok := in.(*ssa.Phi); ok {
			k++
		}
	}
	return fmt.Sprintf("phi#%d.%d", l.Index, k)
}

// LoopOf returns the loop whose header is b, or nil.
func (fi *FuncInfo) LoopOf(b *ssa.BasicBlock) *Loop { return fi.header[b] }

// InnermostLoop returns the innermost loop containing b (nil if none).
func (fi *FuncInfo) InnermostLoop(b *ssa.BasicBlock) *Loop {
	var best *Loop
	for _, l := range fi.Loops {
		if l.Body[b] && (best == nil || len(l.Body) < len(best.Body)) {
			best = l
		}
	}
	return best
}

func constInt(v ssa.Value) (int64, bool) {
	c, ok := v.(*ssa.Const)
	if !ok || c.Value == nil {
		return 0, false
	}
	if b, ok := c.Type().Underlying().(*types.Basic); !ok || b.Info()&types.IsInteger == 0 {
		return 0, false
	}
	return c.Int64(), true
}

// recogniseCounted recognises `for i := range X` (phi init -1, test phi+1 < bound) and
// `for i := c; i < bound; i++` (phi init c, test phi < bound, single back value phi+1).
func (fi *FuncInfo) recogniseCounted(l *Loop) {
	h := l.Header
	iff, ok := h.Instrs[len(h.Instrs)-1].(*ssa.If)
	if !ok {
		return
	}
	cmp, ok := iff.Cond.(*ssa.BinOp)
	if !ok || cmp.Op != token.LSS {
		return
	}
	// true edge must stay in the loop, false edge must leave it
	if !l.Body[h.Succs[0]] || l.Body[h.Succs[1]] {
		return
	}
	for _, in := range h.Instrs {
		phi, ok := in.(*ssa.Phi)
		if !ok {
			continue
		}
		var init int64
		haveInit := false
		var backs []ssa.Value
		okPhi := true
		for i, e := range phi.Edges {
			if l.Body[h.Preds[i]] {
				backs = append(backs, e)
			} else {
				c, ok := constInt(e)
				if !ok || (haveInit && c != init) {
					okPhi = false
					break
				}
				init, haveInit = c, true
			}
		}
		if !okPhi || !haveInit || len(backs) == 0 {
			continue
		}
		// every back value must be phi+1 (the same instruction)
		step, ok := backs[0].(*ssa.BinOp)
		if !ok || step.Op != token.ADD || step.X != ssa.Value(phi) {
			continue
		}
		if c, ok := constInt(step.Y); !ok || c != 1 {
			continue
		}
		same := true
		for _, b := range backs[1:] {
			if b != backs[0] {
				same = false
			}
		}
		if !same {
			continue
		}
		switch {
		case cmp.X == ssa.Value(step) && step.Block() == h && init == -1:
			// range idiom: index in the body is phi+1
			l.IV, l.IVPhi, l.Start, l.Bound, l.CondIf = step, phi, 0, cmp.Y, iff
		case cmp.X == ssa.Value(phi):
			l.IV, l.IVPhi, l.Start, l.Bound, l.CondIf = phi, phi, init, cmp.Y, iff
		default:
			continue
		}
		fi.ivOf[l.IV] = l
		return
	}
}

// Fact is an atomic branch fact on a path.
type Fact struct {
	Atom    *Term
	Pol     bool
	Block   *ssa.BasicBlock // the block whose If decided it
	Virtual bool            // added from a boolean return value, not a branch
}

func (f Fact) String() string {
	if f.Pol {
		return "TRUE  " + f.Atom.String()
	}
	return "FALSE " + f.Atom.String()
}

// Key is atom rendering with polarity.
func (f Fact) Key() string {
	if f.Pol {
		return "+" + f.Atom.String()
	}
	return "-" + f.Atom.String()
}

// EndKind says how a path ends.
type EndKind int

const (
	EndReturn EndKind = iota
	EndPanic
	EndLatch
	EndOther
)

func (k EndKind) String() string {
	return [...]string{"return", "panic", "latch", "other"}[k]
}

// Path is one acyclic path of a function with its facts.
type Path struct {
	Fn     *ssa.Function
	Blocks []*ssa.BasicBlock // every block visited, including those of inlined helpers, in order of entry
	Facts  []Fact
	End    EndKind
	Latch  *ssa.BasicBlock // target header for EndLatch
	Ret    *ssa.Return
	ctx    *Ctx                   // context of the root function
	ctxs   map[*ssa.Function]*Ctx // context of every function activated on the path (root and inlined helpers)
	steps  []step                 // instruction ranges in execution order
	byInst map[int]*Ctx           // context of every activation, by activation number
	seen   map[*ssa.BasicBlock]bool
	busy   map[string]bool
}

// step is a range of instructions of one block, executed contiguously.
type step struct {
	b        *ssa.BasicBlock
	from, to int
	inst     int  // activation the instructions belong to (0: the root function)
	ctx      *Ctx // that activation's context when the instructions ran
}

// Inlineable tells which statically called functions are spliced into their callers' paths: set by
// the loader to "in-module, unexported, has a body, and not one of the frozen anchor names" — i.e.
// helper functions that did not exist when the rules were confirmed (extracted by a refactoring).
var Inlineable = func(*ssa.Function) bool { return false }

// InlineTarget gives the function whose body is spliced into the caller's paths at this call, or nil when
// the call stays opaque. Inside a generic function a call of another generic function goes through an
// instantiation wrapper: the body spliced is the generic one.
func InlineTarget(call *ssa.Call) *ssa.Function {
	if call.Call.IsInvoke() {
		return nil
	}
	g, ok := call.Call.Value.(*ssa.Function)
	if !ok {
		return nil
	}
	if strings.HasPrefix(g.Synthetic, "instantiation wrapper") && g.Origin() != nil {
		g = g.Origin()
	}
	if len(g.Blocks) == 0 || !(Inlineable(g) || extraInline[g]) {
		return nil
	}
	return g
}

// valueTarget resolves a function-valued term to a function whose body may be spliced at a call through that
// value: a function literal that only reads what it captures, a method value of a helper method, or a helper
// function. For a method value the receiver binding is returned as well.
func valueTarget(ft *Term) (g *ssa.Function, via *Term, recv *Term) {
	for ft != nil && ft.Op == "conv" && len(ft.Args) == 1 {
		ft = ft.Args[0]
	}
	if ft == nil {
		return nil, nil, nil
	}
	switch ft.Op {
	case "func":
		f, _ := ft.Val.(*ssa.Function)
		if f != nil && strings.HasPrefix(f.Synthetic, "thunk") && len(f.Blocks) == 1 {
			// a method expression (T.m): the thunk passes its parameters on to the method, receiver first
			for _, in := range f.Blocks[0].Instrs {
				if c, ok := in.(*ssa.Call); ok {
					if m := c.Call.StaticCallee(); m != nil && len(m.Params) == len(f.Params) {
						f = m
					}
					break
				}
			}
		}
		if f != nil && len(f.Blocks) > 0 && Inlineable(f) {
			return f, ft, nil
		}
		// a function literal that captures nothing is a plain function value
		if f != nil && f.Parent() != nil && len(f.Blocks) > 0 && len(f.FreeVars) == 0 && f.Recover == nil && f.Synthetic == "" && InModule(f) {
			for _, b := range f.Blocks {
				for _, in := range b.Instrs {
					if _, isDefer := in.(*ssa.Defer); isDefer {
						return nil, nil, nil
					}
				}
			}
			return f, ft, nil
		}
	case "closure":
		if m := BoundMethod(ft); m != nil {
			if len(m.Blocks) > 0 && Inlineable(m) && len(ft.Args) == 1 && len(m.Params) > 0 {
				return m, ft, ft.Args[0]
			}
			return nil, nil, nil
		}
		mc, ok := ft.Val.(*ssa.MakeClosure)
		if !ok {
			return nil, nil, nil
		}
		f := mc.Fn.(*ssa.Function)
		if len(f.Blocks) == 0 || f.Recover != nil || f.Synthetic != "" || !InModule(f) {
			return nil, nil, nil
		}
		for k, fv := range f.FreeVars {
			if k < len(mc.Bindings) {
				if _, isCell := mc.Bindings[k].(*ssa.Alloc); isCell && !SpliceWritingClosures && mayWriteThrough(f, fv, 0) {
					return nil, nil, nil
				}
			}
		}
		for _, b := range f.Blocks {
			for _, in := range b.Instrs {
				if _, isDefer := in.(*ssa.Defer); isDefer {
					return nil, nil, nil
				}
			}
		}
		return f, ft, nil
	}
	return nil, nil, nil
}

// creatorPosition finds the activation with number inst among the frames that are still active (it then stands
// at its pending call) or among those that returned (it then stands at its return).
func creatorPosition(fr *frame, b *ssa.BasicBlock, i int, done []*Ctx, uid int) (*Ctx, *ssa.BasicBlock, int) {
	if fr.ctx.uid == uid {
		return fr.ctx, b, i
	}
	for x := fr; x.parent != nil; x = x.parent {
		if x.parent.ctx.uid == uid {
			return x.parent.ctx, x.contBlock, x.contIdx - 1
		}
	}
	// the creator may be an activation outside this enumeration (the closure itself is being enumerated): the
	// root's own outer context
	for x := fr; x != nil; x = x.parent {
		if x.parent == nil && x.ctx.outer != nil && x.ctx.outer.uid == uid {
			return x.ctx.outer, x.ctx.outerB, x.ctx.outerI
		}
	}
	for _, d := range done {
		if d.uid == uid && len(d.seq) > 0 {
			lb := d.seq[len(d.seq)-1]
			return d, lb, len(lb.Instrs) - 1
		}
	}
	return nil, nil, 0
}

// InlineClosures switches the splicing of directly called local closures (see closureTarget).
var InlineClosures = true

// closureTarget gives, for a direct call of a function literal created in fn itself (called in place, or kept
// in a local variable assigned once), the literal's function and the instruction that created it, when the
// literal only reads the variables it captures. Such a closure is a local helper: its body is spliced into
// the paths of fn exactly like a helper function's, so that a rule sees the same facts whether a piece of
// code is written inline, as a local closure, or as a separate function.
func closureTarget(call *ssa.Call, fn *ssa.Function) (*ssa.Function, *ssa.MakeClosure) {
	if !InlineClosures || call.Call.IsInvoke() || Inlineable == nil {
		return nil, nil
	}
	v := call.Call.Value
	if u, ok := v.(*ssa.UnOp); ok && u.Op == token.MUL {
		a, ok := u.X.(*ssa.Alloc)
		if !ok {
			return nil, nil
		}
		var val ssa.Value
		n := 0
		for _, r := range *a.Referrers() {
			switch r := r.(type) {
			case *ssa.Store:
				if r.Addr == ssa.Value(a) {
					val = r.Val
					n++
				} else {
					return nil, nil
				}
			case *ssa.UnOp, *ssa.DebugRef:
			default:
				return nil, nil // the variable escapes
			}
		}
		if n != 1 {
			return nil, nil
		}
		v = val
	}
	mc, ok := v.(*ssa.MakeClosure)
	if !ok || mc.Parent() != fn {
		return nil, nil
	}
	g := mc.Fn.(*ssa.Function)
	if len(g.Blocks) == 0 || g.Recover != nil || g.Synthetic != "" || !InModule(g) {
		return nil, nil
	}
	for k, fv := range g.FreeVars {
		if k < len(mc.Bindings) {
			if _, isCell := mc.Bindings[k].(*ssa.Alloc); isCell && !SpliceWritingClosures && mayWriteThrough(g, fv, 0) {
				return nil, nil
			}
		}
	}
	for _, b := range g.Blocks {
		for _, in := range b.Instrs {
			if _, isDefer := in.(*ssa.Defer); isDefer {
				return nil, nil
			}
		}
	}
	return g, mc
}

// InModule tells whether a function belongs to the analysed module (set by the loader).
var InModule = func(*ssa.Function) bool { return false }

// typeBinding maps the type parameters of a spliced generic body to the type arguments of the call.
func typeBinding(call *ssa.Call, g *ssa.Function, outer map[*types.TypeParam]types.Type) map[*types.TypeParam]types.Type {
	w, ok := call.Call.Value.(*ssa.Function)
	if !ok || w == g || g.TypeParams() == nil || len(w.TypeArgs()) != g.TypeParams().Len() {
		return nil
	}
	m := map[*types.TypeParam]types.Type{}
	for i, ta := range w.TypeArgs() {
		if len(outer) > 0 {
			ta = substType(ta, outer)
		}
		m[g.TypeParams().At(i)] = ta
	}
	return m
}

// MaxInlineDepth bounds the nesting of inlined helpers.
const MaxInlineDepth = 3

// Ctx evaluates values to terms along one path.
type Ctx struct {
	fi       *FuncInfo
	pred     map[*ssa.BasicBlock]*ssa.BasicBlock
	pos      map[*ssa.BasicBlock]int
	seq      []*ssa.BasicBlock
	memo     map[ssa.Value]*Term
	stack    []*ssa.Phi // loop phis being expanded
	detached bool
	bind     map[ssa.Value]*Term             // parameters / free variables of an inlined helper, bound to the caller's terms
	tag      string                          // name prefix for loop-carried values and cells of an inlined helper
	inst     int                             // activation number on the path (0: the root function)
	tsub     map[*types.TypeParam]types.Type // type parameters of an inlined generic helper, bound to the caller's type arguments
	// for a spliced closure: the activation that created and called it, and the call position there, so that
	// reads of captured variables see the value the variable holds at the call
	outer   *Ctx
	outerB  *ssa.BasicBlock
	outerI  int
	fvCells map[*ssa.FreeVar]*ssa.Alloc
	uid     int // unique per activation, across enumerations
	// the instructions executed so far on the path under construction, over all activations, in order (the
	// part of the current block that is not logged yet is [curFrom, ...) of curB)
	log     []step
	curB    *ssa.BasicBlock
	curFrom int
}

var ctxCounter int

func newCtx(fi *FuncInfo) *Ctx {
	ctxCounter++
	return &Ctx{fi: fi, pred: map[*ssa.BasicBlock]*ssa.BasicBlock{}, pos: map[*ssa.BasicBlock]int{}, memo: map[ssa.Value]*Term{}, uid: ctxCounter}
}

func (c *Ctx) clone() *Ctx {
	n := newCtx(c.fi)
	for k, v := range c.pred {
		n.pred[k] = v
	}
	for k, v := range c.pos {
		n.pos[k] = v
	}
	n.seq = append([]*ssa.BasicBlock(nil), c.seq...)
	for k, v := range c.memo {
		n.memo[k] = v
	}
	n.bind, n.tag, n.inst, n.tsub = c.bind, c.tag, c.inst, c.tsub
	n.outer, n.outerB, n.outerI, n.fvCells = c.outer, c.outerB, c.outerI, c.fvCells
	n.uid = c.uid
	n.log, n.curB, n.curFrom = c.log, c.curB, c.curFrom
	return n
}

// Term evaluates v on this path (in the activation of the function v belongs to).
func (p *Path) Term(v ssa.Value) *Term { return p.ctxFor(v).term(v) }

func valueFunc(v ssa.Value) *ssa.Function {
	switch x := v.(type) {
	case *ssa.Parameter:
		return x.Parent()
	case *ssa.FreeVar:
		return x.Parent()
	case ssa.Instruction:
		return x.Parent()
	}
	return nil
}

func (p *Path) ctxFor(v ssa.Value) *Ctx {
	if fn := valueFunc(v); fn != nil && p.ctxs != nil {
		if c, ok := p.ctxs[fn]; ok {
			return c
		}
	}
	return p.ctx
}

// DetachedTerm evaluates v without any path information (phis become unions).
func DetachedTerm(fn *ssa.Function, v ssa.Value) *Term {
	c := newCtx(Info(fn))
	c.detached = true
	return c.term(v)
}

func paramName(fn *ssa.Function, p *ssa.Parameter) string {
	idx := -1
	for i, q := range fn.Params {
		if q == p {
			idx = i
		}
	}
	if fn.Signature.Recv() != nil {
		if idx == 0 {
			return "recv"
		}
		return fmt.Sprintf("arg%d", idx-1)
	}
	return fmt.Sprintf("arg%d", idx)
}

func (c *Ctx) term(v ssa.Value) *Term {
	if v == nil {
		return nil
	}
	if t, ok := c.memo[v]; ok {
		return t
	}
	t := c.term1(v)
	t = simplify(t)
	if len(c.stack) == 0 { // terms containing "self" references are not memoised out of their binder
		c.memo[v] = t
	}
	return t
}

func typeName(t types.Type) string { return Short(t.String()) }

// typeName renders a type; inside an inlined generic helper its type parameters are written as the
// caller's type arguments, so that the helper's terms read like the code they were extracted from.
func (c *Ctx) typeName(t types.Type) string {
	if len(c.tsub) > 0 {
		t = substType(t, c.tsub)
	}
	return Short(t.String())
}

func substType(t types.Type, m map[*types.TypeParam]types.Type) types.Type {
	switch x := t.(type) {
	case *types.TypeParam:
		if r, ok := m[x]; ok {
			return r
		}
	case *types.Pointer:
		return types.NewPointer(substType(x.Elem(), m))
	case *types.Slice:
		return types.NewSlice(substType(x.Elem(), m))
	case *types.Array:
		return types.NewArray(substType(x.Elem(), m), x.Len())
	case *types.Map:
		return types.NewMap(substType(x.Key(), m), substType(x.Elem(), m))
	case *types.Chan:
		return types.NewChan(x.Dir(), substType(x.Elem(), m))
	case *types.Named:
		if ta := x.TypeArgs(); ta != nil && ta.Len() > 0 {
			args := make([]types.Type, ta.Len())
			changed := false
			for i := range args {
				args[i] = substType(ta.At(i), m)
				changed = changed || args[i] != ta.At(i)
			}
			if changed {
				if inst, err := types.Instantiate(nil, x.Origin(), args, false); err == nil {
					return inst
				}
			}
		}
	}
	return t
}

func (c *Ctx) term1(v ssa.Value) *Term {
	fn := c.fi.Fn
	if l, ok := c.fi.ivOf[v]; ok {
		return mk("iv", fmt.Sprintf("iv#%s%d", c.tag, l.Index), v)
	}
	if c.bind != nil {
		if t, ok := c.bind[v]; ok {
			return t
		}
	}
	switch v := v.(type) {
	case *ssa.Parameter:
		return mk("param", paramName(fn, v), v)
	case *ssa.FreeVar:
		for i, fv := range fn.FreeVars {
			if fv == v {
				return mk("freevar", fmt.Sprintf("fv%d", i), v)
			}
		}
		return mk("freevar", "fv?", v)
	case *ssa.Const:
		return constTerm(v)
	case *ssa.Global:
		return mk("global", Short(v.Pkg.Pkg.Path())+"."+v.Name(), v)
	case *ssa.Function:
		return mk("func", FuncName(v), v)
	case *ssa.Builtin:
		return mk("func", "builtin."+v.Name(), v)
	case *ssa.Alloc:
		return mk("alloc", fmt.Sprintf("%s#%d", c.tag, c.fi.allocN[v]), v)
	case *ssa.FieldAddr:
		st := v.X.Type().Underlying().(*types.Pointer).Elem().Underlying().(*types.Struct)
		return mk("fieldaddr", FieldName(st.Field(v.Field)), v, c.term(v.X))
	case *ssa.Field:
		st := v.X.Type().Underlying().(*types.Struct)
		return simplify(mk("field", FieldName(st.Field(v.Field)), v, c.term(v.X)))
	case *ssa.IndexAddr:
		return mk("elemaddr", "", v, c.term(v.X), c.term(v.Index))
	case *ssa.Index:
		return mk("elem", "", v, c.term(v.X), c.term(v.Index))
	case *ssa.Lookup:
		return mk("lookup", "", v, c.term(v.X), c.term(v.Index))
	case *ssa.UnOp:
		switch v.Op {
		case token.MUL:
			return c.loadTerm(v)
		case token.NOT:
			return mk("not", "", v, c.term(v.X))
		default:
			return mk("unop", v.Op.String(), v, c.term(v.X))
		}
	case *ssa.BinOp:
		x, y := c.term(v.X), c.term(v.Y)
		switch v.Op {
		case token.EQL:
			return mk("eq", "", v, x, y)
		case token.NEQ:
			return mk("not", "", v, simplify(mk("eq", "", v, x, y)))
		case token.LSS:
			return mk("lt", "", v, x, y)
		case token.GTR:
			return mk("lt", "", v, y, x)
		case token.LEQ:
			return mk("not", "", v, mk("lt", "", v, y, x))
		case token.GEQ:
			return mk("not", "", v, mk("lt", "", v, x, y))
		}
		return mk(binopName(v.Op), "", v, x, y)
	case *ssa.Call:
		return c.callTerm(v)
	case *ssa.Extract:
		if tt := c.term(v.Tuple); tt.Op == "tuple" && v.Index < len(tt.Args) {
			return tt.Args[v.Index]
		}
		return mk("extract", fmt.Sprintf("#%d", v.Index), v, c.term(v.Tuple))
	case *ssa.Convert:
		return mk("conv", c.typeName(v.Type()), v, c.term(v.X))
	case *ssa.ChangeType:
		return mk("conv", c.typeName(v.Type()), v, c.term(v.X))
	case *ssa.MultiConvert:
		return mk("conv", c.typeName(v.Type()), v, c.term(v.X))
	case *ssa.ChangeInterface:
		return c.term(v.X)
	case *ssa.MakeInterface:
		return c.term(v.X)
	case *ssa.SliceToArrayPointer:
		return mk("conv", c.typeName(v.Type()), v, c.term(v.X))
	case *ssa.TypeAssert:
		return mk("typeassert", c.typeName(v.AssertedType), v, c.term(v.X))
	case *ssa.Slice:
		if a, ok := v.X.(*ssa.Alloc); ok && (a.Comment == "varargs" || a.Comment == "slicelit" && v.Low == nil && v.High == nil) && !c.detached {
			if vt := c.varargs(v, a); vt != nil {
				return vt
			}
		}
		return mk("slice", "", v, c.term(v.X), c.term(v.Low), c.term(v.High), c.term(v.Max))
	case *ssa.MakeSlice:
		return mk("make", c.typeName(v.Type()), v, c.term(v.Len), c.term(v.Cap))
	case *ssa.MakeMap:
		return mk("make", c.typeName(v.Type()), v, c.term(v.Reserve))
	case *ssa.MakeChan:
		return mk("make", c.typeName(v.Type()), v, c.term(v.Size))
	case *ssa.MakeClosure:
		args := make([]*Term, len(v.Bindings))
		for i, b := range v.Bindings {
			args[i] = c.term(b)
		}
		ct := mk("closure", FuncName(v.Fn.(*ssa.Function)), v, args...)
		ct.Env = c
		return ct
	case *ssa.Range:
		return mk("range", "", v, c.term(v.X))
	case *ssa.Next:
		return mk("next", "", v, c.term(v.Iter))
	case *ssa.Phi:
		return c.phiTerm(v)
	}
	return mk("unknown", fmt.Sprintf("%T", v), v)
}

func (c *Ctx) callTerm(v *ssa.Call) *Term {
	cc := v.Common()
	var args []*Term
	if cc.IsInvoke() {
		args = append(args, c.term(cc.Value))
		for _, a := range cc.Args {
			args = append(args, c.term(a))
		}
		recvT := cc.Value.Type()
		return mk("invoke", c.typeName(recvT)+"."+cc.Method.Name(), v, args...)
	}
	for _, a := range cc.Args {
		args = append(args, c.term(a))
	}
	switch f := cc.Value.(type) {
	case *ssa.Function:
		return mk("call", FuncName(f), v, args...)
	case *ssa.Builtin:
		if f.Name() == "len" && len(args) == 1 {
			return mk("len", "", v, args[0])
		}
		return mk("call", "builtin."+f.Name(), v, args...)
	case *ssa.MakeClosure:
		// direct call of a closure literal: bindings become leading pseudo-args
		fn := f.Fn.(*ssa.Function)
		t := mk("call", FuncName(fn), v, args...)
		for _, b := range f.Bindings {
			t.Bind = append(t.Bind, c.term(b))
		}
		return t
	}
	ft := c.term(cc.Value)
	if ft.Op == "closure" {
		// a method value (x.M bound to its receiver) called later is the call x.M(args)
		if m := BoundMethod(ft); m != nil && len(ft.Args) == 1 {
			return mk("call", FuncName(m), v, append([]*Term{ft.Args[0]}, args...)...)
		}
		t := mk("call", ft.Name, v, args...)
		t.Bind = ft.Args
		return t
	}
	if ft.Op == "func" {
		if f, ok := ft.Val.(*ssa.Function); ok {
			return mk("call", FuncName(f), v, args...)
		}
	}
	return mk("dyncall", "", v, append([]*Term{ft}, args...)...)
}

// BoundMethod returns, for the term of a method value (closure over go/ssa's bound method wrapper), the
// declared method it stands for; nil for other terms and for interface method values.
func BoundMethod(t *Term) *ssa.Function {
	if t == nil || t.Op != "closure" {
		return nil
	}
	mc, ok := t.Val.(*ssa.MakeClosure)
	if !ok {
		return nil
	}
	w, ok := mc.Fn.(*ssa.Function)
	if !ok || !strings.HasPrefix(w.Synthetic, "bound method wrapper") {
		return nil
	}
	obj, ok := w.Object().(*types.Func)
	if !ok {
		return nil
	}
	return w.Prog.FuncValue(obj)
}

// FuncOfTerm resolves a function-valued term (function, closure, method value) to the function that runs
// when it is called, and the terms its free variables (closure) or receiver (method value: key "recv") are
// bound to, in the vocabulary of the term's own path.
func FuncOfTerm(t *Term) (*ssa.Function, map[string]*Term) {
	for t != nil && t.Op == "conv" && len(t.Args) == 1 {
		t = t.Args[0] // conversion of a func value to a named func type
	}
	if t == nil {
		return nil, nil
	}
	switch t.Op {
	case "func":
		f, _ := t.Val.(*ssa.Function)
		return f, map[string]*Term{}
	case "closure":
		if m := BoundMethod(t); m != nil {
			b := map[string]*Term{}
			if len(t.Args) == 1 {
				b["recv"] = t.Args[0]
			}
			return m, b
		}
		mc, ok := t.Val.(*ssa.MakeClosure)
		if !ok {
			return nil, nil
		}
		f, _ := mc.Fn.(*ssa.Function)
		b := map[string]*Term{}
		for i, a := range t.Args {
			b[fmt.Sprintf("fv%d", i)] = a
		}
		return f, b
	}
	return nil, nil
}

// StaticCallee resolves the callee of a call through closures bound to locals.
func StaticCallee(call ssa.CallInstruction) *ssa.Function {
	cc := call.Common()
	if cc.IsInvoke() {
		return nil
	}
	v := cc.Value
	for i := 0; i < 8; i++ {
		switch f := v.(type) {
		case *ssa.Function:
			return f
		case *ssa.MakeClosure:
			return f.Fn.(*ssa.Function)
		case *ssa.UnOp:
			// closure kept in a local cell with a single store
			a, ok := f.X.(*ssa.Alloc)
			if !ok || f.Op != token.MUL {
				return nil
			}
			var val ssa.Value
			n := 0
			for _, r := range *a.Referrers() {
				if st, ok := r.(*ssa.Store); ok && st.Addr == ssa.Value(a) {
					val = st.Val
					n++
				}
			}
			if n != 1 {
				return nil
			}
			v = val
		default:
			return nil
		}
	}
	return nil
}

func (c *Ctx) phiTerm(v *ssa.Phi) *Term {
	b := v.Block()
	if l := c.fi.header[b]; l != nil {
		for i, s := range c.stack {
			if s == v {
				return mk("self", fmt.Sprintf("$%d", len(c.stack)-1-i), v)
			}
		}
		var inits, backs []*Term
		c.stack = append(c.stack, v)
		saved := c.detached
		for i, e := range v.Edges {
			if l.Body[b.Preds[i]] {
				c.detached = true
				backs = append(backs, c.term(e))
				c.detached = saved
			} else {
				// entry operands are defined before the loop: evaluate on the path
				c.stack = c.stack[:len(c.stack)-1]
				inits = append(inits, c.term(e))
				c.stack = append(c.stack, v)
			}
		}
		c.stack = c.stack[:len(c.stack)-1]
		var it, bt *Term
		if len(inits) > 0 {
			it = unionOf(inits)
		}
		if len(backs) > 0 {
			bt = unionOf(backs)
		}
		return mk("loopphi", strings.Replace(c.fi.phiName(v), "phi#", "phi#"+c.tag, 1), v, it, bt)
	}
	if !c.detached {
		if p, ok := c.pred[b]; ok {
			for i, q := range b.Preds {
				if q == p {
					return c.term(v.Edges[i])
				}
			}
		}
	}
	var ops []*Term
	for _, e := range v.Edges {
		ops = append(ops, c.term(e))
	}
	return unionOf(ops)
}

// loadTerm evaluates *addr with store-forwarding along the path for local allocs.
func (c *Ctx) loadTerm(v *ssa.UnOp) *Term {
	if fv, ok := v.X.(*ssa.FreeVar); ok && c.outer != nil && !c.detached {
		if cell := c.fvCells[fv]; cell != nil {
			if st := c.outer.lastStoreAt(c.outerB, c.outerI, c.outer.term(cell).String(), cell); st != nil {
				return c.outer.term(st.Val)
			}
		}
	}
	if a, ok := v.X.(*ssa.Alloc); ok && !c.detached {
		if stt, isStruct := a.Type().Underlying().(*types.Pointer).Elem().Underlying().(*types.Struct); isStruct && stt.NumFields() > 0 {
			lb := v.Block()
			end := len(lb.Instrs)
			for k, in := range lb.Instrs {
				if in == ssa.Instruction(v) {
					end = k
					break
				}
			}
			if st := c.structValueAt(lb, end, a, v); st != nil {
				return st
			}
		}
	}
	// a parameter spilled into a cell because a function literal captures it: when the cell is written once, at
	// the function's entry, and no literal that captures it writes it, every load is the parameter
	if a, ok := v.X.(*ssa.Alloc); ok {
		if pv := spilledParam(a); pv != nil {
			return c.term(pv)
		}
	}
	addr := c.term(v.X)
	if root := allocRoot(v.X); root != nil && !c.detached {
		if st := c.lastStore(v, addr.String(), root); st != nil {
			return c.term(st.Val)
		}
		// field of a struct cell whose whole value was stored
		if fa, ok := v.X.(*ssa.FieldAddr); ok {
			if _, isAlloc := fa.X.(*ssa.Alloc); isAlloc {
				if st := c.lastStore(v, c.term(fa.X).String(), root); st != nil {
					stt := fa.X.Type().Underlying().(*types.Pointer).Elem().Underlying().(*types.Struct)
					return mk("field", FieldName(stt.Field(fa.Field)), v, c.term(st.Val))
				}
			}
		}
	}
	// a cell of another activation reached through a pointer parameter or a captured variable (or a cell of this
	// activation that a spliced helper may have written): the store is looked for on the whole path
	if !c.detached && CrossActivationMemory {
		if cell := baseAlloc(addr); cell != nil {
			lb := v.Block()
			end := len(lb.Instrs)
			for k, in := range lb.Instrs {
				if in == ssa.Instruction(v) {
					end = k
					break
				}
			}
			if val := c.logStoreBefore(lb, end, addr.String(), cell); val != nil && val != freshCell {
				return val
			} else if val == freshCell && addr.Op != "fieldaddr" {
				return zeroTerm(v.Type(), v)
			}
			if addr.Op == "fieldaddr" {
				whole := c.logStoreBefore(lb, end, addr.Args[0].String(), cell)
				if whole == freshCell {
					return zeroTerm(v.Type(), v)
				}
				if whole != nil {
					return simplify(mk("field", addr.Name, v, whole))
				}
			}
		}
	}
	return mk("load", "", v, addr)
}

var spilledCache = map[*ssa.Alloc]ssa.Value{}

// SpilledParam is spilledParam for the rules.
func SpilledParam(a *ssa.Alloc) ssa.Value { return spilledParam(a) }

// spilledParam returns the parameter whose value the cell a holds for the whole life of the activation, or nil.
func spilledParam(a *ssa.Alloc) ssa.Value {
	if v, ok := spilledCache[a]; ok {
		return v
	}
	spilledCache[a] = nil
	fn := a.Parent()
	if fn == nil || len(fn.Blocks) == 0 || a.Block() != fn.Blocks[0] {
		return nil
	}
	var val ssa.Value
	for _, r := range *a.Referrers() {
		switch t := r.(type) {
		case *ssa.Store:
			if t.Addr != ssa.Value(a) || val != nil || t.Block() != fn.Blocks[0] {
				return nil
			}
			p, isParam := t.Val.(*ssa.Parameter)
			if !isParam {
				return nil
			}
			val = p
		case *ssa.UnOp:
		case *ssa.DebugRef:
		case *ssa.MakeClosure:
			cf, _ := t.Fn.(*ssa.Function)
			if cf == nil {
				return nil
			}
			for i, b := range t.Bindings {
				if b == ssa.Value(a) && (i >= len(cf.FreeVars) || mayWriteThrough(cf, cf.FreeVars[i], 0)) {
					return nil
				}
			}
		default:
			return nil
		}
	}
	if val != nil {
		spilledCache[a] = val
	}
	return val
}

// SpliceWritingClosures also splices function literals that write the variables they capture (their stores are on
// the path and found by the cross-activation store forwarding).
var SpliceWritingClosures = true

// CrossActivationMemory switches store forwarding across activations (see logStoreBefore).
var CrossActivationMemory = true

// baseAlloc returns the alloc term an address term is based on (through field / element addresses).
func baseAlloc(addr *Term) *Term {
	for addr != nil {
		switch addr.Op {
		case "alloc":
			if _, ok := addr.Val.(*ssa.Alloc); ok {
				return addr
			}
			return nil
		case "fieldaddr", "elemaddr":
			addr = addr.Args[0]
		default:
			return nil
		}
	}
	return nil
}

// freshCell is what logStoreBefore answers when, walking back, it meets the allocation of the variable before
// any store to the address: the variable still holds its zero value.
var freshCell = &Term{Op: "const", Name: "zero"}

// logStoreBefore looks, on the whole path (all activations, in execution order) backwards from the program point
// before instruction end0 of block lb of this activation, for the latest store to the address rendered addr, whose
// base is the local cell cell (of any activation). It gives up (nil) when something in between may have written
// the cell without the write being on the path: a call that is not spliced and receives the cell (or a closure
// over it that can write), deferred calls that do, or a loop that is entered from outside on the way back and
// whose body may write the cell in an earlier iteration.
func (c *Ctx) logStoreBefore(lb *ssa.BasicBlock, end0 int, addr string, cell *Term) *Term {
	root, _ := cell.Val.(*ssa.Alloc)
	if root == nil {
		return nil
	}
	cellKey := cell.String()
	// locate the starting point
	k := -1
	for i := len(c.log) - 1; i >= 0; i-- {
		s := c.log[i]
		if s.ctx != nil && s.ctx.uid == c.uid && s.b == lb && s.from <= end0 && end0 <= s.to {
			k = i
			break
		}
	}
	type ent struct {
		ca *Ctx
		b  *ssa.BasicBlock
		in ssa.Instruction
	}
	lastBlock := map[int]*ssa.BasicBlock{}
	visit := func(e ent) (*Term, bool) { // (value, stop)
		if prev := lastBlock[e.ca.uid]; prev != nil && prev != e.b {
			if l := e.ca.fi.header[prev]; l != nil && !l.Body[e.b] && loopMayStore(e.ca, l, cellKey, root) {
				return nil, true
			}
		}
		lastBlock[e.ca.uid] = e.b
		switch in := e.in.(type) {
		case *ssa.Store:
			at := e.ca.term(in.Addr)
			if at.String() == addr {
				return e.ca.term(in.Val), true
			}
			// a store to an enclosing or enclosed part of the same cell that is not the address looked for
			if b := baseAlloc(at); b != nil && b.String() == cellKey && (strings.HasPrefix(addr, at.String()) || strings.HasPrefix(at.String(), addr)) && at.String() != addr {
				if len(at.String()) < len(addr) {
					return nil, false // the whole (or an outer part) was stored: the caller asks for it separately
				}
			}
		case *ssa.Alloc:
			// the variable itself comes into being here: nothing was stored yet, it holds its zero value
			if in == root && e.ca.term(root).String() == cellKey {
				return freshCell, true
			}
		case *ssa.Defer:
			// runs at RunDefers
		case ssa.CallInstruction:
			if callTakesKey(e.ca, in, cellKey, root) {
				return nil, true
			}
		case *ssa.RunDefers:
			if fn := e.b.Parent(); fn == root.Parent() && deferTakes(fn, root) {
				return nil, true
			}
		}
		return nil, false
	}
	if k < 0 {
		if c.curB != lb {
			return nil
		}
		for i := end0 - 1; i >= c.curFrom && i >= 0; i-- {
			if v, stop := visit(ent{c, lb, lb.Instrs[i]}); stop {
				return v
			}
		}
		k = len(c.log)
	} else {
		s := c.log[k]
		for i := end0 - 1; i >= s.from; i-- {
			if v, stop := visit(ent{s.ctx, s.b, s.b.Instrs[i]}); stop {
				return v
			}
		}
	}
	for j := k - 1; j >= 0; j-- {
		s := c.log[j]
		if s.ctx == nil {
			return nil
		}
		for i := s.to - 1; i >= s.from; i-- {
			if v, stop := visit(ent{s.ctx, s.b, s.b.Instrs[i]}); stop {
				return v
			}
		}
	}
	return nil
}

// callTakesKey tells whether a call (not spliced into the path) receives the cell: as an argument, inside an
// argument's term, or captured by a function literal that can write it.
func callTakesKey(ca *Ctx, call ssa.CallInstruction, cellKey string, root *ssa.Alloc) bool {
	if callTakes(call, root) {
		return true
	}
	cc := call.Common()
	vals := append([]ssa.Value(nil), cc.Args...)
	if !cc.IsInvoke() {
		vals = append(vals, cc.Value)
	}
	for _, a := range vals {
		if _, isFn := a.(*ssa.Function); isFn {
			continue
		}
		if _, isB := a.(*ssa.Builtin); isB {
			continue
		}
		t := ca.term(a)
		if t == nil {
			continue
		}
		hit := false
		t.Walk(func(x *Term) {
			if x.Op == "alloc" && x.String() == cellKey {
				hit = true
			}
			// a closure that captured the cell and can write it
			if x.Op == "closure" {
				if mc, ok := x.Val.(*ssa.MakeClosure); ok {
					g := mc.Fn.(*ssa.Function)
					for i, bt := range x.Args {
						if bt != nil && bt.Op == "alloc" && bt.String() == cellKey && (i >= len(g.FreeVars) || mayWriteThrough(g, g.FreeVars[i], 0)) {
							hit = true
						}
					}
				}
			}
		})
		if hit {
			// a plain load of the cell's value passed by value does not give access to the cell: only addresses do
			if t.Op == "alloc" || t.Op == "fieldaddr" || t.Op == "elemaddr" || t.Op == "closure" || t.Op == "slice" {
				return true
			}
		}
	}
	return false
}

// loopMayStore tells whether the body of loop l (of the function of activation ca) may write the cell: a store
// whose address is based on it, or a call that is handed it.
func loopMayStore(ca *Ctx, l *Loop, cellKey string, root *ssa.Alloc) bool {
	if l.Fn == root.Parent() && loopStoresTo(l, root) {
		return true
	}
	d := *ca
	d.detached = true
	d.memo = map[ssa.Value]*Term{}
	d.stack = nil
	for b := range l.Body {
		for _, in := range b.Instrs {
			switch in := in.(type) {
			case *ssa.Store:
				if allocRoot(in.Addr) != nil {
					continue // a local of this function (handled above when it is the cell)
				}
				if bt := baseOfAddrTerm(d.term(in.Addr)); bt != nil && bt.String() == cellKey {
					return true
				}
			case ssa.CallInstruction:
				if callTakesKey(&d, in, cellKey, root) {
					return true
				}
			}
		}
	}
	return false
}

// baseOfAddrTerm is baseAlloc for possibly non-alloc bases (returns the base term).
func baseOfAddrTerm(t *Term) *Term {
	for t != nil && (t.Op == "fieldaddr" || t.Op == "elemaddr") {
		t = t.Args[0]
	}
	return t
}

// structValueAt assembles the value a local struct cell holds before instruction end of block lb: per field the
// latest store into that field, or the field of the latest value stored into the whole cell, or the zero value
// when the cell was not written since its allocation. nil when nothing is known (a loop or a call may have
// written the cell).
func (c *Ctx) structValueAt(lb *ssa.BasicBlock, end0 int, a *ssa.Alloc, at ssa.Value) *Term {
	stt := a.Type().Underlying().(*types.Pointer).Elem().Underlying().(*types.Struct)
	bi, ok := c.pos[lb]
	if !ok {
		return nil
	}
	n := stt.NumFields()
	vals := make([]*Term, n)
	left := n
	var whole *Term
	opaque := false
	sawAlloc := false
scan:
	for i := bi; i >= 0 && left > 0; i-- {
		b := c.seq[i]
		if i < bi {
			nb := c.seq[i+1]
			if l := c.fi.header[nb]; l != nil && !l.Body[b] && loopStoresTo(l, a) {
				opaque = true
				break
			}
		}
		instrs := b.Instrs
		end := len(instrs)
		if i == bi {
			end = end0
		}
		for k := end - 1; k >= 0; k-- {
			switch in := instrs[k].(type) {
			case *ssa.Alloc:
				if in == a {
					sawAlloc = true
					break scan
				}
			case *ssa.Store:
				if in.Addr == ssa.Value(a) {
					whole = c.term(in.Val)
					break scan
				}
				if fa, ok := in.Addr.(*ssa.FieldAddr); ok && fa.X == ssa.Value(a) && vals[fa.Field] == nil {
					vals[fa.Field] = c.term(in.Val)
					left--
				} else if allocRoot(in.Addr) == a && !ok {
					opaque = true // an element / nested field is written: not modelled
					break scan
				}
			case ssa.CallInstruction:
				if callTakes(in, a) {
					if _, isDefer := in.(*ssa.Defer); !isDefer {
						opaque = true
						break scan
					}
				}
			case *ssa.RunDefers:
				if deferTakes(lb.Parent(), a) {
					opaque = true
					break scan
				}
			}
		}
	}
	if left == n && whole == nil {
		return nil // nothing known: leave the plain load
	}
	if left == n && whole != nil {
		return whole // a plain copy
	}
	names := make([]string, n)
	for i := 0; i < n; i++ {
		names[i] = FieldName(stt.Field(i))
		if vals[i] != nil {
			continue
		}
		switch {
		case whole != nil:
			vals[i] = simplify(&Term{Op: "field", Name: names[i], Args: []*Term{whole}, Val: at})
		case opaque || !sawAlloc && i >= 0 && false:
			vals[i] = &Term{Op: "field", Name: names[i], Args: []*Term{mk("load", "", at, c.term(a))}, Val: at}
		default:
			vals[i] = zeroTerm(stt.Field(i).Type(), at)
		}
	}
	return &Term{Op: "struct", Name: typeName(a.Type().Underlying().(*types.Pointer).Elem()), Args: vals, Names: names, Val: at}
}

// zeroTerm is the term of the zero value of a type.
func zeroTerm(t types.Type, v ssa.Value) *Term {
	switch u := t.Underlying().(type) {
	case *types.Basic:
		switch {
		case u.Info()&types.IsBoolean != 0:
			return mk("const", "false", v)
		case u.Info()&types.IsString != 0:
			return mk("const", `""`, v)
		case u.Info()&types.IsNumeric != 0:
			return mk("const", "0", v)
		}
	}
	if isNilable(t) {
		return mk("const", "nil", v)
	}
	return mk("const", "zero:"+Short(t.String()), v)
}

// varargs renders the implicit slice of a variadic call as the list of its stored elements.
func (c *Ctx) varargs(sl *ssa.Slice, a *ssa.Alloc) *Term {
	arr, ok := a.Type().Underlying().(*types.Pointer).Elem().Underlying().(*types.Array)
	if !ok || arr.Len() > 16 {
		return nil
	}
	elems := make([]*Term, arr.Len())
	for _, ref := range *a.Referrers() {
		ia, ok := ref.(*ssa.IndexAddr)
		if !ok {
			continue
		}
		idx, ok := constInt(ia.Index)
		if !ok || idx < 0 || idx >= arr.Len() {
			return nil
		}
		for _, r2 := range *ia.Referrers() {
			if st, ok := r2.(*ssa.Store); ok && st.Addr == ssa.Value(ia) {
				if _, on := c.pos[st.Block()]; on {
					elems[idx] = c.term(st.Val)
				}
			}
		}
	}
	for _, e := range elems {
		if e == nil {
			return nil
		}
	}
	return mk("varargs", "", sl, elems...)
}

// loopStoresTo tells whether some store in the loop body writes (a part of) the cell.
func loopStoresTo(l *Loop, root *ssa.Alloc) bool {
	for b := range l.Body {
		for _, in := range b.Instrs {
			if st, ok := in.(*ssa.Store); ok && allocRoot(st.Addr) == root {
				return true
			}
			if call, ok := in.(ssa.CallInstruction); ok && callTakes(call, root) {
				return true
			}
		}
	}
	return false
}

// deferTakes tells whether some deferred call of fn receives the cell.
func deferTakes(fn *ssa.Function, root *ssa.Alloc) bool {
	for _, b := range fn.Blocks {
		for _, in := range b.Instrs {
			if d, ok := in.(*ssa.Defer); ok && callTakes(d, root) {
				return true
			}
		}
	}
	return false
}

// callTakes tells whether the call receives the cell (or an address inside it) as receiver,
// argument or closure binding.
func callTakes(call ssa.CallInstruction, root *ssa.Alloc) bool {
	cc := call.Common()
	for _, a := range cc.Args {
		if allocRoot(a) == root {
			return true
		}
	}
	if !cc.IsInvoke() {
		if mc, ok := cc.Value.(*ssa.MakeClosure); ok {
			g := mc.Fn.(*ssa.Function)
			for i, b := range mc.Bindings {
				if allocRoot(b) == root && (i >= len(g.FreeVars) || mayWriteThrough(g, g.FreeVars[i], 0)) {
					return true
				}
			}
		}
	}
	return false
}

func allocRoot(v ssa.Value) *ssa.Alloc {
	for {
		switch x := v.(type) {
		case *ssa.Alloc:
			return x
		case *ssa.FieldAddr:
			v = x.X
		case *ssa.IndexAddr:
			v = x.X
		default:
			return nil
		}
	}
}

// lastStore finds, walking the path backwards from the load, the latest store to an address
// with the same rendering. Calls in between are assumed not to write the cell unless the
// alloc escapes into a closure that is called (conservatively: give up on any intervening
// call that receives the alloc or a closure capturing it).
func (c *Ctx) lastStore(load *ssa.UnOp, addr string, root *ssa.Alloc) *ssa.Store {
	lb := load.Block()
	end := len(lb.Instrs)
	for k, in := range lb.Instrs {
		if in == ssa.Instruction(load) {
			end = k
			break
		}
	}
	return c.lastStoreAt(lb, end, addr, root)
}

// lastStoreAt is lastStore for the program point before instruction end of block lb.
func (c *Ctx) lastStoreAt(lb *ssa.BasicBlock, end0 int, addr string, root *ssa.Alloc) *ssa.Store {
	bi, ok := c.pos[lb]
	if !ok {
		return nil
	}
	for i := bi; i >= 0; i-- {
		b := c.seq[i]
		// leaving (backwards) a loop that contains the load: a store of a previous iteration may
		// be the latest one, unless no store in the loop body writes this cell.
		if i < bi {
			nb := c.seq[i+1]
			if l := c.fi.header[nb]; l != nil && !l.Body[b] && loopStoresTo(l, root) {
				return nil
			}
		}
		instrs := b.Instrs
		end := len(instrs)
		if i == bi {
			end = end0
		}
		for k := end - 1; k >= 0; k-- {
			if st, ok := instrs[k].(*ssa.Store); ok {
				if c.term(st.Addr).String() == addr {
					return st
				}
			}
			// a call that receives (a pointer into) the cell may write it
			if call, ok := instrs[k].(ssa.CallInstruction); ok && callTakes(call, root) {
				if _, isDefer := call.(*ssa.Defer); !isDefer { // a deferred call runs at RunDefers
					return nil
				}
			}
			if _, ok := instrs[k].(*ssa.RunDefers); ok && deferTakes(lb.Parent(), root) {
				return nil
			}
		}
	}
	return nil
}

// ---------------------------------------------------------------------------------------------

// CondAtom normalises a boolean value into (atom, polarity): cond holds iff atom == polarity.
func condAtom(t *Term) (*Term, bool) {
	pol := true
	for t.Op == "not" {
		t = t.Args[0]
		pol = !pol
	}
	return t, pol
}

// frame is one activation on the path: the root function or an inlined helper.
type frame struct {
	fn        *ssa.Function
	ctx       *Ctx
	parent    *frame
	call      *ssa.Call // call site in the parent
	contBlock *ssa.BasicBlock
	contIdx   int
	depth     int
}

func (f *frame) clone() *frame {
	n := *f
	n.ctx = f.ctx.clone()
	return &n
}

func (f *frame) root() *frame {
	for f.parent != nil {
		f = f.parent
	}
	return f
}

func (f *frame) active(g *ssa.Function) bool {
	for x := f; x != nil; x = x.parent {
		if x.fn == g {
			return true
		}
	}
	return false
}

// walkState is the part of a path under construction that is shared by value between branches.
type walkState struct {
	blocks  []*ssa.BasicBlock
	facts   []Fact
	canon   []Fact           // the facts with interface getters resolved on values whose dynamic type the path knows
	dyn     map[string]*Term // rendering of a value -> the successful assertion of its concrete type on this path
	steps   []step
	done    []*Ctx // contexts of helper activations that already returned
	ninst   int    // helper activations started so far
	foreign []*Ctx // activations of the path a closure under enumeration was created on
}

func (st walkState) withStep(b *ssa.BasicBlock, from, to int, c *Ctx) walkState {
	if to > from {
		st.steps = append(append([]step(nil), st.steps...), step{b, from, to, c.inst, c})
	}
	return st
}

// Enumerate returns all acyclic paths of fn. Calls to Inlineable helpers are spliced in: their branch
// facts, stores and results appear on the caller's path with parameters bound to the argument terms.
// An error is returned when the cap is exceeded.
func Enumerate(fn *ssa.Function) ([]*Path, error) { return enumerate(fn, nil) }

// EnumerateSplicing enumerates fn with the given functions spliced into its paths in addition to the helpers
// that always are: a rule about an entry point can look through the internal function it delegates to, whatever
// that function's signature has become.
func EnumerateSplicing(fn *ssa.Function, also map[*ssa.Function]bool) ([]*Path, error) {
	old := extraInline
	extraInline = also
	defer func() { extraInline = old }()
	return enumerate(fn, nil)
}

var extraInline map[*ssa.Function]bool

// EnumerateClosure enumerates the paths of the function a closure term denotes as it runs when called after
// path p: its captured variables hold what the creating activation left in them, function values it captured
// are known (calls through them are spliced), and all terms are in the vocabulary of p's root function. The
// closure's own parameters are named in0, in1, ... to keep them apart from the creator's arg0, arg1, ...
func EnumerateClosure(p *Path, ct *Term) ([]*Path, error) {
	g, _ := FuncOfTerm(ct)
	if g == nil || ct.Op != "closure" || BoundMethod(ct) != nil {
		return nil, fmt.Errorf("not a function literal: %s", ct)
	}
	mc := ct.Val.(*ssa.MakeClosure)
	root := newCtx(Info(g))
	root.bind = map[ssa.Value]*Term{}
	root.fvCells = map[*ssa.FreeVar]*ssa.Alloc{}
	for k, prm := range g.Params {
		root.bind[prm] = mk("param", fmt.Sprintf("in%d", k), prm)
	}
	if ct.Env != nil && p != nil {
		var oc *Ctx
		for _, cand := range p.byInst {
			if cand.uid == ct.Env.uid {
				oc = cand
			}
		}
		if oc != nil && len(oc.seq) > 0 {
			lb := oc.seq[len(oc.seq)-1]
			root.outer, root.outerB, root.outerI = oc, lb, len(lb.Instrs)-1
		}
	}
	for k, fv := range g.FreeVars {
		if k < len(ct.Args) {
			root.bind[fv] = ct.Args[k]
			if cell, ok := mc.Bindings[k].(*ssa.Alloc); ok && root.outer != nil {
				root.fvCells[fv] = cell
			}
		}
	}
	var foreign []*Ctx
	if p != nil {
		for _, c := range p.byInst {
			foreign = append(foreign, c)
		}
	}
	return enumerate(g, root, foreign...)
}

func enumerate(fn *ssa.Function, rootCtx *Ctx, foreign ...*Ctx) ([]*Path, error) {
	if len(fn.Blocks) == 0 {
		return nil, fmt.Errorf("%s has no body", FuncName(fn))
	}
	var out []*Path
	var err error
	emit := func(fr *frame, st walkState, end EndKind, latch *ssa.BasicBlock, ret *ssa.Return) {
		p := &Path{Fn: fn, Blocks: st.blocks, Facts: st.facts, End: end, Latch: latch, Ret: ret, steps: st.steps,
			ctxs: map[*ssa.Function]*Ctx{}, seen: map[*ssa.BasicBlock]bool{}, byInst: map[int]*Ctx{}}
		for _, c := range st.done {
			if _, have := p.ctxs[c.fi.Fn]; !have {
				p.ctxs[c.fi.Fn] = c // the first activation names the function's values
			}
			p.byInst[c.inst] = c
		}
		var chain []*frame
		for x := fr; x != nil; x = x.parent {
			chain = append(chain, x)
			x.ctx.log = st.steps
		}
		for i := len(chain) - 1; i >= 0; i-- {
			if _, have := p.ctxs[chain[i].fn]; !have {
				p.ctxs[chain[i].fn] = chain[i].ctx
			}
			p.byInst[chain[i].ctx.inst] = chain[i].ctx
		}
		p.ctx = fr.root().ctx
		for _, b := range st.blocks {
			p.seen[b] = true
		}
		out = append(out, p)
	}
	var enter func(fr *frame, b, from *ssa.BasicBlock, st walkState)
	var run func(fr *frame, b *ssa.BasicBlock, idx int, st walkState)
	enter = func(fr *frame, b, from *ssa.BasicBlock, st walkState) {
		if err != nil {
			return
		}
		if len(out) > MaxPaths {
			err = fmt.Errorf("%s: more than %d paths", FuncName(fn), MaxPaths)
			return
		}
		if _, seen := fr.ctx.pos[b]; seen {
			emit(fr, st, EndLatch, b, nil)
			return
		}
		fr = fr.clone()
		if from != nil {
			fr.ctx.pred[b] = from
		}
		fr.ctx.pos[b] = len(fr.ctx.seq)
		fr.ctx.seq = append(fr.ctx.seq, b)
		st.blocks = append(append([]*ssa.BasicBlock(nil), st.blocks...), b)
		run(fr, b, 0, st)
	}
	run = func(fr *frame, b *ssa.BasicBlock, idx int, st walkState) {
		if err != nil {
			return
		}
		fr.ctx.log, fr.ctx.curB, fr.ctx.curFrom = st.steps, b, idx
		// helper calls in the straight-line part
		for i := idx; i < len(b.Instrs)-1; i++ {
			call, ok := b.Instrs[i].(*ssa.Call)
			if !ok {
				continue
			}
			g := InlineTarget(call)
			var mc *ssa.MakeClosure
			if g == nil {
				g, mc = closureTarget(call, fr.fn)
			}
			// a call through a function value that the path knows: a closure created by an enclosing activation (and
			// handed down as an argument or captured), a method value, a function passed as an argument
			var viaTerm *Term
			var recvBind *Term
			if g == nil && InlineClosures && !call.Call.IsInvoke() {
				switch call.Call.Value.(type) {
				case *ssa.Function, *ssa.Builtin, *ssa.MakeClosure:
				default:
					if ft := fr.ctx.term(call.Call.Value); ft != nil {
						g, viaTerm, recvBind = valueTarget(ft)
					}
				}
			}
			if g == nil || fr.depth >= MaxInlineDepth || fr.active(g) {
				continue
			}
			st2 := st.withStep(b, idx, i, fr.ctx)
			child := &frame{fn: g, ctx: newCtx(Info(g)), parent: fr, call: call, contBlock: b, contIdx: i + 1, depth: fr.depth + 1}
			if mc != nil {
				child.ctx.outer, child.ctx.outerB, child.ctx.outerI = fr.ctx, b, i
				child.ctx.fvCells = map[*ssa.FreeVar]*ssa.Alloc{}
			}
			if viaTerm != nil && viaTerm.Op == "closure" && recvBind == nil {
				// reads of captured variables are resolved in the activation that created the closure, at the point
				// where that activation stands now (its pending call), or where it ended
				child.ctx.fvCells = map[*ssa.FreeVar]*ssa.Alloc{}
				if viaTerm.Env != nil {
					if oc, ob, oi := creatorPosition(fr, b, i, append(append([]*Ctx(nil), st.done...), st.foreign...), viaTerm.Env.uid); oc != nil {
						child.ctx.outer, child.ctx.outerB, child.ctx.outerI = oc, ob, oi
					}
				}
			}
			st2.ninst++
			child.ctx.inst = st2.ninst
			nth := 1
			for _, d := range st.done {
				if d.fi.Fn == g {
					nth++
				}
			}
			child.ctx.tag = FuncName(g) + ":"
			if nth > 1 {
				child.ctx.tag = fmt.Sprintf("%s~%d:", FuncName(g), nth) // a later activation of the same helper on this path
			}
			child.ctx.tsub = typeBinding(call, g, fr.ctx.tsub)
			child.ctx.bind = map[ssa.Value]*Term{}
			if recvBind != nil {
				// method value: the receiver is the bound value, the call's arguments follow
				child.ctx.bind[g.Params[0]] = recvBind
				for k, prm := range g.Params[1:] {
					if k < len(call.Call.Args) {
						child.ctx.bind[prm] = fr.ctx.term(call.Call.Args[k])
					}
				}
			} else {
				for k, prm := range g.Params {
					if k < len(call.Call.Args) {
						child.ctx.bind[prm] = fr.ctx.term(call.Call.Args[k])
					}
				}
			}
			if viaTerm != nil && viaTerm.Op == "closure" && recvBind == nil {
				vmc := viaTerm.Val.(*ssa.MakeClosure)
				for k, fv := range g.FreeVars {
					if k < len(viaTerm.Args) {
						child.ctx.bind[fv] = viaTerm.Args[k]
						if cell, ok := vmc.Bindings[k].(*ssa.Alloc); ok && child.ctx.outer != nil {
							child.ctx.fvCells[fv] = cell
						}
					}
				}
			}
			if mc != nil {
				for k, fv := range g.FreeVars {
					if k < len(mc.Bindings) {
						child.ctx.bind[fv] = fr.ctx.term(mc.Bindings[k])
						if cell, ok := mc.Bindings[k].(*ssa.Alloc); ok {
							child.ctx.fvCells[fv] = cell
						}
					}
				}
			}
			enter(child, g.Blocks[0], nil, st2)
			return
		}
		last := len(b.Instrs) - 1
		st = st.withStep(b, idx, last+1, fr.ctx)
		fr.ctx.log = st.steps
		switch in := b.Instrs[last].(type) {
		case *ssa.Return:
			if fr.parent == nil {
				emit(fr, st, EndReturn, nil, in)
				return
			}
			// return into the caller: bind the call's value to the helper's result on this path
			var res *Term
			if len(in.Results) == 1 {
				res = fr.ctx.term(in.Results[0])
			} else {
				ts := make([]*Term, len(in.Results))
				for k, r := range in.Results {
					ts[k] = fr.ctx.term(r)
				}
				res = mk("tuple", "", fr.call, ts...)
			}
			par := fr.parent.clone()
			par.ctx.memo[fr.call] = res
			st.done = append(append([]*Ctx(nil), st.done...), fr.ctx)
			run(par, fr.contBlock, fr.contIdx, st)
		case *ssa.Panic:
			emit(fr, st, EndPanic, nil, nil)
		case *ssa.Jump:
			enter(fr, b.Succs[0], b, st)
		case *ssa.If:
			ct := fr.ctx.term(in.Cond)
			atom, pol := condAtom(ct)
			if val, known := staticAtom(atom); known {
				// statically decided (constants; nil tests of values that are nil / non-nil by construction,
				// typically the result of an inlined helper): only the feasible edge is followed
				if val == pol {
					enter(fr, b.Succs[0], b, st)
				} else {
					enter(fr, b.Succs[1], b, st)
				}
				return
			}
			for k, edge := range []bool{true, false} {
				f := Fact{Atom: atom, Pol: pol == edge, Block: b}
				if contradicts(st.facts, f) {
					continue
				}
				st2 := st
				st2.facts = append(append([]Fact(nil), st.facts...), f)
				if !st2.addCanon(f) {
					continue // contradictory once the dynamic type of a value is taken into account
				}
				enter(fr, b.Succs[k], b, st2)
			}
		default:
			emit(fr, st, EndOther, nil, nil)
		}
	}
	if rootCtx == nil {
		rootCtx = newCtx(Info(fn))
	}
	enter(&frame{fn: fn, ctx: rootCtx}, fn.Blocks[0], nil, walkState{foreign: foreign})
	if err != nil {
		return nil, err
	}
	return out, nil
}

// addCanon records fact f (already appended to st.facts) in canonical form and tells whether the facts are
// still consistent. A successful assertion `s, ok := v.(C)` to a concrete type fixes the dynamic type of v on
// the path: interface calls v.M() whose method on C is a plain getter then denote the field of s, so
// `v.Kind() == ">"` and `s.kind == "=="` contradict each other.
func (st *walkState) addCanon(f Fact) bool {
	if f.Pol && isConcreteAssertOK(f.Atom) {
		ta := f.Atom.Args[0]
		key := ta.Args[0].String()
		if _, have := st.dyn[key]; !have {
			nd := map[string]*Term{}
			for k, v := range st.dyn {
				nd[k] = v
			}
			nd[key] = ta
			st.dyn = nd
			// the earlier facts are read again with the new knowledge
			canon := make([]Fact, 0, len(st.facts))
			for _, g := range st.facts {
				cg := Fact{Atom: devirt(g.Atom, st.dyn), Pol: g.Pol, Block: g.Block}
				if contradicts(canon, cg) {
					return false
				}
				canon = append(canon, cg)
			}
			st.canon = canon
			return true
		}
	}
	cf := f
	if len(st.dyn) > 0 {
		cf.Atom = devirt(f.Atom, st.dyn)
	}
	if contradicts(st.canon, cf) {
		return false
	}
	st.canon = append(append([]Fact(nil), st.canon...), cf)
	return true
}

// devirt rewrites interface calls on values of known dynamic type whose method is a plain getter.
func devirt(t *Term, dyn map[string]*Term) *Term {
	if t == nil || len(dyn) == 0 {
		return t
	}
	args := make([]*Term, len(t.Args))
	changed := false
	for i, a := range t.Args {
		args[i] = devirt(a, dyn)
		changed = changed || args[i] != a
	}
	n := t
	if changed {
		n = simplify(&Term{Op: t.Op, Name: t.Name, Args: args, Val: t.Val, Bind: t.Bind, Names: t.Names})
	}
	if n.Op != "invoke" || len(n.Args) != 1 {
		return n
	}
	ta, ok := dyn[n.Args[0].String()]
	if !ok {
		return n
	}
	call, ok1 := n.Val.(*ssa.Call)
	tav, ok2 := ta.Val.(*ssa.TypeAssert)
	if !ok1 || !ok2 || !call.Call.IsInvoke() {
		return n
	}
	prog := tav.Parent().Prog
	sel := prog.MethodSets.MethodSet(tav.AssertedType).Lookup(call.Call.Method.Pkg(), call.Call.Method.Name())
	if sel == nil {
		return n
	}
	m := prog.MethodValue(sel)
	fld := getterField(m)
	if fld == "" {
		return n
	}
	return simplify(&Term{Op: "field", Name: fld, Val: n.Val, Args: []*Term{{Op: "extract", Name: "#0", Args: []*Term{ta}, Val: ta.Val}}})
}

// getterField returns the field name when m is `func (r T) M() F { return r.f }`.
func getterField(m *ssa.Function) string {
	if m == nil || len(m.Blocks) != 1 || len(m.Params) != 1 {
		return ""
	}
	ins := m.Blocks[0].Instrs
	ret, ok := ins[len(ins)-1].(*ssa.Return)
	if !ok || len(ret.Results) != 1 {
		return ""
	}
	for _, in := range ins {
		switch in := in.(type) {
		case *ssa.Call, *ssa.MapUpdate, *ssa.Defer, *ssa.Go, *ssa.Send:
			return ""
		case *ssa.Store:
			if allocRoot(in.Addr) == nil {
				return "" // only the spill of the receiver into a local cell is a store a getter may have
			}
		}
	}
	if f, ok := getterCache[m]; ok {
		return f
	}
	getterCache[m] = ""
	ps, err := Enumerate(m)
	if err != nil || len(ps) != 1 || ps[0].End != EndReturn {
		return ""
	}
	t := ps[0].Results()[0]
	if t.Op == "field" && len(t.Args) == 1 && t.Args[0].Op == "param" && t.Args[0].Name == "recv" {
		getterCache[m] = t.Name
	}
	return getterCache[m]
}

var getterCache = map[*ssa.Function]string{}

// staticAtom evaluates atoms whose value does not depend on the input.
func staticAtom(atom *Term) (val bool, known bool) {
	if atom.Op == "const" && (atom.Name == "true" || atom.Name == "false") {
		return atom.Name == "true", true
	}
	if atom.Op != "eq" || len(atom.Args) != 2 {
		return false, false
	}
	a, b := atom.Args[0], atom.Args[1]
	if a.Op == "const" && b.Op == "const" && !strings.HasPrefix(a.Name, "zero:") && !strings.HasPrefix(b.Name, "zero:") {
		return a.Name == b.Name, true
	}
	var x *Term
	switch {
	case a.IsNil():
		x = b
	case b.IsNil():
		x = a
	default:
		return false, false
	}
	switch {
	case x.Op == "call" && (NonNilErrorCalls[x.Name] || neverNilResult(x)):
		return false, true
	case x.Op == "load" && x.Args[0].Op == "global" && x.Val != nil && types.Identical(x.Val.Type(), types.Universe.Lookup("error").Type()):
		return false, true // package-level sentinel error
	case x.Op == "alloc" || x.Op == "closure" || x.Op == "make" && false:
		return false, true // address of a local cell is never nil
	}
	return false, false
}

var neverNilCache = map[*ssa.Function]bool{}

// neverNilResult tells whether the call term is a call of a module function with a single interface result
// that, on every return, boxes a concrete non-nilable value or a freshly allocated object (error constructors
// such as `func ErrX(path string) error { return errWithPath{...} }`): its result is never nil.
func neverNilResult(t *Term) bool {
	call, ok := t.Val.(*ssa.Call)
	if !ok {
		return false
	}
	g := StaticCallee(call)
	if g == nil || len(g.Blocks) == 0 || !InModule(g) || g.Signature.Results().Len() != 1 {
		return false
	}
	if v, ok := neverNilCache[g]; ok {
		return v
	}
	neverNilCache[g] = false
	if _, isIface := g.Signature.Results().At(0).Type().Underlying().(*types.Interface); !isIface {
		return false
	}
	n := 0
	for _, b := range g.Blocks {
		ret, ok := b.Instrs[len(b.Instrs)-1].(*ssa.Return)
		if !ok {
			continue
		}
		n++
		mi, ok := ret.Results[0].(*ssa.MakeInterface)
		if !ok {
			return false
		}
		if _, isAlloc := mi.X.(*ssa.Alloc); isAlloc {
			continue
		}
		if isNilable(mi.X.Type()) {
			return false
		}
	}
	neverNilCache[g] = n > 0
	return n > 0
}

// contradicts tells whether adding f to facts is syntactically contradictory:
// same atom with the other polarity, or eq(X,c1)=true with eq(X,c2)=true for distinct constants.
func contradicts(facts []Fact, f Fact) bool {
	fs := f.Atom.String()
	for _, g := range facts {
		if g.Atom.String() == fs {
			if g.Pol != f.Pol {
				return true
			}
			continue
		}
		if f.Pol && g.Pol && isConcreteAssertOK(f.Atom) && isConcreteAssertOK(g.Atom) &&
			f.Atom.Args[0].Args[0].String() == g.Atom.Args[0].Args[0].String() && f.Atom.Args[0].Name != g.Atom.Args[0].Name {
			return true // a value has one dynamic type
		}
		if f.Pol && g.Pol && f.Atom.Op == "eq" && g.Atom.Op == "eq" {
			fx, fc := splitEqConst(f.Atom)
			gx, gc := splitEqConst(g.Atom)
			if fx != nil && gx != nil && fx.String() == gx.String() && fc.String() != gc.String() {
				return true
			}
		}
	}
	return false
}

// isConcreteAssertOK matches the ok result of a comma-ok type assertion to a concrete type.
func isConcreteAssertOK(t *Term) bool {
	if t.Op != "extract" || t.Name != "#1" || t.Args[0].Op != "typeassert" {
		return false
	}
	ta, ok := t.Args[0].Val.(*ssa.TypeAssert)
	if !ok {
		return false
	}
	_, isIface := ta.AssertedType.Underlying().(*types.Interface)
	return !isIface
}

func splitEqConst(t *Term) (x, c *Term) {
	if t.Op != "eq" {
		return nil, nil
	}
	a, b := t.Args[0], t.Args[1]
	if a.Op == "const" && b.Op != "const" {
		return b, a
	}
	if b.Op == "const" && a.Op != "const" {
		return a, b
	}
	return nil, nil
}

// Results returns the result terms of a returning path.
func (p *Path) Results() []*Term {
	if p.Ret == nil {
		return nil
	}
	out := make([]*Term, len(p.Ret.Results))
	for i, r := range p.Ret.Results {
		out[i] = p.ctx.term(r)
	}
	return out
}

// HasFact tells whether the path carries the atom with the polarity.
func (p *Path) HasFact(atom string, pol bool) bool {
	for _, f := range p.Facts {
		if f.Pol == pol && f.Atom.String() == atom {
			return true
		}
	}
	return false
}

// FactOn returns the polarity of atom on the path, if present.
func (p *Path) FactOn(atom string) (pol bool, ok bool) {
	for _, f := range p.Facts {
		if f.Atom.String() == atom {
			return f.Pol, true
		}
	}
	return false, false
}

// InBlock tells whether the path passes through b.
func (p *Path) InBlock(b *ssa.BasicBlock) bool { return p.seen[b] }

// Instrs iterates the instructions along the path in execution order (inlined helper calls are
// replaced by the helper's instructions).
func (p *Path) Instrs(f func(ssa.Instruction)) {
	for _, s := range p.steps {
		for i := s.from; i < s.to; i++ {
			f(s.b.Instrs[i])
		}
	}
}

// InstrsIn is Instrs with the evaluation context of the activation each instruction belongs to (a helper
// spliced in twice has two activations with different parameter bindings).
func (p *Path) InstrsIn(f func(in ssa.Instruction, c *Ctx)) {
	for _, s := range p.steps {
		c := p.byInst[s.inst]
		if c == nil {
			c = p.ctx
		}
		for i := s.from; i < s.to; i++ {
			f(s.b.Instrs[i], c)
		}
	}
}

// Term evaluates v in this activation.
func (c *Ctx) Term(v ssa.Value) *Term { return c.term(v) }

// Calls returns the call instructions executed on the path, in order.
func (p *Path) Calls() []*ssa.Call {
	var out []*ssa.Call
	p.Instrs(func(in ssa.Instruction) {
		if c, ok := in.(*ssa.Call); ok {
			out = append(out, c)
		}
	})
	return out
}

// String renders the facts of the path, one per line.
func (p *Path) String() string {
	var sb strings.Builder
	for _, f := range p.Facts {
		sb.WriteString(f.String())
		sb.WriteString("\n")
	}
	switch p.End {
	case EndReturn:
		var rs []string
		for _, r := range p.Results() {
			rs = append(rs, r.String())
		}
		sb.WriteString("=> return " + strings.Join(rs, ", "))
	case EndLatch:
		sb.WriteString(fmt.Sprintf("=> latch b%d", p.Latch.Index))
	default:
		sb.WriteString("=> " + p.End.String())
	}
	return sb.String()
}

// LoopFacts returns the facts decided inside loop l on this path.
func (p *Path) LoopFacts(l *Loop) []Fact {
	var out []Fact
	for _, f := range p.Facts {
		if f.Block != nil && l.Body[f.Block] {
			out = append(out, f)
		}
	}
	return out
}

// Outcome classification of a returning path for functions whose last result is an error
// or whose single result is a bool.
type Outcome int

const (
	Unknown Outcome = iota
	Success
	Failure
	Delegated // success iff the call whose error/bool is returned succeeds
)

func (o Outcome) String() string { return [...]string{"unknown", "success", "failure", "delegated"}[o] }

// NonNilErrorCalls are callees whose error result is never nil.
var NonNilErrorCalls = map[string]bool{
	"fmt.Errorf": true, "errors.New": true,
}

// ErrorOutcome classifies the last (error) result of a returning path.
// For Delegated the returned term is the call whose error is passed through.
func (p *Path) ErrorOutcome() (Outcome, *Term) {
	rs := p.Results()
	if len(rs) == 0 {
		return Unknown, nil
	}
	return p.classifyErr(rs[len(rs)-1])
}

func (p *Path) classifyErr(e *Term) (Outcome, *Term) {
	if e.IsNil() {
		return Success, nil
	}
	if p.busy == nil {
		p.busy = map[string]bool{}
	}
	if p.busy[e.String()] {
		return Unknown, nil
	}
	p.busy[e.String()] = true
	defer delete(p.busy, e.String())
	eqnil := simplify(mk("eq", "", nil, e, mk("const", "nil", nil))).String()
	if pol, ok := p.FactOn(eqnil); ok {
		if pol {
			return Success, nil
		}
		return Failure, nil
	}
	switch e.Op {
	case "call":
		if NonNilErrorCalls[e.Name] {
			return Failure, nil
		}
		if e.Name == "errors.Join" && len(e.Args) == 1 && e.Args[0].Op == "varargs" {
			// nil iff every element is nil
			allNil := true
			for _, a := range e.Args[0].Args {
				o, _ := p.classifyErr(a)
				if o == Failure {
					return Failure, nil
				}
				if o != Success {
					allNil = false
				}
			}
			if allNil {
				return Success, nil
			}
			return Unknown, nil
		}
		if strings.HasPrefix(e.Name, "pkg/policy.Err") || strings.HasPrefix(e.Name, "pkg/policy/selector.new") {
			// error constructors of the module returning a concrete error value
			return Failure, nil
		}
		return Delegated, e
	case "invoke", "dyncall":
		return Delegated, e
	case "extract":
		if e.Args[0].Op == "call" || e.Args[0].Op == "invoke" || e.Args[0].Op == "dyncall" {
			return Delegated, e
		}
	case "load":
		// package-level sentinel error: *global(pkg.ErrX)
		if e.Args[0].Op == "global" {
			return Failure, nil
		}
		// a local cell never stored on this path holds its zero value (stores by called
		// closures are accounted for by Engine.Consistent)
		if e.Args[0].Op == "alloc" {
			a, _ := e.Args[0].Val.(*ssa.Alloc)
			if a == nil {
				return Unknown, nil
			}
			var onPath []*ssa.Store
			p.Instrs(func(in ssa.Instruction) {
				if st, ok := in.(*ssa.Store); ok && st.Addr == ssa.Value(a) {
					onPath = append(onPath, st)
				}
			})
			if len(onPath) == 0 {
				return Success, nil
			}
			// named result finalised by deferred closures that only overwrite it while it is nil:
			// the final value is nil only if the value before the defers ran was nil.
			if deferTakes(a.Parent(), a) && deferredOnlyFillNil(a.Parent(), a) {
				last := onPath[len(onPath)-1]
				return p.classifyErr(p.Term(last.Val))
			}
			// accumulator: every store anywhere is cell = errors.Join(cell, ...): once non-nil, stays non-nil
			if accumulatorCell(a.Parent(), a) {
				for _, st := range onPath {
					if o, _ := p.classifyErr(p.Term(st.Val)); o == Failure {
						return Failure, nil
					}
				}
			}
			return Unknown, nil
		}
	case "union":
		all := Outcome(-1)
		for _, a := range e.Args {
			o, _ := p.classifyErr(a)
			if all == -1 {
				all = o
			} else if all != o {
				return Unknown, nil
			}
		}
		if all == Success || all == Failure {
			return all, nil
		}
	}
	// a concrete (non-pointer, non-interface) value boxed into the error interface is non-nil
	if e.Val != nil {
		if _, isIface := e.Val.Type().Underlying().(*types.Interface); !isIface {
			if _, isPtr := e.Val.Type().Underlying().(*types.Pointer); !isPtr {
				if e.Op != "const" {
					return Failure, nil
				}
			}
		}
	}
	return Unknown, nil
}

// BoolOutcome classifies a path of a function whose (first) result is a bool:
// returns (value known, value, residual atom): when the result is a non-constant boolean term
// the path stands for two virtual paths, one per value of that term.
func (p *Path) BoolResult(idx int) (known bool, val bool, atom *Term, pol bool) {
	rs := p.Results()
	if idx >= len(rs) {
		return false, false, nil, false
	}
	a, pl := condAtom(rs[idx])
	if a.Op == "const" && (a.Name == "true" || a.Name == "false") {
		return true, (a.Name == "true") == pl, nil, false
	}
	return false, false, a, pl
}

// LatchValue returns, for a path ending in a latch, the value the loop-header phi receives
// along the back edge taken by this path.
func (p *Path) LatchValue(phi *ssa.Phi) *Term {
	if p.End != EndLatch || phi.Block() != p.Latch || len(p.Blocks) == 0 {
		return nil
	}
	c := p.ctxFor(phi)
	if len(c.seq) == 0 {
		return nil
	}
	last := c.seq[len(c.seq)-1]
	for i, pr := range p.Latch.Preds {
		if pr == last {
			return c.term(phi.Edges[i])
		}
	}
	return nil
}

// HeaderPhis returns the phis of a loop header with their terms.
func (l *Loop) HeaderPhis() []*ssa.Phi {
	var out []*ssa.Phi
	for _, in := range l.Header.Instrs {
		if phi, ok := in.(*ssa.Phi); ok {
			out = append(out, phi)
		}
	}
	return out
}

// LastStore returns the last value stored on the path into the variable a - by the function itself, or by a
// spliced callee / function literal that reaches it through a pointer or a capture; nil when the path does not
// store into it. A variable that a loop carries in memory (because a function literal captures it) is read at
// the start of an iteration as "*alloc(..)"; LastStore on a latch path is then what LatchValue is for a phi.
func (p *Path) LastStore(a *ssa.Alloc) *Term {
	var out *Term
	p.InstrsIn(func(in ssa.Instruction, c *Ctx) {
		st, ok := in.(*ssa.Store)
		if !ok {
			return
		}
		if st.Addr != ssa.Value(a) {
			at := c.term(st.Addr)
			if at == nil || at.Op != "alloc" || at.Val != ssa.Value(a) {
				return
			}
		}
		out = c.term(st.Val)
	})
	return out
}

// FieldStores returns, for a struct cell (alloc or other pointer value), the last value stored on
// the path into each of its fields.
func (p *Path) FieldStores(cell ssa.Value) map[string]*Term {
	out := map[string]*Term{}
	p.InstrsIn(func(in ssa.Instruction, c *Ctx) {
		st, ok := in.(*ssa.Store)
		if !ok {
			return
		}
		if st.Addr == cell {
			// the whole record is assigned: its fields are those of the value (a struct built by a helper, say)
			if v := c.term(st.Val); v.Op == "struct" {
				out = map[string]*Term{}
				for i, n := range v.Names {
					if a := v.Args[i]; !(a.Op == "const" && (a.Name == "nil" || a.Name == "0" || a.Name == `""` || a.Name == "false" || strings.HasPrefix(a.Name, "zero:"))) {
						out[n] = a
					}
				}
			}
			return
		}
		fa, ok := st.Addr.(*ssa.FieldAddr)
		if !ok {
			return
		}
		if fa.X != cell {
			// the same record reached through a pointer parameter or captured variable of a spliced helper
			at := c.term(fa.X)
			if at == nil || (at.Op != "alloc" && at.Op != "param") || at.Val != cell {
				return
			}
		}
		stt := fa.X.Type().Underlying().(*types.Pointer).Elem().Underlying().(*types.Struct)
		out[FieldName(stt.Field(fa.Field))] = c.term(st.Val)
	})
	return out
}

// CellOf returns the SSA cell (pointer value) a term denotes when the term is an address
// (alloc) or a load of one.
func CellOf(t *Term) ssa.Value {
	if t == nil || t.Val == nil {
		return nil
	}
	switch v := t.Val.(type) {
	case *ssa.Alloc:
		return v
	case *ssa.UnOp:
		if a, ok := v.X.(*ssa.Alloc); ok {
			return a
		}
	case *ssa.MakeInterface:
		return CellOf(&Term{Val: v.X})
	}
	return nil
}

// accumulatorCell tells whether every store to cell a, in fn and in the closures capturing it,
// has the form a = errors.Join(*a, ...).
func accumulatorCell(fn *ssa.Function, a *ssa.Alloc) bool {
	ok := true
	var check func(f *ssa.Function, cell ssa.Value)
	check = func(f *ssa.Function, cell ssa.Value) {
		for _, b := range f.Blocks {
			for _, in := range b.Instrs {
				switch v := in.(type) {
				case *ssa.Store:
					if v.Addr != cell {
						continue
					}
					call, isCall := v.Val.(*ssa.Call)
					if !isCall || StaticCallee(call) == nil || FuncName(StaticCallee(call)) != "errors.Join" {
						ok = false
						continue
					}
					// first variadic element is a load of the cell
					good := false
					if sl, isSl := call.Call.Args[0].(*ssa.Slice); isSl {
						if arr, isA := sl.X.(*ssa.Alloc); isA {
							for _, ref := range *arr.Referrers() {
								if ia, isIA := ref.(*ssa.IndexAddr); isIA {
									if k, isK := constInt(ia.Index); isK && k == 0 {
										for _, r2 := range *ia.Referrers() {
											if st, isSt := r2.(*ssa.Store); isSt {
												if ld, isLd := st.Val.(*ssa.UnOp); isLd && ld.X == cell {
													good = true
												}
											}
										}
									}
								}
							}
						}
					}
					if !good {
						ok = false
					}
				case *ssa.MakeClosure:
					g := v.Fn.(*ssa.Function)
					for i, bnd := range v.Bindings {
						if bnd == cell && i < len(g.FreeVars) {
							check(g, g.FreeVars[i])
						}
					}
				}
			}
		}
	}
	check(fn, a)
	return ok
}

// deferredOnlyFillNil tells whether every store to cell a made by the deferred closures of fn is
// executed only when the cell currently holds nil (idiom: `if cerr := c.Close(); err == nil { err = cerr }`).
func deferredOnlyFillNil(fn *ssa.Function, a *ssa.Alloc) bool {
	ok, any := true, false
	for _, b := range fn.Blocks {
		for _, in := range b.Instrs {
			d, isD := in.(*ssa.Defer)
			if !isD {
				continue
			}
			mc, isMC := d.Call.Value.(*ssa.MakeClosure)
			if !isMC {
				if callTakes(d, a) {
					return false
				}
				continue
			}
			g := mc.Fn.(*ssa.Function)
			for i, bnd := range mc.Bindings {
				if bnd != ssa.Value(a) || i >= len(g.FreeVars) {
					continue
				}
				any = true
				fv := g.FreeVars[i]
				ps, err := Enumerate(g)
				if err != nil {
					return false
				}
				fvName := fmt.Sprintf("fv%d", i)
				for _, q := range ps {
					stores := false
					q.Instrs(func(in2 ssa.Instruction) {
						if st, isSt := in2.(*ssa.Store); isSt && st.Addr == ssa.Value(fv) {
							stores = true
						}
					})
					if stores && !q.HasFact("eq(*"+fvName+",const(nil))", true) {
						ok = false
					}
				}
			}
		}
	}
	return ok && any
}

// mayWriteThrough tells whether function g may write the cell its free variable / parameter v
// points to: a store through it, or handing it on to anything but a load.
func mayWriteThrough(g *ssa.Function, v ssa.Value, depth int) bool {
	if depth > 3 {
		return true
	}
	for _, r := range *v.Referrers() {
		switch x := r.(type) {
		case *ssa.UnOp:
			// load: fine
		case *ssa.DebugRef:
		case *ssa.Store:
			if x.Addr == v {
				return true
			}
			return true // the pointer itself is stored somewhere
		case *ssa.FieldAddr:
			if mayWriteThrough(g, x, depth+1) {
				return true
			}
		case *ssa.IndexAddr:
			if mayWriteThrough(g, x, depth+1) {
				return true
			}
		case *ssa.MakeClosure:
			h := x.Fn.(*ssa.Function)
			for i, b := range x.Bindings {
				if b == v && (i >= len(h.FreeVars) || mayWriteThrough(h, h.FreeVars[i], depth+1)) {
					return true
				}
			}
		default:
			return true
		}
	}
	return false
}
