package paths

import (
	"fmt"
	"go/types"
	"strconv"
	"strings"

	"golang.org/x/tools/go/ssa"
)

// Assign is a partial truth assignment on atoms (rendered in the vocabulary of the root
// function of a query): it returns (value, known).
type Assign func(atom *Term) (val bool, known bool)

// Engine caches enumerated paths and answers consistency queries.
type Engine struct {
	InModule func(*ssa.Function) bool
	cache    map[*ssa.Function][]*Path
	errs     map[*ssa.Function]error

	// statistics for evidence
	FuncsEnumerated int
	PathsEnumerated int
	Queries         int
}

// NewEngine creates an engine.
func NewEngine(inModule func(*ssa.Function) bool) *Engine {
	return &Engine{InModule: inModule, cache: map[*ssa.Function][]*Path{}, errs: map[*ssa.Function]error{}}
}

// Paths returns the cached path enumeration of fn.
func (e *Engine) Paths(fn *ssa.Function) ([]*Path, error) {
	if ps, ok := e.cache[fn]; ok {
		return ps, e.errs[fn]
	}
	ps, err := Enumerate(fn)
	e.cache[fn] = ps
	e.errs[fn] = err
	if err == nil {
		e.FuncsEnumerated++
		e.PathsEnumerated += len(ps)
	}
	return ps, err
}

// Want selects path ends for a query.
type Want int

const (
	WantSuccess Want = iota // error result nil (or delegated to a call that can succeed)
	WantTrue                // bool result true
	WantFalse               // bool result false
	WantAnyReturn
	WantFailure // error result non-nil
)

// VPath is a path together with the virtual fact implied by the wanted outcome.
type VPath struct {
	*Path
	Extra []Fact
}

// AllFacts returns the branch facts plus the virtual ones.
func (v VPath) AllFacts() []Fact {
	if len(v.Extra) == 0 {
		return v.Facts
	}
	return append(append([]Fact(nil), v.Facts...), v.Extra...)
}

// HasFact tells whether the path carries the atom with the polarity, among its branch facts or the facts
// implied by the selected outcome (`return f(x)` selected as success implies that f succeeded).
func (v VPath) HasFact(atom string, pol bool) bool {
	for _, f := range v.AllFacts() {
		if f.Pol == pol && f.Atom.String() == atom {
			return true
		}
	}
	return false
}

// FactOn returns the polarity of atom on the path (branch facts and outcome facts), if present.
func (v VPath) FactOn(atom string) (pol bool, ok bool) {
	for _, f := range v.AllFacts() {
		if f.Atom.String() == atom {
			return f.Pol, true
		}
	}
	return false, false
}

// lastErrIndex returns the index of the error result of fn (-1 if none).
func lastErrIndex(fn *ssa.Function) int {
	res := fn.Signature.Results()
	if res.Len() == 0 {
		return -1
	}
	last := res.At(res.Len() - 1).Type()
	if types.Identical(last, types.Universe.Lookup("error").Type()) {
		return res.Len() - 1
	}
	return -1
}

func boolIndex(fn *ssa.Function) int {
	res := fn.Signature.Results()
	for i := 0; i < res.Len(); i++ {
		if b, ok := res.At(i).Type().Underlying().(*types.Basic); ok && b.Kind() == types.Bool {
			return i
		}
	}
	return -1
}

// Select returns the paths of fn whose outcome is the wanted one, each with the virtual
// facts that the outcome adds. Paths of unknown outcome are returned in the second list.
func (e *Engine) Select(fn *ssa.Function, want Want) (sel []VPath, unknown []*Path, err error) {
	ps, err := e.Paths(fn)
	if err != nil {
		return nil, nil, err
	}
	return e.SelectFrom(ps, fn, want)
}

// SelectFrom is Select over a given enumeration of fn's paths (e.g. those of a closure enumerated in the
// context of its creator).
func (e *Engine) SelectFrom(ps []*Path, fn *ssa.Function, want Want) (sel []VPath, unknown []*Path, err error) {
	for _, p := range ps {
		if p.End != EndReturn {
			continue
		}
		switch want {
		case WantAnyReturn:
			sel = append(sel, VPath{Path: p})
		case WantFailure:
			if lastErrIndex(fn) < 0 {
				continue
			}
			o, ct := p.ErrorOutcome()
			switch o {
			case Failure:
				sel = append(sel, VPath{Path: p})
			case Delegated:
				f := Fact{Atom: simplify(mk("eq", "", nil, ct, mk("const", "nil", nil))), Pol: false, Virtual: true}
				sel = append(sel, VPath{Path: p, Extra: []Fact{f}})
			case Unknown:
				unknown = append(unknown, p)
			}
		case WantSuccess:
			if lastErrIndex(fn) < 0 {
				sel = append(sel, VPath{Path: p})
				continue
			}
			o, ct := p.ErrorOutcome()
			switch o {
			case Success:
				sel = append(sel, VPath{Path: p})
			case Delegated:
				f := Fact{Atom: simplify(mk("eq", "", nil, ct, mk("const", "nil", nil))), Pol: true, Virtual: true}
				sel = append(sel, VPath{Path: p, Extra: []Fact{f}})
			case Unknown:
				unknown = append(unknown, p)
			}
		case WantTrue, WantFalse:
			bi := boolIndex(fn)
			if bi < 0 {
				return nil, nil, fmt.Errorf("%s has no bool result", FuncName(fn))
			}
			known, val, atom, pol := p.BoolResult(bi)
			w := want == WantTrue
			if known {
				if val == w {
					sel = append(sel, VPath{Path: p})
				}
				continue
			}
			f := Fact{Atom: atom, Pol: pol == w, Virtual: true}
			if contradicts(p.Facts, f) {
				continue
			}
			sel = append(sel, VPath{Path: p, Extra: []Fact{f}})
		}
	}
	return sel, unknown, nil
}

// CallOf returns the call instruction a term stands for (through extract), or nil.
func CallOf(t *Term) (*Term, *ssa.Call) {
	for t != nil && t.Op == "extract" {
		t = t.Args[0]
	}
	if t == nil {
		return nil, nil
	}
	if t.Op == "call" || t.Op == "invoke" || t.Op == "dyncall" {
		if c, ok := t.Val.(*ssa.Call); ok {
			return t, c
		}
	}
	return nil, nil
}

// NilCheckOf decomposes eq(X, nil) atoms: returns X.
func NilCheckOf(atom *Term) *Term {
	if atom.Op != "eq" {
		return nil
	}
	if atom.Args[0].IsNil() {
		return atom.Args[1]
	}
	if atom.Args[1].IsNil() {
		return atom.Args[0]
	}
	return nil
}

// SuccessOfCall tells whether fact f states that a call to the named function (short name)
// succeeded (error result nil / bool result true) or failed; ok=false if f is not about it.
func SuccessOfCall(f Fact, match func(callee string, ct *Term) bool) (succeeded bool, ok bool) {
	if x := NilCheckOf(f.Atom); x != nil {
		if ct, _ := CallOf(x); ct != nil && (ct.Op == "call" || ct.Op == "invoke") && match(ct.Name, ct) {
			return f.Pol, true
		}
		return false, false
	}
	if ct, _ := CallOf(f.Atom); ct != nil && ct == f.Atom && match(ct.Name, ct) {
		return f.Pol, true
	}
	return false, false
}

// Consistent tells whether path v (of some function), with its terms mapped through sub into
// the root vocabulary, is consistent with the partial assignment A. Success facts of calls to
// in-module functions are expanded up to depth: the callee must have a path with the stated
// outcome that is itself consistent with A.
func (e *Engine) Consistent(v VPath, A Assign, sub map[string]*Term, depth int) bool {
	e.Queries++
	for _, f := range v.AllFacts() {
		atom := f.Atom
		if sub != nil {
			atom = atom.Subst(sub)
		}
		if val, known := A(atom); known && val != f.Pol {
			return false
		}
		if depth <= 0 {
			continue
		}
		// expansion of call outcomes
		if x := NilCheckOf(atom); x != nil && f.Pol {
			if ct, call := CallOf(x); ct != nil && (ct.Op == "call" || ct.Op == "dyncall") {
				if !e.calleeCan(ct, call, WantSuccess, A, depth-1) {
					return false
				}
			}
		} else if ct, call := CallOf(atom); ct != nil && ct == atom && ct.Op == "call" {
			w := WantTrue
			if !f.Pol {
				w = WantFalse
			}
			if !e.calleeCan(ct, call, w, A, depth-1) {
				return false
			}
		}
	}
	// accumulator idiom: closure calls on the path that definitely store a non-nil error into
	// the returned cell make a "success" return impossible.
	if v.End == EndReturn && lastErrIndex(v.Fn) >= 0 {
		rs := v.Results()
		r := rs[len(rs)-1]
		if r.Op == "load" && r.Args[0].Op == "alloc" {
			if e.cellDefinitelyStored(v, r.Args[0], A, sub) {
				return false
			}
		}
	}
	return true
}

func (e *Engine) calleeCan(ct *Term, call *ssa.Call, want Want, A Assign, depth int) bool {
	g := StaticCallee(call)
	if g == nil {
		// a function taken from a package-level table (map literal of functions): the call can have the outcome
		// if one of the entries can
		if cands := tableCallees(ct); len(cands) > 0 {
			for _, c := range cands {
				if e.funcCan(c, ct, 1, want, A, depth) {
					return true
				}
			}
			return false
		}
		return true
	}
	return e.funcCan(g, ct, 0, want, A, depth)
}

// tableCallees resolves dyncall(table[key], ...) with table a package-level map variable initialised by a map
// literal of functions: all the functions of the literal.
func tableCallees(ct *Term) []*ssa.Function {
	if ct == nil || ct.Op != "dyncall" || len(ct.Args) == 0 {
		return nil
	}
	ft := ct.Args[0]
	if ft.Op == "extract" {
		ft = ft.Args[0]
	}
	if ft.Op != "lookup" || ft.Args[0].Op != "load" || ft.Args[0].Args[0].Op != "global" {
		return nil
	}
	gl, ok := ft.Args[0].Args[0].Val.(*ssa.Global)
	if !ok {
		return nil
	}
	init := gl.Pkg.Func("init")
	if init == nil {
		return nil
	}
	var m ssa.Value
	for _, b := range init.Blocks {
		for _, in := range b.Instrs {
			if st, ok := in.(*ssa.Store); ok && st.Addr == ssa.Value(gl) {
				m = st.Val
			}
		}
	}
	var out []*ssa.Function
	for _, b := range init.Blocks {
		for _, in := range b.Instrs {
			if mu, ok := in.(*ssa.MapUpdate); ok && mu.Map == m {
				v := mu.Value
				if ctv, ok := v.(*ssa.ChangeType); ok {
					v = ctv.X
				}
				f, ok := v.(*ssa.Function)
				if !ok {
					return nil // an entry that is not a plain function: unknown
				}
				out = append(out, f)
			}
		}
	}
	return out
}

// funcCan: g, called with the arguments of ct (skipping the first skip argument terms: the callee value of a
// dyncall), has a path with the wanted outcome that is consistent with A.
func (e *Engine) funcCan(g *ssa.Function, ct *Term, skip int, want Want, A Assign, depth int) bool {
	if g == nil || len(g.Blocks) == 0 || !e.InModule(g) {
		return true
	}
	if skip > 0 {
		ct = &Term{Op: "call", Name: FuncName(g), Args: ct.Args[skip:], Val: ct.Val, Bind: ct.Bind}
	}
	if want != WantSuccess && boolIndex(g) < 0 {
		return true
	}
	sel, unknown, err := e.Select(g, want)
	if err != nil || len(unknown) > 0 {
		return true // cannot decide: over-approximate
	}
	sub := BindArgs(g, ct)
	for _, q := range sel {
		if e.Consistent(q, A, sub, depth) {
			return true
		}
	}
	return false
}

// BindArgs maps g's parameter / free-variable names to the argument terms of call term ct.
func BindArgs(g *ssa.Function, ct *Term) map[string]*Term {
	sub := map[string]*Term{}
	for i, p := range g.Params {
		if i < len(ct.Args) {
			sub[paramName(g, p)] = ct.Args[i]
		}
	}
	for i := range g.FreeVars {
		if i < len(ct.Bind) {
			sub[fmt.Sprintf("fv%d", i)] = ct.Bind[i]
		}
	}
	return sub
}

// cellDefinitelyStored: on path v some called closure stores into the cell on a closure path all of
// whose facts are forced true by A.
func (e *Engine) cellDefinitelyStored(v VPath, cell *Term, A Assign, sub map[string]*Term) bool {
	for _, call := range v.Calls() {
		g := StaticCallee(call)
		if g == nil || g.Parent() == nil || len(g.Blocks) == 0 {
			continue
		}
		ct := v.Term(call)
		if sub != nil {
			ct = ct.Subst(sub)
		}
		gsub := BindArgs(g, ct)
		// which free variable is the cell?
		fvName := ""
		for k, b := range gsub {
			if strings.HasPrefix(k, "fv") && b.String() == cell.String() {
				fvName = k
			}
		}
		if fvName == "" {
			continue
		}
		qs, err := e.Paths(g)
		if err != nil {
			continue
		}
		for _, q := range qs {
			stores := false
			q.Instrs(func(in ssa.Instruction) {
				if st, ok := in.(*ssa.Store); ok {
					if q.Term(st.Addr).String() == fvName {
						stores = true
					}
				}
			})
			if !stores {
				continue
			}
			forced := true
			for _, f := range q.Facts {
				at := f.Atom.Subst(gsub)
				val, known := staticAtom(at) // e.g. the nil test of an argument that is a fresh error on this path
				if !known {
					val, known = A(at)
				}
				if !known || val != f.Pol {
					forced = false
					break
				}
			}
			if forced {
				return true
			}
		}
	}
	return false
}

// ConsistentPaths returns the paths of fn with the wanted outcome that are consistent with A.
// err is non-nil when the function cannot be analysed or has paths of unknown outcome.
func (e *Engine) ConsistentPaths(fn *ssa.Function, want Want, A Assign, depth int) ([]VPath, error) {
	sel, unknown, err := e.Select(fn, want)
	if err != nil {
		return nil, err
	}
	if len(unknown) > 0 {
		return nil, fmt.Errorf("%s: %d returning path(s) whose error outcome cannot be classified, e.g.\n%s", FuncName(fn), len(unknown), unknown[0])
	}
	var out []VPath
	for _, v := range sel {
		if e.Consistent(v, A, nil, depth) {
			out = append(out, v)
		}
	}
	return out, nil
}

// LatchPaths returns the latch paths of loop l that are consistent with A.
func (e *Engine) LatchPaths(fn *ssa.Function, l *Loop, A Assign, depth int) ([]VPath, error) {
	ps, err := e.Paths(fn)
	if err != nil {
		return nil, err
	}
	var out []VPath
	for _, p := range ps {
		if p.End == EndLatch && p.Latch == l.Header {
			v := VPath{Path: p}
			if A == nil || e.Consistent(v, A, nil, depth) {
				out = append(out, v)
			}
		}
	}
	return out, nil
}

// EntersBody tells whether the path executes at least one block of the loop body beyond the header.
func (p *Path) EntersBody(l *Loop) bool {
	for _, b := range p.Blocks {
		if b != l.Header && l.Body[b] {
			return true
		}
	}
	return false
}

// ---------------------------------------------------------------------------------------------
// helpers to build assignments

// None is the empty assignment.
func None(*Term) (bool, bool) { return false, false }

// AtomIs assigns a single atom (by rendering).
func AtomIs(atom string, val bool) Assign {
	return func(t *Term) (bool, bool) {
		if t.String() == atom {
			return val, true
		}
		return false, false
	}
}

// Both combines assignments (first known wins).
func Both(as ...Assign) Assign {
	return func(t *Term) (bool, bool) {
		for _, a := range as {
			if v, k := a(t); k {
				return v, true
			}
		}
		return false, false
	}
}

// ConstInt returns the integer value of a constant term.
func ConstInt(t *Term) (int64, bool) {
	if t == nil || t.Op != "const" {
		return 0, false
	}
	n, err := strconv.ParseInt(t.Name, 10, 64)
	if err != nil {
		return 0, false
	}
	return n, true
}

// ValueIs assigns comparison atoms (eq / lt against integer constants) of the term rendered as
// x when that term has the integer value n.
func ValueIs(x string, n int64) Assign {
	return func(t *Term) (bool, bool) {
		if (t.Op != "eq" && t.Op != "lt") || len(t.Args) != 2 {
			return false, false
		}
		a, b := t.Args[0], t.Args[1]
		var av, bv int64
		var aok, bok bool
		if a.String() == x {
			av, aok = n, true
		} else {
			av, aok = ConstInt(a)
		}
		if b.String() == x {
			bv, bok = n, true
		} else {
			bv, bok = ConstInt(b)
		}
		if !aok || !bok || (a.String() != x && b.String() != x) {
			return false, false
		}
		if t.Op == "eq" {
			return av == bv, true
		}
		return av < bv, true
	}
}

// CallFails assigns "failed" to every success atom of calls to callees accepted by match.
func CallFails(match func(callee string, ct *Term) bool) Assign {
	return func(t *Term) (bool, bool) {
		if x := NilCheckOf(t); x != nil {
			if ct, _ := CallOf(x); ct != nil && match(ct.Name, ct) {
				return false, true // eq(err,nil) is false
			}
			return false, false
		}
		if ct, _ := CallOf(t); ct != nil && ct == t && match(ct.Name, ct) {
			return false, true // bool result false
		}
		return false, false
	}
}
