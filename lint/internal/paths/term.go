// Package paths implements origin terms (engine E2) and the path-fact engine (engine E1):
// finite enumeration of the acyclic CFG paths of an SSA function, each carrying the list of
// atomic branch facts that select it. Nothing is executed and no solver is involved.
package paths

import (
	"fmt"
	"go/constant"
	"go/token"
	"go/types"
	"sort"
	"strconv"
	"strings"

	"golang.org/x/tools/go/ssa"
)

const module = "github.com/ucan-wg/go-ucan"

// Term is a finite tree describing where an SSA value comes from.
type Term struct {
	Op    string
	Name  string
	Args  []*Term
	Val   ssa.Value // a representative SSA value (for positions); may be nil
	Bind  []*Term   // for calls of closures: the closure's bindings (free variables), not rendered
	Names []string  // for struct values: the field names of Args
	Env   *Ctx      // for closures: the activation that created the closure
	str   string
}

func mk(op, name string, v ssa.Value, args ...*Term) *Term {
	return &Term{Op: op, Name: name, Args: args, Val: v}
}

// Short strips the module prefix from a qualified name.
func Short(s string) string {
	s = strings.ReplaceAll(s, module+"/", "")
	return strings.ReplaceAll(s, module, "")
}

// String is the canonical rendering; two terms are "the same" iff their strings are equal.
func (t *Term) String() string {
	if t == nil {
		return "_"
	}
	if t.str != "" {
		return t.str
	}
	var s string
	argstr := func() string {
		parts := make([]string, len(t.Args))
		for i, a := range t.Args {
			parts[i] = a.String()
		}
		return strings.Join(parts, ",")
	}
	switch t.Op {
	case "param", "freevar", "self", "iv":
		s = t.Name
	case "const":
		s = "const(" + t.Name + ")"
	case "global":
		s = "global(" + t.Name + ")"
	case "func":
		s = "func(" + t.Name + ")"
	case "field":
		s = t.Args[0].String() + "." + t.Name
	case "fieldaddr":
		s = "&" + t.Args[0].String() + "." + t.Name
	case "elem":
		s = t.Args[0].String() + "[" + t.Args[1].String() + "]"
	case "elemaddr":
		s = "&" + t.Args[0].String() + "[" + t.Args[1].String() + "]"
	case "load":
		s = "*" + t.Args[0].String()
	case "len":
		s = "len(" + t.Args[0].String() + ")"
	case "call":
		s = "call[" + t.Name + "](" + argstr() + ")"
	case "invoke":
		s = "invoke[" + t.Name + "](" + argstr() + ")"
	case "dyncall":
		s = "dyncall(" + argstr() + ")"
	case "extract":
		s = t.Args[0].String() + t.Name
	case "eq", "lt", "add", "sub", "mul", "div", "rem", "and", "or", "xor", "shl", "shr", "andnot":
		s = t.Op + "(" + argstr() + ")"
	case "unop":
		s = "unop[" + t.Name + "](" + argstr() + ")"
	case "not":
		s = "not(" + argstr() + ")"
	case "conv":
		s = "conv[" + t.Name + "](" + argstr() + ")"
	case "typeassert":
		s = "typeassert[" + t.Name + "](" + argstr() + ")"
	case "slice":
		s = "slice(" + argstr() + ")"
	case "alloc":
		s = "alloc(" + t.Name + ")"
	case "make":
		s = "make[" + t.Name + "](" + argstr() + ")"
	case "closure":
		s = "closure[" + t.Name + "](" + argstr() + ")"
	case "loopphi":
		s = t.Name
	case "union":
		parts := make([]string, len(t.Args))
		for i, a := range t.Args {
			parts[i] = a.String()
		}
		s = "union{" + strings.Join(parts, "|") + "}"
	case "varargs":
		s = "[" + argstr() + "]"
	case "struct":
		parts := make([]string, len(t.Args))
		for i, a := range t.Args {
			parts[i] = t.Names[i] + ":" + a.String()
		}
		s = "struct[" + t.Name + "]{" + strings.Join(parts, ",") + "}"
	case "lookup":
		s = "lookup(" + argstr() + ")"
	case "range", "next":
		s = t.Op + "(" + argstr() + ")"
	default:
		s = t.Op + "[" + t.Name + "](" + argstr() + ")"
	}
	t.str = s
	return s
}

// Expand renders t with loop phis written out as loopphi{init=..;back=..}.
func (t *Term) Expand() string {
	if t == nil {
		return "_"
	}
	if t.Op == "loopphi" {
		return t.Name + "{init=" + t.Args[0].Expand() + ";back=" + t.Args[1].Expand() + "}"
	}
	if len(t.Args) == 0 {
		return t.String()
	}
	s := t.String()
	for _, a := range t.Args {
		if a != nil && strings.Contains(a.Expand(), "{init=") {
			s = strings.Replace(s, a.String(), a.Expand(), 1)
		}
	}
	return s
}

// IsConst tells whether t is the constant with the given rendering.
func (t *Term) IsConst(name string) bool { return t != nil && t.Op == "const" && t.Name == name }

// IsNil tells whether t is the nil constant.
func (t *Term) IsNil() bool { return t.IsConst("nil") }

// Walk visits t and all sub-terms.
func (t *Term) Walk(f func(*Term)) {
	if t == nil {
		return
	}
	f(t)
	for _, a := range t.Args {
		a.Walk(f)
	}
}

// Contains tells whether some sub-term has the given rendering.
func (t *Term) Contains(s string) bool {
	found := false
	t.Walk(func(x *Term) {
		if x.String() == s {
			found = true
		}
	})
	return found
}

// Subst replaces parameter / free-variable leaves according to m (keyed by their names).
func (t *Term) Subst(m map[string]*Term) *Term {
	if t == nil {
		return nil
	}
	if t.Op == "param" || t.Op == "freevar" {
		if r, ok := m[t.Name]; ok {
			return r
		}
		return t
	}
	if len(t.Args) == 0 && len(t.Bind) == 0 {
		return t
	}
	changed := len(t.Bind) > 0
	args := make([]*Term, len(t.Args))
	for i, a := range t.Args {
		args[i] = a.Subst(m)
		if args[i] != a {
			changed = true
		}
	}
	if !changed {
		return t
	}
	n := &Term{Op: t.Op, Name: t.Name, Args: args, Val: t.Val, Names: t.Names, Env: t.Env}
	for _, b := range t.Bind {
		n.Bind = append(n.Bind, b.Subst(m))
	}
	// loads of an address that became a value after substitution
	return simplify(n)
}

func simplify(t *Term) *Term {
	switch t.Op {
	case "field":
		// a field of a struct value whose fields are known
		if x := t.Args[0]; x != nil && x.Op == "struct" {
			for i, n := range x.Names {
				if n == t.Name {
					return x.Args[i]
				}
			}
		}
	case "load":
		a := t.Args[0]
		switch a.Op {
		case "fieldaddr":
			return &Term{Op: "field", Name: a.Name, Args: a.Args, Val: t.Val}
		case "elemaddr":
			return &Term{Op: "elem", Args: a.Args, Val: t.Val}
		}
	case "len":
		// a conversion between types with the same underlying type keeps the value: len(string(cmd)) is len(cmd)
		if in := changeTypeOperand(t.Args[0]); in != nil {
			return simplify(&Term{Op: "len", Args: []*Term{in}, Val: t.Val})
		}
	case "elem":
		if in := changeTypeOperand(t.Args[0]); in != nil {
			return simplify(&Term{Op: "elem", Args: []*Term{in, t.Args[1]}, Val: t.Val})
		}
		// constant string indexed by a constant: the byte
		if a, i := t.Args[0], t.Args[1]; a.Op == "const" && i.Op == "const" && strings.HasPrefix(a.Name, "\"") {
			if s, err := strconv.Unquote(a.Name); err == nil {
				if k, err := strconv.Atoi(i.Name); err == nil && k >= 0 && k < len(s) {
					return &Term{Op: "const", Name: strconv.Itoa(int(s[k])), Val: t.Val}
				}
			}
		}
	case "call":
		// bytes.Equal(a, b) is string(a) == string(b) (the form the standard library documents it as)
		if t.Name == "bytes.Equal" && len(t.Args) == 2 {
			return simplify(&Term{Op: "eq", Val: t.Val, Args: []*Term{
				{Op: "conv", Name: "string", Args: []*Term{t.Args[0]}, Val: t.Val},
				{Op: "conv", Name: "string", Args: []*Term{t.Args[1]}, Val: t.Val}}})
		}
	case "eq":
		// string(cmd) == "/" is cmd == "/"; string(a) == string(b) is a == b when a and b have one type
		a, b := t.Args[0], t.Args[1]
		ia, ib := changeTypeOperand(a), changeTypeOperand(b)
		switch {
		case ia != nil && b.Op == "const":
			return simplify(&Term{Op: "eq", Args: []*Term{ia, b}, Val: t.Val})
		case ib != nil && a.Op == "const":
			return simplify(&Term{Op: "eq", Args: []*Term{a, ib}, Val: t.Val})
		case ia != nil && ib != nil && ia.Val != nil && ib.Val != nil && types.Identical(ia.Val.Type(), ib.Val.Type()):
			return simplify(&Term{Op: "eq", Args: []*Term{ia, ib}, Val: t.Val})
		}
		if t.Args[0].String() > t.Args[1].String() {
			return &Term{Op: "eq", Args: []*Term{t.Args[1], t.Args[0]}, Val: t.Val}
		}
	}
	return t
}

// changeTypeOperand returns x when t is T(x) for a conversion that only changes the named type (same
// underlying type, same value).
func changeTypeOperand(t *Term) *Term {
	if t == nil || t.Op != "conv" || len(t.Args) != 1 {
		return nil
	}
	if _, ok := t.Val.(*ssa.ChangeType); !ok {
		return nil
	}
	return t.Args[0]
}

func constTerm(c *ssa.Const) *Term {
	if c.Value == nil {
		// nil or zero value of an aggregate
		if isNilable(c.Type()) {
			return mk("const", "nil", c)
		}
		return mk("const", "zero:"+Short(c.Type().String()), c)
	}
	switch c.Value.Kind() {
	case constant.String:
		return mk("const", fmt.Sprintf("%q", constant.StringVal(c.Value)), c)
	case constant.Bool:
		return mk("const", c.Value.String(), c)
	default:
		return mk("const", c.Value.ExactString(), c)
	}
}

func isNilable(t types.Type) bool {
	switch t.Underlying().(type) {
	case *types.Pointer, *types.Interface, *types.Slice, *types.Map, *types.Chan, *types.Signature:
		return true
	case *types.Basic:
		return t.Underlying().(*types.Basic).Kind() == types.UntypedNil || t.Underlying().(*types.Basic).Kind() == types.UnsafePointer
	}
	return false
}

// FuncName is the canonical short name of a function.
func FuncName(f *ssa.Function) string {
	if a, ok := Alias[f]; ok {
		return a
	}
	if par := f.Parent(); par != nil {
		// closures are named after their (possibly aliased) parent
		if _, aliased := Alias[rootParent(f)]; aliased {
			for i, af := range par.AnonFuncs {
				if af == f {
					return FuncName(par) + "$" + strconv.Itoa(i+1)
				}
			}
		}
	}
	return Short(f.String())
}

func rootParent(f *ssa.Function) *ssa.Function {
	for f.Parent() != nil {
		f = f.Parent()
	}
	return f
}

// Alias maps a renamed unexported function to the canonical (frozen) name under which the rules
// know it; filled by the loader when a frozen anchor name is missing and exactly one function of
// the same package, receiver and signature has an unknown name.
var Alias = map[*ssa.Function]string{}

// FieldAlias maps a renamed unexported struct field to the canonical (frozen) name under which the rules
// know it; filled by the loader when a frozen field name is missing from its struct and exactly one new
// field of the same type took its place.
var FieldAlias = map[*types.Var]string{}

// FieldName is the canonical name of a struct field.
func FieldName(v *types.Var) string {
	if a, ok := FieldAlias[v]; ok {
		return a
	}
	return v.Name()
}

func binopName(op token.Token) string {
	switch op {
	case token.ADD:
		return "add"
	case token.SUB:
		return "sub"
	case token.MUL:
		return "mul"
	case token.QUO:
		return "div"
	case token.REM:
		return "rem"
	case token.AND:
		return "and"
	case token.OR:
		return "or"
	case token.XOR:
		return "xor"
	case token.SHL:
		return "shl"
	case token.SHR:
		return "shr"
	case token.AND_NOT:
		return "andnot"
	}
	return "binop" + op.String()
}

func unionOf(ts []*Term) *Term {
	seen := map[string]*Term{}
	var keys []string
	for _, t := range ts {
		if t.Op == "union" {
			for _, a := range t.Args {
				if _, ok := seen[a.String()]; !ok {
					seen[a.String()] = a
					keys = append(keys, a.String())
				}
			}
			continue
		}
		if _, ok := seen[t.String()]; !ok {
			seen[t.String()] = t
			keys = append(keys, t.String())
		}
	}
	sort.Strings(keys)
	if len(keys) == 1 {
		return seen[keys[0]]
	}
	out := &Term{Op: "union"}
	for _, k := range keys {
		out.Args = append(out.Args, seen[k])
	}
	return out
}

// TrivialWrapper tells whether f is straight-line code that only forwards to one call and returns
// that call's results unchanged (`func (t *T) ToX(k K) ([]byte, error) { return t.Encode(k, x.Encode) }`):
// such functions are spliced into their callers' paths, so a rule sees the same terms whether a
// caller goes through the wrapper or calls the wrapped function directly.
func TrivialWrapper(f *ssa.Function) bool {
	if f == nil || len(f.Blocks) != 1 || f.Synthetic != "" || f.Parent() != nil || f.Recover != nil {
		return false
	}
	ins := f.Blocks[0].Instrs
	ret, ok := ins[len(ins)-1].(*ssa.Return)
	if !ok || len(ret.Results) == 0 {
		return false
	}
	var last *ssa.Call
	for _, in := range ins {
		switch in := in.(type) {
		case *ssa.Call:
			last = in
		case *ssa.Defer, *ssa.Go, *ssa.Store, *ssa.MapUpdate, *ssa.Send, *ssa.Panic, *ssa.MakeClosure:
			return false
		}
	}
	if last == nil {
		return false
	}
	if len(ret.Results) == 1 {
		return ret.Results[0] == ssa.Value(last)
	}
	for i, r := range ret.Results {
		e, ok := r.(*ssa.Extract)
		if !ok || e.Tuple != ssa.Value(last) || e.Index != i {
			return false
		}
	}
	return true
}

// Raw is a leaf that renders as the given text (used to build expected terms).
func Raw(s string) *Term { return &Term{Op: "param", Name: s} }

// WrapperBody gives, for a function that callers see through (Inlineable and TrivialWrapper),
// the term of its result in terms of its parameters, with nested wrappers expanded.
func WrapperBody(f *ssa.Function, depth int) *Term {
	if f == nil || !TrivialWrapper(f) || Inlineable == nil || !Inlineable(f) || depth > MaxInlineDepth {
		return nil
	}
	ins := f.Blocks[0].Instrs
	ret := ins[len(ins)-1].(*ssa.Return)
	var v ssa.Value = ret.Results[0]
	if e, ok := v.(*ssa.Extract); ok {
		v = e.Tuple
	}
	return expandWrappers(DetachedTerm(f, v), depth+1)
}

func expandWrappers(t *Term, depth int) *Term {
	if t == nil {
		return nil
	}
	args := make([]*Term, len(t.Args))
	changed := false
	for i, a := range t.Args {
		args[i] = expandWrappers(a, depth)
		changed = changed || args[i] != a
	}
	n := t
	if changed {
		n = simplify(&Term{Op: t.Op, Name: t.Name, Args: args, Val: t.Val, Bind: t.Bind, Names: t.Names})
	}
	if n.Op == "call" {
		if c, ok := n.Val.(*ssa.Call); ok {
			if g := StaticCallee(c); g != nil {
				if body := WrapperBody(g, depth); body != nil {
					return body.Subst(BindArgs(g, n))
				}
			}
		}
	}
	return n
}

// CallString renders a call of f with the given argument renderings the way a caller's path shows
// it: calls to trivial wrappers appear as the call they forward to.
func CallString(f *ssa.Function, name string, args ...string) string {
	if body := WrapperBody(f, 0); body != nil {
		sub := map[string]*Term{}
		for i, p := range f.Params {
			if i < len(args) {
				sub[paramName(f, p)] = Raw(args[i])
			}
		}
		return body.Subst(sub).String()
	}
	return "call[" + name + "](" + strings.Join(args, ",") + ")"
}
