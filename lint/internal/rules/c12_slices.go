package rules

import (
	"fmt"
	"math"
	"math/big"
	"strings"

	"golang.org/x/tools/go/ssa"

	"verif/lint/internal/paths"
)

// sliceTable (C12.R6): resolveSliceIndices is a piecewise-linear function of (start, end, length): its paths
// test and return only integer constants, slice[0], slice[1], length and sums / differences / negations of
// these. Such a function is decided by its value on one representative of every region delimited by the
// comparisons: the path conditions read off the CFG are evaluated (exact integer arithmetic, with the 64-bit
// wrap-around of the machine operations checked) on a grid that contains, for every length in a set of
// representative lengths, the open-bound sentinels and every breakpoint (0, +/-length, the other bound) with
// its two neighbours, and the result of the unique path whose conditions hold is compared with Python's slice
// semantics: a negative bound counts from the end, bounds are clamped to [0, length], an omitted start is 0, an
// omitted end is length, start >= end selects nothing. Terms of any other shape are reported as unrecognised:
// the rule then decides nothing rather than guessing. It does not matter how the function is written (switch,
// if-chains, helpers, min/max): only the function it computes is compared.
func sliceTable(x *Ctx) {
	f := x.fn("C12.R6", selPkg+"resolveSliceIndices")
	if f == nil {
		return
	}
	ps := x.paths("C12.R6", f)
	if ps == nil {
		return
	}
	minI, maxI := big.NewInt(math.MinInt64), big.NewInt(math.MaxInt64)
	var evalErr string
	var eval func(t *paths.Term, s, e, n *big.Int) *big.Int
	wrap := func(v *big.Int, what string) *big.Int {
		if v.Cmp(minI) < 0 || v.Cmp(maxI) > 0 {
			evalErr = "64-bit overflow in " + what
		}
		return v
	}
	eval = func(t *paths.Term, s, e, n *big.Int) *big.Int {
		if t == nil {
			evalErr = "nil term"
			return new(big.Int)
		}
		switch t.Op {
		case "const":
			v, ok := new(big.Int).SetString(t.Name, 10)
			if !ok {
				evalErr = "non-integer constant " + t.Name
				return new(big.Int)
			}
			return v
		case "param":
			if t.Name == "arg1" {
				return n
			}
		case "elem":
			if t.Args[0].String() == "arg0" && t.Args[1].Op == "const" {
				switch t.Args[1].Name {
				case "0":
					return s
				case "1":
					return e
				}
			}
		case "add":
			return wrap(new(big.Int).Add(eval(t.Args[0], s, e, n), eval(t.Args[1], s, e, n)), t.String())
		case "sub":
			return wrap(new(big.Int).Sub(eval(t.Args[0], s, e, n), eval(t.Args[1], s, e, n)), t.String())
		case "unop":
			if t.Name == "-" {
				return wrap(new(big.Int).Neg(eval(t.Args[0], s, e, n)), t.String())
			}
		case "call":
			if (strings.HasPrefix(t.Name, "builtin.min") || strings.HasPrefix(t.Name, "builtin.max")) && len(t.Args) >= 1 {
				best := eval(t.Args[0], s, e, n)
				for _, a := range t.Args[1:] {
					v := eval(a, s, e, n)
					if (strings.HasPrefix(t.Name, "builtin.min") && v.Cmp(best) < 0) || (strings.HasPrefix(t.Name, "builtin.max") && v.Cmp(best) > 0) {
						best = v
					}
				}
				return best
			}
		case "conv":
			if len(t.Args) == 1 && (t.Name == "int64" || t.Name == "int") {
				return eval(t.Args[0], s, e, n)
			}
		}
		evalErr = "term outside the piecewise-linear vocabulary: " + t.String()
		return new(big.Int)
	}
	holds := func(fc paths.Fact, s, e, n *big.Int) bool {
		a := fc.Atom
		var v bool
		switch {
		case a.Op == "eq" && len(a.Args) == 2 && a.String() == "eq(const(2),len(arg0))":
			v = true // the two-element slice the callers pass (C12.R4)
		case (a.Op == "eq" || a.Op == "lt") && len(a.Args) == 2:
			l, r := eval(a.Args[0], s, e, n), eval(a.Args[1], s, e, n)
			if a.Op == "eq" {
				v = l.Cmp(r) == 0
			} else {
				v = l.Cmp(r) < 0
			}
		case a.Op == "const" && (a.Name == "true" || a.Name == "false"):
			v = a.Name == "true"
		default:
			evalErr = "condition outside the vocabulary: " + a.String()
		}
		return v == fc.Pol
	}
	// Python semantics; MinInt64 / MaxInt64 stand for an omitted start / end
	clampIdx := func(v, n *big.Int) *big.Int {
		v = new(big.Int).Set(v)
		if v.Sign() < 0 {
			v.Add(v, n)
			if v.Sign() < 0 {
				v.SetInt64(0)
			}
		}
		if v.Cmp(n) > 0 {
			v.Set(n)
		}
		return v
	}
	ref := func(s, e, n *big.Int) (*big.Int, *big.Int) {
		var rs, re *big.Int
		if s.Cmp(minI) == 0 {
			rs = big.NewInt(0)
		} else {
			rs = clampIdx(s, n)
		}
		if e.Cmp(maxI) == 0 {
			re = new(big.Int).Set(n)
		} else {
			re = clampIdx(e, n)
		}
		return rs, re
	}
	safe := big.NewInt(1<<53 - 1)
	var lengths []*big.Int
	for _, v := range []int64{0, 1, 2, 3, 7} {
		lengths = append(lengths, big.NewInt(v))
	}
	lengths = append(lengths, new(big.Int).Set(safe), big.NewInt(math.MaxInt64))
	points := func(n *big.Int, sentinel *big.Int) []*big.Int {
		seen := map[string]bool{}
		var out []*big.Int
		add := func(v *big.Int) {
			// bounds written in a selector are within the safe-integer range (Parse), plus the sentinel
			if v.Cmp(sentinel) != 0 && (v.CmpAbs(safe) > 0) {
				return
			}
			if !seen[v.String()] {
				seen[v.String()] = true
				out = append(out, v)
			}
		}
		add(sentinel)
		for _, base := range []*big.Int{big.NewInt(0), n, new(big.Int).Neg(n), safe, new(big.Int).Neg(safe), big.NewInt(2), big.NewInt(-2)} {
			for d := int64(-1); d <= 1; d++ {
				add(new(big.Int).Add(base, big.NewInt(d)))
			}
		}
		return out
	}
	nEval, bad := 0, ""
	for _, n := range lengths {
		if bad != "" {
			break
		}
		for _, s := range points(n, minI) {
			for _, e := range points(n, maxI) {
				var hit []*paths.Path
				for _, p := range ps {
					ok := true
					for _, fc := range p.Facts {
						evalErr = ""
						if !holds(fc, s, e, n) {
							ok = false
							break
						}
						if evalErr != "" && !strings.HasPrefix(evalErr, "64-bit overflow") {
							x.C.Unresolved("C12.R6", "vocabulary:resolveSliceIndices", x.pos(f), evalErr)
							return
						}
						if evalErr != "" {
							bad += fmt.Sprintf("slice[%s:%s] on length %s: %s while evaluating the condition %s\n", s, e, n, evalErr, fc.Atom)
							ok = false
							break
						}
					}
					if ok {
						hit = append(hit, p)
					}
				}
				nEval++
				if len(hit) != 1 {
					bad += fmt.Sprintf("slice[%s:%s] on length %s: %d paths apply (expected exactly one)\n", s, e, n, len(hit))
					continue
				}
				p := hit[0]
				ws, we := ref(s, e, n)
				if p.End != paths.EndReturn {
					bad += fmt.Sprintf("slice[%s:%s] on length %s: ends in %s\n", s, e, n, p.End)
					continue
				}
				evalErr = ""
				rs := p.Results()
				gs, ge := eval(rs[0], s, e, n), eval(rs[1], s, e, n)
				if evalErr != "" {
					if strings.HasPrefix(evalErr, "64-bit overflow") {
						bad += fmt.Sprintf("slice[%s:%s] on length %s: %s\n", s, e, n, evalErr)
						continue
					}
					x.C.Unresolved("C12.R6", "vocabulary:resolveSliceIndices", x.pos(f), evalErr)
					return
				}
				emptyWant := ws.Cmp(we) >= 0
				emptyGot := gs.Cmp(ge) >= 0
				inRange := gs.Sign() >= 0 && ge.Cmp(n) <= 0 && gs.Cmp(ge) <= 0
				if !inRange || emptyWant != emptyGot || (!emptyWant && (gs.Cmp(ws) != 0 || ge.Cmp(we) != 0)) {
					bad += fmt.Sprintf("slice[%s:%s] on length %s resolves to [%s:%s], Python slicing gives [%s:%s]\n", show(s), show(e), n, gs, ge, ws, we)
				}
			}
		}
	}
	x.C.Extra["slice_table_points"] = nEval
	x.C.Obl("C12.R6", "python-clamping:resolveSliceIndices", x.pos(f),
		fmt.Sprintf("on each of %d representatives of the regions of (start, end, length) exactly one path applies and its result is Python's clamped slice, within [0, length] and ordered", nEval),
		bad == "" && nEval > 500, firstLines(bad, 12))
}

func show(v *big.Int) string {
	switch {
	case v.IsInt64() && v.Int64() == math.MinInt64:
		return "<omitted>"
	case v.IsInt64() && v.Int64() == math.MaxInt64:
		return "<omitted>"
	}
	return v.String()
}

func firstLines(s string, n int) string {
	ls := strings.Split(strings.TrimRight(s, "\n"), "\n")
	if len(ls) > n {
		return strings.Join(ls[:n], "\n") + fmt.Sprintf("\n... and %d more", len(ls)-n)
	}
	return strings.Join(ls, "\n")
}

var _ = ssa.Value(nil)
