package rules

import (
	"fmt"
	"go/types"
	"sort"
	"strings"

	"golang.org/x/tools/go/ssa"

	"verif/lint/internal/load"
	"verif/lint/internal/paths"
)

// boundCells (C04.R5): a token's bounds are pointers (*time.Time). The instant a bound points to must not change
// once the token is built, or an expired token becomes valid again. For every exported option constructor of
// the token packages (functions returning Option), the function it returns is enumerated in the context of its
// creator; for every pointer it stores into a *time.Time field of the token: the cell is allocated during that
// application (a fresh one per token), or it is a cell of the creator that the application does not write (a
// captured parameter: shared, but never rewritten), or it comes from the caller. A cell of the creator that is
// written by each application (one variable shared by all the tokens built from the option value) is reported;
// so is a package-level variable. A write of the cell's own value passed through an idempotent function of
// package time (Round, Truncate, UTC, Local, In with constant arguments: invocation.WithExpiration rounds its
// captured parameter in place) leaves the instant where the first application put it and is not a rewrite.
func boundCells(x *Ctx) {
	isTimePtr := func(t types.Type) bool {
		p, ok := t.Underlying().(*types.Pointer)
		return ok && p.Elem().String() == "time.Time"
	}
	var ctors []*ssa.Function
	for _, f := range x.P.ExportedAPI() {
		pp := x.P.PkgPathOf(f)
		if pp != load.Module+"/token/delegation" && pp != load.Module+"/token/invocation" {
			continue
		}
		res := f.Signature.Results()
		if res.Len() != 1 || f.Signature.Recv() != nil {
			continue
		}
		if n, ok := res.At(0).Type().(*types.Named); !ok || n.Obj().Name() != "Option" {
			continue
		}
		ctors = append(ctors, f)
	}
	sort.Slice(ctors, func(i, j int) bool { return load.ShortName(ctors[i]) < load.ShortName(ctors[j]) })
	for _, outer := range ctors {
		name := load.ShortName(outer)
		n, bad := 0, ""
		for _, op := range x.pathsQuiet(outer) {
			if op.End != paths.EndReturn || len(op.Results()) != 1 {
				continue
			}
			rf := x.returnedFunc(op, op.Results()[0])
			if rf == nil || len(rf.Fn.Params) == 0 {
				continue
			}
			tok := rf.Fn.Params[len(rf.Fn.Params)-1]
			for _, fv := range rf.Fn.FreeVars {
				_ = fv
			}
			tokT, ok := tok.Type().Underlying().(*types.Pointer)
			if !ok {
				continue
			}
			st, ok := tokT.Elem().Underlying().(*types.Struct)
			if !ok {
				continue
			}
			timeFields := map[string]bool{}
			for i := 0; i < st.NumFields(); i++ {
				if isTimePtr(st.Field(i).Type()) {
					timeFields[paths.FieldName(st.Field(i))] = true
				}
			}
			// an option that sets a bound sets it on each of its success paths: a path that succeeds without the store
			// leaves the token with the bound it had (an earlier option's), not with the one this option was given
			setSomewhere := map[string]bool{}
			for _, q := range rf.Paths {
				for k := range q.FieldStores(tok) {
					if timeFields[k] {
						setSomewhere[k] = true
					}
				}
			}
			for _, q := range rf.Paths {
				if q.End != paths.EndReturn || len(q.Results()) != 1 || q.Results()[0] == nil || !q.Results()[0].IsNil() {
					continue
				}
				st := q.FieldStores(tok)
				for k := range setSomewhere {
					if _, has := st[k]; !has {
						bad += fmt.Sprintf("%s: the option succeeds on a path that leaves %s as it was: the token keeps the bound it already had, not the instant the option was given\n", x.P.Pos(q.Ret.Pos()), k)
					}
				}
			}
			for _, q := range rf.Paths {
				// the option applies another time option: f(t) = WithX(instant)(t). That option's own obligation
				// covers the cell; the instant handed to it must be the caller's (or now + the caller's duration)
				if q.End == paths.EndReturn && len(q.Results()) == 1 {
					if r := q.Results()[0]; r != nil && r.Op == "dyncall" && len(r.Args) == 2 && r.Args[0] != nil && r.Args[0].Op == "call" && len(r.Args[0].Args) == 1 {
						for _, c := range ctors {
							if paths.FuncName(c) != r.Args[0].Name && load.ShortName(c) != r.Args[0].Name {
								continue
							}
							if c.Signature.Params().Len() == 1 && c.Signature.Params().At(0).Type().String() == "time.Time" {
								n++
								if inst := r.Args[0].Args[0]; !callerInstant(inst) {
									bad += fmt.Sprintf("%s: the option hands %s to %s: not the caller's instant (or now + the caller's duration)\n", x.P.Pos(q.Ret.Pos()), inst, load.ShortName(c))
								}
							}
						}
					}
				}
				stores := q.FieldStores(tok)
				var names []string
				for k := range stores {
					if timeFields[k] {
						names = append(names, k)
					}
				}
				sort.Strings(names)
				for _, fld := range names {
					v := stores[fld]
					n++
					switch {
					case v.IsNil():
					case v.Op == "alloc":
						a, _ := v.Val.(*ssa.Alloc)
						if a == nil {
							break
						}
						allocated, written := false, ""
						q.InstrsIn(func(in ssa.Instruction, c *paths.Ctx) {
							if in == ssa.Instruction(a) {
								allocated = true
							}
							if s, ok := in.(*ssa.Store); ok {
								if at := c.Term(s.Addr); at != nil && at.Op == "alloc" && at.Val == ssa.Value(a) && !idempotentRenormalisation(c.Term(s.Val)) && !selfRenormalisation(s) {
									written = x.P.Pos(s.Pos())
								}
							}
						})
						// the instant itself: the caller's value (possibly renormalised by an idempotent function of
						// package time), or now + the caller's duration; anything else (fields reassembled with
						// time.Date, a shifted copy) is another instant than the one the caller gave
						var val *paths.Term
						if lv := q.LastStore(a); lv != nil {
							val = lv
						}
						if val != nil && !callerInstant(val) {
							bad += fmt.Sprintf("%s: the option stores %s as %s: not the caller's instant (or now + the caller's duration)\n", x.P.Pos(a.Pos()), val, fld)
						}
						if !allocated && written != "" {
							bad += fmt.Sprintf("%s: the option stores the address of %s (declared at %s, outside the function applied to the token) into %s and writes it at %s on every application: all tokens built from one option value share the instant, and building the next token moves the bound of the earlier ones\n",
								x.P.Pos(a.Pos()), a.Comment, x.P.Pos(a.Pos()), fld, written)
						}
					case strings.HasPrefix(v.String(), "global("), v.Op == "global":
						bad += fmt.Sprintf("the option stores the address of a package-level variable (%s) into %s\n", v, fld)
					default:
						// the bound the token already had, kept or put back: the option then does not set what it was given
						// (which of two options wins depends on a comparison that each sibling has to get right)
						idx := len(rf.Fn.Params) - 1
						if rf.Fn.Signature.Recv() != nil {
							idx--
						}
						for tf := range timeFields {
							if strings.Contains(rf.Tr(v), fmt.Sprintf("arg%d.%s", idx, tf)) {
								bad += fmt.Sprintf("%s: on a path that succeeds the option stores %s as %s: the bound the token already had, not the instant the option was given\n", x.P.Pos(q.Ret.Pos()), rf.Tr(v), fld)
							}
						}
					}
				}
			}
		}
		if n > 0 {
			x.C.Obl("C04.R5", "bound-cell:"+name, x.pos(outer), "the instant a bound points to is a fresh cell per token, or a cell no application writes", bad == "", dedupLines(bad))
		}
	}
}

// idempotentRenormalisation: v = f(x, consts...) with f one of the idempotent methods of time.Time and x a plain
// value (the variable itself), so that applying the store twice gives what applying it once gave.
// selfRenormalisation: *p = (*p).Round(c) and the like: the cell is rewritten with an idempotent function of its own
// content, whatever that content was computed from.
func selfRenormalisation(s *ssa.Store) bool {
	c, ok := s.Val.(*ssa.Call)
	if !ok || len(c.Call.Args) == 0 {
		return false
	}
	h := c.Call.StaticCallee()
	if h == nil || h.Pkg == nil || h.Pkg.Pkg.Path() != "time" {
		return false
	}
	switch h.Name() {
	case "Round", "Truncate", "UTC", "Local":
	default:
		return false
	}
	for _, a := range c.Call.Args[1:] {
		if _, isC := a.(*ssa.Const); !isC {
			return false
		}
	}
	u, ok := c.Call.Args[0].(*ssa.UnOp)
	return ok && u.X == s.Addr
}

func idempotentRenormalisation(v *paths.Term) bool {
	if v == nil || v.Op != "call" || len(v.Args) == 0 {
		return false
	}
	switch v.Name {
	case "(time.Time).Round", "(time.Time).Truncate", "(time.Time).UTC", "(time.Time).Local", "(time.Time).In":
	default:
		return false
	}
	x := v.Args[0]
	hasCall := false
	x.Walk(func(t *paths.Term) {
		if t.Op == "call" || t.Op == "invoke" || t.Op == "dyncall" {
			hasCall = true
		}
	})
	if hasCall {
		return false
	}
	for _, a := range v.Args[1:] {
		if a.Op != "const" && a.Op != "global" {
			return false
		}
	}
	return true
}

// callerInstant: t is a parameter of the option constructor / of the option, time.Now().Add(parameter), or one
// of these passed through idempotent renormalisations of package time.
func callerInstant(t *paths.Term) bool {
	for t != nil && t.Op == "call" && len(t.Args) >= 1 {
		switch t.Name {
		case "(time.Time).Round", "(time.Time).Truncate", "(time.Time).UTC", "(time.Time).Local", "(time.Time).In":
			t = t.Args[0]
			continue
		}
		break
	}
	if t == nil {
		return false
	}
	plain := func(u *paths.Term) bool {
		if u == nil {
			return false
		}
		bad := false
		u.Walk(func(w *paths.Term) {
			if w.Op == "call" || w.Op == "invoke" || w.Op == "dyncall" || w.Op == "global" {
				bad = true
			}
		})
		return !bad
	}
	if plain(t) {
		return true
	}
	if t.Op == "call" && t.Name == "(time.Time).Add" && len(t.Args) == 2 && t.Args[0].Op == "call" && t.Args[0].Name == "time.Now" && plain(t.Args[1]) {
		return true
	}
	return false
}
