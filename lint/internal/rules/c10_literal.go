package rules

import (
	"fmt"
	"go/constant"
	"go/token"
	"go/types"
	"sort"
	"strings"

	"golang.org/x/tools/go/ssa"

	"verif/lint/internal/load"
)

// literalVerbatim (C10.R4): literal.Any turns a caller's Go value into the IPLD node that is stored ("stored
// exactly or rejected, never silently altered"). Every scalar handed to a node constructor (basicnode.New*,
// qp.String / Bytes / Bool / Int / Float, Assign*) in literal.Any, anyAssemble, their function literals and new
// helpers is the input itself: reached from a parameter through type assertions, conversions, loads, phis and
// the accessor methods of reflect.Value only. A call of anything else on the way (strings.ToValidUTF8, ToLower,
// TrimSpace, a normalising helper, ...) is reported with the call.
func literalVerbatim(x *Ctx) {
	for _, name := range []string{"pkg/policy/literal.Any", "pkg/policy/literal.anyAssemble", "pkg/policy/literal.LinkCid"} {
		f := x.fn("C10.R4", name)
		if f == nil {
			continue
		}
		var fns []*ssa.Function
		var add func(g *ssa.Function, depth int)
		add = func(g *ssa.Function, depth int) {
			for _, h := range fns {
				if h == g {
					return
				}
			}
			fns = append(fns, g)
			for _, a := range g.AnonFuncs {
				add(a, depth)
			}
			if depth >= 2 {
				return
			}
			for _, b := range g.Blocks {
				for _, in := range b.Instrs {
					if c, ok := in.(ssa.CallInstruction); ok {
						if h := c.Common().StaticCallee(); h != nil && len(h.Blocks) > 0 && x.P.IsNewHelper(h) {
							add(h, depth+1)
						}
					}
				}
			}
		}
		add(f, 0)
		n, bad := 0, ""
		for _, g := range fns {
			for _, b := range g.Blocks {
				for _, in := range b.Instrs {
					c, ok := in.(ssa.CallInstruction)
					if !ok {
						continue
					}
					cm := c.Common()
					var arg ssa.Value
					what := ""
					if cm.IsInvoke() {
						switch cm.Method.Name() {
						case "AssignString", "AssignBytes", "AssignBool", "AssignInt", "AssignFloat":
							arg, what = cm.Args[0], cm.Method.Name()
						}
					} else if h := cm.StaticCallee(); h != nil && h.Pkg != nil {
						pp := h.Pkg.Pkg.Path()
						switch {
						case pp == "github.com/ipld/go-ipld-prime/node/basicnode" && strings.HasPrefix(h.Name(), "New") && len(cm.Args) == 1:
							switch h.Name() {
							case "NewString", "NewBytes", "NewBool", "NewInt", "NewFloat", "NewLink":
								arg, what = cm.Args[0], "basicnode."+h.Name()
							}
						case pp == "github.com/ipld/go-ipld-prime/fluent/qp" && len(cm.Args) == 1:
							switch h.Name() {
							case "String", "Bytes", "Bool", "Int", "Float", "Link":
								arg, what = cm.Args[0], "qp."+h.Name()
							}
						}
					} else if u, ok := cm.Value.(*ssa.UnOp); ok && len(cm.Args) == 1 {
						// the package's own aliases of the node constructors (var Link = basicnode.NewLink, ...)
						if gl, ok := u.X.(*ssa.Global); ok && gl.Pkg != nil && gl.Pkg.Pkg.Path() == load.Module+"/pkg/policy/literal" {
							switch gl.Name() {
							case "String", "Bytes", "Bool", "Int", "Float", "Link":
								arg, what = cm.Args[0], "literal."+gl.Name()
							}
						}
					}
					if arg == nil {
						continue
					}
					n++
					if why := impureStep(x, arg, map[ssa.Value]bool{}, 0); why != "" {
						bad += fmt.Sprintf("%s: the value given to %s is not the caller's value itself: %s\n", x.P.Pos(in.Pos()), what, why)
					}
				}
			}
		}
		x.C.Obl("C10.R4", "verbatim:"+name, x.pos(f), fmt.Sprintf("each of the %d scalars handed to a node constructor is the input value, reached through assertions, conversions and reflect accessors only", n), bad == "" && n > 0, dedupLines(bad))
		// and no node is handed out that was built beforehand for "the same" value: equality of Go values is coarser
		// than identity of IPLD values (-0.0 == 0.0, NaN payloads)
		shared := ""
		for _, g := range fns {
			for _, b := range g.Blocks {
				for _, in := range b.Instrs {
					u, ok := in.(*ssa.UnOp)
					if !ok {
						continue
					}
					gl, ok := u.X.(*ssa.Global)
					if !ok || gl.Pkg == nil || !strings.HasPrefix(gl.Pkg.Pkg.Path(), load.Module) {
						continue
					}
					ts := u.Type().String()
					if _, isFunc := u.Type().Underlying().(*types.Signature); isFunc {
						continue // an alias of a constructor (var Link = basicnode.NewLink), not a node
					}
					if strings.HasSuffix(ts, "datamodel.Node") || strings.HasSuffix(ts, "ipld.Node") || strings.Contains(ts, "basicnode.") {
						if internedExactly(x, gl, u) {
							continue
						}
						shared += fmt.Sprintf("%s: %s reads the package-level node %s: a value that merely compares equal to the one it was built from would be replaced by it\n", x.P.Pos(in.Pos()), load.ShortName(g), gl.Name())
					}
				}
			}
		}
		noSubstituteNode(x, name, fns)
		x.C.Obl("C10.R4", "fresh-nodes:"+name, x.pos(f), "nodes are built from the caller's value; a package-level node stands in only for the one bool, integer or string it was built from", shared == "", dedupLines(shared))
	}
}

var reflectAccessors = map[string]bool{"String": true, "Bytes": true, "Bool": true, "Int": true, "Uint": true, "Float": true, "Interface": true,
	"Index": true, "MapIndex": true, "Elem": true, "Field": true, "Convert": true, "Len": true, "MapKeys": true}

// impureStep follows the definition of v back to the parameters; it returns a description of the first step that
// is not an assertion, conversion, load, phi, tuple extraction or reflect accessor ("" when there is none).
func impureStep(x *Ctx, v ssa.Value, seen map[ssa.Value]bool, depth int) string {
	if seen[v] || depth > 40 {
		return ""
	}
	seen[v] = true
	switch t := v.(type) {
	case *ssa.Parameter, *ssa.FreeVar, *ssa.Const, *ssa.Global:
		return ""
	case *ssa.TypeAssert:
		return impureStep(x, t.X, seen, depth+1)
	case *ssa.Extract:
		if c, ok := t.Tuple.(*ssa.Call); ok {
			if h := c.Call.StaticCallee(); h != nil && len(h.Blocks) > 0 && x.P.IsNewHelper(h) {
				// result #i of a new helper of the package: what it returns there must be made of its parameters
				for _, b := range h.Blocks {
					for _, in := range b.Instrs {
						if r, ok := in.(*ssa.Return); ok && t.Index < len(r.Results) {
							if w := impureStep(x, r.Results[t.Index], seen, depth+1); w != "" {
								return "helper " + load.ShortName(h) + ": " + w
							}
						}
					}
				}
				for _, a := range c.Call.Args {
					if w := impureStep(x, a, seen, depth+1); w != "" {
						return w
					}
				}
				return ""
			}
		}
		return impureStep(x, t.Tuple, seen, depth+1)
	case *ssa.Convert:
		// a conversion between a float and an integer changes the kind of the value that is stored
		if fb, ok := t.X.Type().Underlying().(*types.Basic); ok {
			if tb, ok := t.Type().Underlying().(*types.Basic); ok {
				if (fb.Info()&types.IsFloat != 0) != (tb.Info()&types.IsFloat != 0) && (fb.Info()|tb.Info())&types.IsNumeric != 0 && fb.Info()&types.IsNumeric != 0 && tb.Info()&types.IsNumeric != 0 {
					return "it is converted between float and integer: " + t.String()
				}
			}
		}
		return impureStep(x, t.X, seen, depth+1)
	case *ssa.ChangeType:
		return impureStep(x, t.X, seen, depth+1)
	case *ssa.ChangeInterface:
		return impureStep(x, t.X, seen, depth+1)
	case *ssa.MakeInterface:
		return impureStep(x, t.X, seen, depth+1)
	case *ssa.Phi:
		for _, e := range t.Edges {
			if w := impureStep(x, e, seen, depth+1); w != "" {
				return w
			}
		}
		return ""
	case *ssa.UnOp:
		if a, ok := t.X.(*ssa.Alloc); ok {
			for _, r := range *a.Referrers() {
				if st, ok := r.(*ssa.Store); ok && st.Addr == ssa.Value(a) {
					if w := impureStep(x, st.Val, seen, depth+1); w != "" {
						return w
					}
				}
				// a local struct filled field by field (cidlink.Link{Cid: c})
				if fa, ok := r.(*ssa.FieldAddr); ok {
					for _, r2 := range *fa.Referrers() {
						if st, ok := r2.(*ssa.Store); ok && st.Addr == ssa.Value(fa) {
							if w := impureStep(x, st.Val, seen, depth+1); w != "" {
								return w
							}
						}
					}
				}
			}
			return ""
		}
		if fv, ok := t.X.(*ssa.FreeVar); ok {
			// a captured variable assigned inside the literal: what is stored there counts
			for _, r := range *fv.Referrers() {
				if st, ok := r.(*ssa.Store); ok && st.Addr == ssa.Value(fv) {
					if w := impureStep(x, st.Val, seen, depth+1); w != "" {
						return w
					}
				}
			}
			return ""
		}
		return impureStep(x, t.X, seen, depth+1)
	case *ssa.IndexAddr:
		return impureStep(x, t.X, seen, depth+1)
	case *ssa.Index:
		return impureStep(x, t.X, seen, depth+1)
	case *ssa.Lookup:
		return impureStep(x, t.X, seen, depth+1)
	case *ssa.Slice:
		if t.Low == nil && t.High == nil {
			return impureStep(x, t.X, seen, depth+1)
		}
		return "a sub-slice " + t.String()
	case *ssa.Call:
		h := t.Call.StaticCallee()
		if h != nil && h.Pkg != nil && h.Pkg.Pkg.Path() == "reflect" {
			if h.Name() == "ValueOf" || (h.Signature.Recv() != nil && reflectAccessors[h.Name()]) {
				if len(t.Call.Args) > 0 {
					return impureStep(x, t.Call.Args[0], seen, depth+1)
				}
				return ""
			}
		}
		if h != nil && len(h.Blocks) > 0 && x.P.IsNewHelper(h) && h.Signature.Results().Len() == 1 {
			// a new helper of the package: what it returns must be its parameter, unchanged
			var rets []string
			for _, b := range h.Blocks {
				for _, in := range b.Instrs {
					if r, ok := in.(*ssa.Return); ok && len(r.Results) == 1 {
						if w := impureStep(x, r.Results[0], seen, depth+1); w != "" {
							rets = append(rets, w)
						}
					}
				}
			}
			if len(rets) > 0 {
				sort.Strings(rets)
				return "helper " + load.ShortName(h) + ": " + rets[0]
			}
			for _, a := range t.Call.Args {
				if w := impureStep(x, a, seen, depth+1); w != "" {
					return w
				}
			}
			return ""
		}
		name := t.Call.Value.String()
		if h != nil {
			name = h.String()
		}
		return "it is the result of " + name + " (" + x.P.Pos(t.Pos()) + ")"
	case *ssa.BinOp:
		return "it is computed: " + t.String()
	}
	return ""
}

// internedExactly: the read u of the package-level node gl happens only where the caller's value is known to be
// the very constant gl was built from, and for a type whose == is identity of the IPLD value (bool, integers,
// strings). Floats are not such a type: -0.0 == 0.0.
func internedExactly(x *Ctx, gl *ssa.Global, u *ssa.UnOp) bool {
	// the constant the node was built from: exactly one store, in the package initialiser
	var cv *ssa.Const
	stores := 0
	for _, m := range gl.Pkg.Members {
		g, ok := m.(*ssa.Function)
		if !ok {
			continue
		}
		fs := append([]*ssa.Function{g}, g.AnonFuncs...)
		for _, h := range fs {
			for _, b := range h.Blocks {
				for _, in := range b.Instrs {
					st, ok := in.(*ssa.Store)
					if !ok || st.Addr != ssa.Value(gl) {
						continue
					}
					stores++
					v := st.Val
					if mi, ok := v.(*ssa.MakeInterface); ok {
						v = mi.X
					}
					if c, ok := v.(*ssa.Call); ok && len(c.Call.Args) == 1 && h.Name() == "init" {
						if k, ok := c.Call.Args[0].(*ssa.Const); ok {
							if cal := c.Call.StaticCallee(); cal != nil && cal.Pkg != nil && cal.Pkg.Pkg.Path() == "github.com/ipld/go-ipld-prime/node/basicnode" {
								cv = k
							}
						}
					}
				}
			}
		}
	}
	if cv == nil || stores != 1 || cv.Value == nil {
		return false
	}
	if bt, ok := cv.Type().Underlying().(*types.Basic); !ok || bt.Info()&(types.IsBoolean|types.IsInteger|types.IsString) == 0 {
		return false
	}
	// the nearest test that decides whether the read happens
	b := u.Block()
	for d := b.Idom(); d != nil; b, d = d, d.Idom() {
		iff, ok := d.Instrs[len(d.Instrs)-1].(*ssa.If)
		if !ok {
			continue
		}
		var taken int = -1
		for i, sc := range d.Succs {
			if sc == b && len(sc.Preds) == 1 {
				taken = i
			}
		}
		if taken < 0 {
			continue
		}
		cond, want := iff.Cond, taken == 0
		for {
			if n, ok := cond.(*ssa.UnOp); ok && n.Op == token.NOT {
				cond, want = n.X, !want
				continue
			}
			break
		}
		if bo, ok := cond.(*ssa.BinOp); ok && (bo.Op == token.EQL || bo.Op == token.NEQ) {
			if bo.Op == token.NEQ {
				want = !want
			}
			for _, pr := range [][2]ssa.Value{{bo.X, bo.Y}, {bo.Y, bo.X}} {
				k, ok := pr[1].(*ssa.Const)
				if !ok || k.Value == nil || !want {
					continue
				}
				if constant.Compare(k.Value, token.EQL, cv.Value) && impureStep(x, pr[0], map[ssa.Value]bool{}, 0) == "" {
					return true
				}
			}
			return false
		}
		// a bool value tested directly
		if cv.Value.Kind() == constant.Bool && impureStep(x, cond, map[ssa.Value]bool{}, 0) == "" {
			return constant.BoolVal(cv.Value) == want
		}
		return false
	}
	return false
}
