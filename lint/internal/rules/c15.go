package rules

import (
	"fmt"
	"strings"

	"golang.org/x/tools/go/ssa"

	"verif/lint/internal/load"

	"verif/lint/internal/paths"
	"verif/lint/internal/report"
)

func init() {
	register(&Property{
		Meta: report.Meta{
			Property:    "C15",
			Explanation: "Decision tables read off the CFG of command.Covers and command.Parse. Covers: no 'true' path without HasPrefix(other, c) (roles checked) and without one of the boundary facts {c == \"/\", len(c) == len(other), other[len(c)] == '/'}; no 'false' path when the prefix fact and any boundary fact hold. Parse: no success without leading slash, with a trailing slash on a longer string, or with a string that differs from its lower-casing; success returns the input unchanged; a string satisfying the three conditions is never rejected. Top/Join/Segments use the single separator \"/\". The order axioms follow from this shape but are runtime-value clauses and are not decided. (R4) Join: in its loop over the segments an iteration leaves the buffer unchanged only for an empty segment and otherwise appends [one separator, unless the buffer holds only the root] and the whole segment; the result is the buffer started from the receiver. Segments and its callees in the package use no package-level variable (its result belongs to the caller). A strings.SplitN in Segments has a negative count.",
			Assumptions: []string{"strings.HasPrefix/HasSuffix/ToLower/Split semantics"},
			Trusted:     []string{"golang.org/x/tools/go/ssa v0.29.0", "package strings"},
			NotDecided:  []string{"reflexivity/antisymmetry/transitivity as such (they follow from the prefix+boundary shape for valid commands)", "Join on segments that themselves contain '/'"},
		},
		Run: runC15,
	})
}

func runC15(x *Ctx) {
	x.C.Rule("C15.R1", "Covers = textual prefix AND segment boundary", 6)
	x.C.Rule("C15.R2", "Parse grammar: leading slash, no trailing slash, lower case, input returned unchanged", 7)
	x.C.Rule("C15.R4", "Join appends whole non-empty segments, one separator each", 2)
	x.C.Rule("C15.R3", "single separator constant in Top / Join / Segments; Segments keeps all segments (unbounded split, empty ones kept) and hands out its own slice", 5)

	if f := x.fn("C15.R1", "(pkg/command.Command).Covers"); f != nil {
		// accepted renderings of the two facts (today's HasPrefix form and the strings.CutPrefix form)
		cut := "call[strings.CutPrefix](conv[string](arg0),conv[string](recv))"
		rest := cut + "#0"
		prefixAtoms := []string{"call[strings.HasPrefix](conv[string](arg0),conv[string](recv))", cut + "#1"}
		boundaryAtoms := []string{
			`eq(const("/"),recv)`, "eq(len(arg0),len(recv))", "eq(arg0[len(recv)],const(47))",
			eqs(rest, `const("")`), eqs("len("+rest+")", "const(0)"), eqs(rest+"[const(0)]", "const(47)"), "call[strings.HasPrefix](" + rest + `,const("/"))`,
		}
		all := func(names []string, v bool) map[string]bool {
			m := map[string]bool{}
			for _, n := range names {
				m[n] = v
			}
			return m
		}
		// which of them occur in the function
		used := map[string]bool{}
		for _, p := range x.pathsQuiet(f) {
			for _, fc := range p.Facts {
				used[fc.Atom.String()] = true
			}
			if p.End == paths.EndReturn {
				if _, _, a, _ := p.BoolResult(0); a != nil {
					used[a.String()] = true
				}
			}
		}
		x.noPath("C15.R1", "prefix-required", f, paths.WantTrue, atoms(all(prefixAtoms, false)), 0,
			"Covers never returns true unless the other command has the receiver as textual prefix (strings.HasPrefix / CutPrefix of other by c)")
		x.noPath("C15.R1", "boundary-required", f, paths.WantTrue, atoms(all(boundaryAtoms, false)), 0,
			"Covers never returns true on a bare textual prefix: c == \"/\", or nothing follows the prefix, or a '/' follows it")
		nP, nB := 0, 0
		for _, pa := range prefixAtoms {
			if !used[pa] {
				continue
			}
			nP++
			for _, ba := range boundaryAtoms {
				if !used[ba] {
					continue
				}
				nB++
				x.noPath("C15.R1", "covers:"+shortAtom(ba), f, paths.WantFalse, atoms(map[string]bool{pa: true, ba: true}), 0, "prefix and boundary ("+shortAtom(ba)+") together imply coverage: no 'false' path")
			}
		}
		x.C.Obl("C15.R1", "facts-present", x.pos(f), "Covers tests a prefix fact and at least the three boundary cases (top, equal, separator)", nP >= 1 && nB >= 3, fmt.Sprintf("%d prefix form(s), %d boundary fact(s) found", nP, nB))
		x.somePath("C15.R1", "covers:reachable", f, paths.WantTrue, paths.None, 0, "some path returns true")
	}
	if f := x.fn("C15.R2", "pkg/command.Parse"); f != nil {
		lead := `call[strings.HasPrefix](arg0,const("/"))`
		long := "lt(const(1),len(arg0))"
		trail := `call[strings.HasSuffix](arg0,const("/"))`
		lower := "eq(arg0,call[strings.ToLower](arg0))"
		x.noPath("C15.R2", "leading-slash", f, paths.WantSuccess, atoms(map[string]bool{lead: false}), 0, "no success without a leading slash")
		x.noPath("C15.R2", "trailing-slash", f, paths.WantSuccess, atoms(map[string]bool{long: true, trail: true}), 0, "no success with a trailing slash on a string longer than \"/\"")
		x.noPath("C15.R2", "lower-case", f, paths.WantSuccess, atoms(map[string]bool{lower: false}), 0, "no success when the string differs from its lower-casing")
		x.noPath("C15.R2", "accepts:valid", f, paths.WantFailure, atoms(map[string]bool{lead: true, trail: false, lower: true}), 0, "a string with leading slash, no trailing slash and lower case is never rejected")
		x.noPath("C15.R2", "accepts:top", f, paths.WantFailure, atoms(map[string]bool{lead: true, long: false, lower: true}), 0, "the string \"/\" is never rejected")
		vs := x.somePath("C15.R2", "accepts:reachable", f, paths.WantSuccess, paths.None, 0, "some path succeeds")
		ok := len(vs) > 0
		detail := ""
		for _, v := range vs {
			if r := v.Results()[0].String(); r != "conv[pkg/command.Command](arg0)" {
				ok = false
				detail += "success returns " + r + "\n"
			}
		}
		x.C.Obl("C15.R2", "unchanged", x.pos(f), "success returns the input string unchanged (converted to Command)", ok, detail)
	}
	joinRule(x)
	// separator
	sepOK := func(name string, want int) {
		f := x.fn("C15.R3", name)
		if f == nil {
			return
		}
		bad := ""
		n := 0
		// the function and the helpers spliced into its paths
		seenIn := map[ssa.Instruction]bool{}
		var instrs []ssa.Instruction
		for _, b := range f.Blocks {
			for _, in := range b.Instrs {
				seenIn[in] = true
				instrs = append(instrs, in)
			}
		}
		for _, p := range x.pathsQuiet(f) {
			p.Instrs(func(in ssa.Instruction) {
				if !seenIn[in] {
					seenIn[in] = true
					instrs = append(instrs, in)
				}
			})
		}
		for _, in := range instrs {
			for _, op := range in.Operands(nil) {
				if c, ok := (*op).(*ssa.Const); ok && c.Value != nil && strings.HasPrefix(c.Value.ExactString(), "\"") {
					n++
					if c.Value.ExactString() != `"/"` && c.Value.ExactString() != `""` {
						bad += "string constant " + c.Value.ExactString() + " at " + x.P.Pos(in.Pos()) + "\n"
					}
				}
			}
		}
		x.C.Obl("C15.R3", "separator:"+name, x.pos(f), "the only non-empty string constant used is the separator \"/\"", bad == "" && n >= want, bad)
	}
	// Segments keeps every segment, empty ones included ("/a//b" has the segments a, "", b): only the splitting
	// functions that keep empty fields may be used (Fields / FieldsFunc / Trim* collapse or drop separators, and
	// two different commands would then have the same segments)
	if f := x.fn("C15.R3", "(pkg/command.Command).Segments"); f != nil {
		allowed := map[string]bool{"strings.Split": true, "strings.SplitN": true, "strings.Cut": true, "strings.Index": true, "strings.IndexByte": true,
			"strings.HasPrefix": true, "strings.TrimPrefix": true, "strings.CutPrefix": true, "strings.Count": true}
		bad, n := "", 0
		for _, p := range x.pathsQuiet(f) {
			for _, c := range p.Calls() {
				ct := p.Term(c)
				if ct.Op == "call" && strings.HasPrefix(ct.Name, "strings.") {
					n++
					if !allowed[ct.Name] {
						bad += x.P.Pos(c.Pos()) + ": " + ct.Name + " in Segments: it does not keep empty segments apart\n"
					}
					// SplitN with a positive count stops splitting: the rest of the command ends up in the last segment
					if ct.Name == "strings.SplitN" && len(ct.Args) == 3 && !(ct.Args[2].Op == "const" && strings.HasPrefix(ct.Args[2].Name, "-")) {
						bad += x.P.Pos(c.Pos()) + ": strings.SplitN(.., " + ct.Args[2].String() + ") in Segments: beyond that many segments the command is no longer split\n"
					}
				}
			}
		}
		x.C.Obl("C15.R3", "segments:keeps-empty", x.pos(f), "Segments splits with functions that keep empty segments (Split / SplitN / Cut / Index)", bad == "", dedupLines(bad))
		// the slice handed out belongs to the caller: Segments and what it calls in the package touch no
		// package-level variable (a memo table would hand the same backing array to every caller, and an edit
		// by one of them changes the segments every later caller sees)
		shared := ""
		for g := range x.P.Reach([]*ssa.Function{f}) {
			if !x.P.IsLibrary(g) || x.P.PkgPathOf(g) != x.P.PkgPathOf(f) {
				continue
			}
			for _, b := range g.Blocks {
				for _, in := range b.Instrs {
					for _, op := range in.Operands(nil) {
						if gl, ok := (*op).(*ssa.Global); ok && gl.Pkg != nil && x.P.PkgPathOf(f) == gl.Pkg.Pkg.Path() {
							shared += x.P.Pos(in.Pos()) + ": " + load.ShortName(g) + " uses the package-level variable " + gl.Name() + "\n"
						}
					}
				}
			}
		}
		x.C.Obl("C15.R3", "segments:own-result", x.pos(f), "Segments computes its result from the command alone: no package-level variable is read or written on the way", shared == "", dedupLines(shared))
	}
	sepOK("pkg/command.Top", 1)
	sepOK("(pkg/command.Command).Join", 1)
	sepOK("(pkg/command.Command).Segments", 1)
}

// joinRule: Command.Join builds its result in one loop over the segments given: an empty segment leaves the
// buffer unchanged, a non-empty one is appended whole, preceded by exactly one separator unless the buffer
// holds only the root "/". (A Join that lets an empty segment through produces "//x" or a trailing "/":
// commands that Parse refuses and that Covers compares wrongly.)
func joinRule(x *Ctx) {
	f := x.fn("C15.R4", "(pkg/command.Command).Join")
	if f == nil {
		return
	}
	var l *paths.Loop
	var acc *ssa.Phi
	for _, la := range loopsIn(f) {
		if la.L.Fn != f {
			continue
		}
		for _, phi := range la.L.HeaderPhis() {
			if phi.Type().String() == "[]byte" {
				l, acc = la.L, phi
			}
		}
	}
	if l == nil || l.IV == nil {
		x.C.Unresolved("C15.R4", "loop:Join", x.pos(f), "no counted loop over the segments with a []byte accumulator found (Join re-implemented?)")
		return
	}
	pt := paths.DetachedTerm(f, acc).String()
	seg := "arg0[" + ivName(l) + "]"
	empty := eqs(seg, `const("")`)
	strip := func(t *paths.Term) *paths.Term {
		for t != nil && t.Op == "conv" && len(t.Args) == 1 {
			t = t.Args[0]
		}
		return t
	}
	isAppend := func(t *paths.Term) (*paths.Term, *paths.Term, bool) {
		if t != nil && t.Op == "call" && t.Name == "builtin.append" && len(t.Args) == 2 {
			return t.Args[0], strip(t.Args[1]), true
		}
		return nil, nil, false
	}
	bad, n := "", 0
	for _, p := range x.pathsQuiet(f) {
		if p.End != paths.EndLatch || p.Latch != l.Header {
			continue
		}
		n++
		nv := p.LatchValue(acc)
		if nv == nil {
			bad += "an iteration whose buffer value cannot be read\n"
			continue
		}
		if nv.String() == pt {
			if !p.HasFact(empty, true) {
				bad += "an iteration leaves the buffer unchanged without knowing the segment to be empty (a segment would be dropped)\n"
			}
			continue
		}
		a, last, ok := isAppend(nv)
		if !ok || last.String() != seg {
			bad += "an iteration turns the buffer into " + nv.String() + "\n"
			continue
		}
		if !p.HasFact(empty, false) {
			bad += "a segment is appended without knowing it to be non-empty: an empty segment would add a bare separator\n"
		}
		rootOnly := "lt(const(1),len(" + pt + "))"
		if a.String() == pt {
			if !p.HasFact(rootOnly, false) {
				bad += "a segment is appended without a separator although the buffer may hold more than the root\n"
			}
			continue
		}
		a2, sep, ok2 := isAppend(a)
		if !ok2 || a2.String() != pt || !sep.IsConst(`"/"`) {
			bad += "an iteration turns the buffer into " + nv.String() + "\n"
			continue
		}
		if !p.HasFact(rootOnly, true) {
			bad += "a separator is appended although the buffer may hold only the root \"/\"\n"
		}
	}
	x.C.Obl("C15.R4", "join:segments", x.pos(f), "each iteration of Join appends nothing for an empty segment and [separator +] the whole segment otherwise", bad == "" && n >= 3, dedupLines(bad))
	// the result is the buffer, starting from the receiver's own text
	okRes, nRes := true, 0
	for _, p := range x.pathsQuiet(f) {
		if p.End != paths.EndReturn {
			continue
		}
		r := p.Results()[0]
		if r.String() == "recv" {
			continue // nothing to add
		}
		nRes++
		if strip(r).String() != pt {
			okRes = false
		}
	}
	init := paths.DetachedTerm(f, acc).Args[0]
	a0, first, okInit := isAppend(init)
	okInit = okInit && first.String() == "recv" && a0.Op == "make"
	x.C.Obl("C15.R4", "join:result", x.pos(f), "Join returns the buffer, which starts as the receiver's text", okRes && nRes >= 1 && okInit, "initial buffer: "+init.String())
}

func shortAtom(a string) string {
	switch {
	case strings.Contains(a, `const("/"),recv`):
		return "top"
	case strings.Contains(a, "len(arg0),len(recv)") || strings.HasSuffix(a, `const(""))`) || strings.Contains(a, "const(0),len(") || strings.Contains(a, "),const(0))"):
		return "equal"
	}
	return "child"
}
