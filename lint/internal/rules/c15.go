package rules

import (
	"fmt"
	"strings"

	"golang.org/x/tools/go/ssa"

	"verif/lint/internal/paths"
	"verif/lint/internal/report"
)

func init() {
	register(&Property{
		Meta: report.Meta{
			Property:    "C15",
			Explanation: "Decision tables read off the CFG of command.Covers and command.Parse. Covers: no 'true' path without HasPrefix(other, c) (roles checked) and without one of the boundary facts {c == \"/\", len(c) == len(other), other[len(c)] == '/'}; no 'false' path when the prefix fact and any boundary fact hold. Parse: no success without leading slash, with a trailing slash on a longer string, or with a string that differs from its lower-casing; success returns the input unchanged; a string satisfying the three conditions is never rejected. Top/Join/Segments use the single separator \"/\". The order axioms follow from this shape but are runtime-value clauses and are not decided.",
			Assumptions: []string{"strings.HasPrefix/HasSuffix/ToLower/Split semantics"},
			Trusted:     []string{"golang.org/x/tools/go/ssa v0.29.0", "package strings"},
			NotDecided:  []string{"reflexivity/antisymmetry/transitivity as such (they follow from the prefix+boundary shape for valid commands)", "Join on segments that themselves contain '/'"},
		},
		Run: runC15,
	})
}

func runC15(x *Ctx) {
	x.C.Rule("C15.R1", "Covers = textual prefix AND segment boundary", 6)
	x.C.Rule("C15.R2", "Parse grammar: leading slash, no trailing slash, lower case, input returned unchanged", 7)
	x.C.Rule("C15.R3", "single separator constant in Top / Join / Segments", 3)

	if f := x.fn("C15.R1", "(pkg/command.Command).Covers"); f != nil {
		// accepted renderings of the two facts (today's HasPrefix form and the strings.CutPrefix form)
		cut := "call[strings.CutPrefix](conv[string](arg0),conv[string](recv))"
		rest := cut + "#0"
		prefixAtoms := []string{"call[strings.HasPrefix](conv[string](arg0),conv[string](recv))", cut + "#1"}
		boundaryAtoms := []string{
			`eq(const("/"),recv)`, "eq(len(arg0),len(recv))", "eq(arg0[len(recv)],const(47))",
			eqs(rest, `const("")`), eqs("len("+rest+")", "const(0)"), eqs(rest+"[const(0)]", "const(47)"), "call[strings.HasPrefix](" + rest + `,const("/"))`,
		}
		all := func(names []string, v bool) map[string]bool {
			m := map[string]bool{}
			for _, n := range names {
				m[n] = v
			}
			return m
		}
		// which of them occur in the function
		used := map[string]bool{}
		for _, p := range x.pathsQuiet(f) {
			for _, fc := range p.Facts {
				used[fc.Atom.String()] = true
			}
			if p.End == paths.EndReturn {
				if _, _, a, _ := p.BoolResult(0); a != nil {
					used[a.String()] = true
				}
			}
		}
		x.noPath("C15.R1", "prefix-required", f, paths.WantTrue, atoms(all(prefixAtoms, false)), 0,
			"Covers never returns true unless the other command has the receiver as textual prefix (strings.HasPrefix / CutPrefix of other by c)")
		x.noPath("C15.R1", "boundary-required", f, paths.WantTrue, atoms(all(boundaryAtoms, false)), 0,
			"Covers never returns true on a bare textual prefix: c == \"/\", or nothing follows the prefix, or a '/' follows it")
		nP, nB := 0, 0
		for _, pa := range prefixAtoms {
			if !used[pa] {
				continue
			}
			nP++
			for _, ba := range boundaryAtoms {
				if !used[ba] {
					continue
				}
				nB++
				x.noPath("C15.R1", "covers:"+shortAtom(ba), f, paths.WantFalse, atoms(map[string]bool{pa: true, ba: true}), 0, "prefix and boundary ("+shortAtom(ba)+") together imply coverage: no 'false' path")
			}
		}
		x.C.Obl("C15.R1", "facts-present", x.pos(f), "Covers tests a prefix fact and at least the three boundary cases (top, equal, separator)", nP >= 1 && nB >= 3, fmt.Sprintf("%d prefix form(s), %d boundary fact(s) found", nP, nB))
		x.somePath("C15.R1", "covers:reachable", f, paths.WantTrue, paths.None, 0, "some path returns true")
	}
	if f := x.fn("C15.R2", "pkg/command.Parse"); f != nil {
		lead := `call[strings.HasPrefix](arg0,const("/"))`
		long := "lt(const(1),len(arg0))"
		trail := `call[strings.HasSuffix](arg0,const("/"))`
		lower := "eq(arg0,call[strings.ToLower](arg0))"
		x.noPath("C15.R2", "leading-slash", f, paths.WantSuccess, atoms(map[string]bool{lead: false}), 0, "no success without a leading slash")
		x.noPath("C15.R2", "trailing-slash", f, paths.WantSuccess, atoms(map[string]bool{long: true, trail: true}), 0, "no success with a trailing slash on a string longer than \"/\"")
		x.noPath("C15.R2", "lower-case", f, paths.WantSuccess, atoms(map[string]bool{lower: false}), 0, "no success when the string differs from its lower-casing")
		x.noPath("C15.R2", "accepts:valid", f, paths.WantFailure, atoms(map[string]bool{lead: true, trail: false, lower: true}), 0, "a string with leading slash, no trailing slash and lower case is never rejected")
		x.noPath("C15.R2", "accepts:top", f, paths.WantFailure, atoms(map[string]bool{lead: true, long: false, lower: true}), 0, "the string \"/\" is never rejected")
		vs := x.somePath("C15.R2", "accepts:reachable", f, paths.WantSuccess, paths.None, 0, "some path succeeds")
		ok := len(vs) > 0
		detail := ""
		for _, v := range vs {
			if r := v.Results()[0].String(); r != "conv[pkg/command.Command](arg0)" {
				ok = false
				detail += "success returns " + r + "\n"
			}
		}
		x.C.Obl("C15.R2", "unchanged", x.pos(f), "success returns the input string unchanged (converted to Command)", ok, detail)
	}
	// separator
	sepOK := func(name string, want int) {
		f := x.fn("C15.R3", name)
		if f == nil {
			return
		}
		bad := ""
		n := 0
		for _, b := range f.Blocks {
			for _, in := range b.Instrs {
				for _, op := range in.Operands(nil) {
					if c, ok := (*op).(*ssa.Const); ok && c.Value != nil && strings.HasPrefix(c.Value.ExactString(), "\"") {
						n++
						if c.Value.ExactString() != `"/"` && c.Value.ExactString() != `""` {
							bad += "string constant " + c.Value.ExactString() + " at " + x.P.Pos(in.Pos()) + "\n"
						}
					}
				}
			}
		}
		x.C.Obl("C15.R3", "separator:"+name, x.pos(f), "the only non-empty string constant used is the separator \"/\"", bad == "" && n >= want, bad)
	}
	sepOK("pkg/command.Top", 1)
	sepOK("(pkg/command.Command).Join", 1)
	sepOK("(pkg/command.Command).Segments", 1)
}

func shortAtom(a string) string {
	switch {
	case strings.Contains(a, `const("/"),recv`):
		return "top"
	case strings.Contains(a, "len(arg0),len(recv)") || strings.HasSuffix(a, `const(""))`) || strings.Contains(a, "const(0),len(") || strings.Contains(a, "),const(0))"):
		return "equal"
	}
	return "child"
}
