package rules

import (
	"strings"

	"golang.org/x/tools/go/ssa"

	"verif/lint/internal/paths"
	"verif/lint/internal/report"
)

func init() {
	register(&Property{
		Meta: report.Meta{
			Property:    "C15",
			Explanation: "Decision tables read off the CFG of command.Covers and command.Parse. Covers: no 'true' path without HasPrefix(other, c) (roles checked) and without one of the boundary facts {c == \"/\", len(c) == len(other), other[len(c)] == '/'}; no 'false' path when the prefix fact and any boundary fact hold. Parse: no success without leading slash, with a trailing slash on a longer string, or with a string that differs from its lower-casing; success returns the input unchanged; a string satisfying the three conditions is never rejected. Top/Join/Segments use the single separator \"/\". The order axioms follow from this shape but are runtime-value clauses and are not decided.",
			Assumptions: []string{"strings.HasPrefix/HasSuffix/ToLower/Split semantics"},
			Trusted:     []string{"golang.org/x/tools/go/ssa v0.29.0", "package strings"},
			NotDecided:  []string{"reflexivity/antisymmetry/transitivity as such (they follow from the prefix+boundary shape for valid commands)", "Join on segments that themselves contain '/'"},
		},
		Run: runC15,
	})
}

func runC15(x *Ctx) {
	x.C.Rule("C15.R1", "Covers = textual prefix AND segment boundary", 6)
	x.C.Rule("C15.R2", "Parse grammar: leading slash, no trailing slash, lower case, input returned unchanged", 7)
	x.C.Rule("C15.R3", "single separator constant in Top / Join / Segments", 3)

	if f := x.fn("C15.R1", "(pkg/command.Command).Covers"); f != nil {
		pre := "call[strings.HasPrefix](conv[string](arg0),conv[string](recv))"
		top := `eq(const("/"),recv)`
		same := "eq(len(arg0),len(recv))"
		sep := "eq(arg0[len(recv)],const(47))"
		x.noPath("C15.R1", "prefix-required", f, paths.WantTrue, atoms(map[string]bool{pre: false}), 0,
			"Covers never returns true unless strings.HasPrefix(other, c) (other = argument, c = receiver)")
		x.noPath("C15.R1", "boundary-required", f, paths.WantTrue, atoms(map[string]bool{top: false, same: false, sep: false}), 0,
			"Covers never returns true on a bare textual prefix: one of c == \"/\", len(c) == len(other), other[len(c)] == '/' must hold")
		x.noPath("C15.R1", "covers:top", f, paths.WantFalse, atoms(map[string]bool{pre: true, top: true}), 0, "the top command covers every command it prefixes")
		x.noPath("C15.R1", "covers:equal", f, paths.WantFalse, atoms(map[string]bool{pre: true, same: true}), 0, "a command covers itself")
		x.noPath("C15.R1", "covers:child", f, paths.WantFalse, atoms(map[string]bool{pre: true, sep: true}), 0, "a command covers the commands that continue it at a segment boundary")
		x.somePath("C15.R1", "covers:reachable", f, paths.WantTrue, atoms(map[string]bool{pre: true, sep: true}), 0, "some path returns true")
	}
	if f := x.fn("C15.R2", "pkg/command.Parse"); f != nil {
		lead := `call[strings.HasPrefix](arg0,const("/"))`
		long := "lt(const(1),len(arg0))"
		trail := `call[strings.HasSuffix](arg0,const("/"))`
		lower := "eq(arg0,call[strings.ToLower](arg0))"
		x.noPath("C15.R2", "leading-slash", f, paths.WantSuccess, atoms(map[string]bool{lead: false}), 0, "no success without a leading slash")
		x.noPath("C15.R2", "trailing-slash", f, paths.WantSuccess, atoms(map[string]bool{long: true, trail: true}), 0, "no success with a trailing slash on a string longer than \"/\"")
		x.noPath("C15.R2", "lower-case", f, paths.WantSuccess, atoms(map[string]bool{lower: false}), 0, "no success when the string differs from its lower-casing")
		x.noPath("C15.R2", "accepts:valid", f, paths.WantFailure, atoms(map[string]bool{lead: true, trail: false, lower: true}), 0, "a string with leading slash, no trailing slash and lower case is never rejected")
		x.noPath("C15.R2", "accepts:top", f, paths.WantFailure, atoms(map[string]bool{lead: true, long: false, lower: true}), 0, "the string \"/\" is never rejected")
		vs := x.somePath("C15.R2", "accepts:reachable", f, paths.WantSuccess, paths.None, 0, "some path succeeds")
		ok := len(vs) > 0
		detail := ""
		for _, v := range vs {
			if r := v.Results()[0].String(); r != "conv[pkg/command.Command](arg0)" {
				ok = false
				detail += "success returns " + r + "\n"
			}
		}
		x.C.Obl("C15.R2", "unchanged", x.pos(f), "success returns the input string unchanged (converted to Command)", ok, detail)
	}
	// separator
	sepOK := func(name string, want int) {
		f := x.fn("C15.R3", name)
		if f == nil {
			return
		}
		bad := ""
		n := 0
		for _, b := range f.Blocks {
			for _, in := range b.Instrs {
				for _, op := range in.Operands(nil) {
					if c, ok := (*op).(*ssa.Const); ok && c.Value != nil && strings.HasPrefix(c.Value.ExactString(), "\"") {
						n++
						if c.Value.ExactString() != `"/"` && c.Value.ExactString() != `""` {
							bad += "string constant " + c.Value.ExactString() + " at " + x.P.Pos(in.Pos()) + "\n"
						}
					}
				}
			}
		}
		x.C.Obl("C15.R3", "separator:"+name, x.pos(f), "the only non-empty string constant used is the separator \"/\"", bad == "" && n >= want, bad)
	}
	sepOK("pkg/command.Top", 1)
	sepOK("(pkg/command.Command).Join", 1)
	sepOK("(pkg/command.Command).Segments", 1)
}
