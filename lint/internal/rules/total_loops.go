package rules

import (
	"fmt"
	"strings"

	"golang.org/x/tools/go/ssa"

	"verif/lint/internal/load"
	"verif/lint/internal/paths"
)

// totalLoop: a loop that maps a collection one-to-one (statement constructors to statements, the elements of a
// decoded list to statements, the values of a map to list entries) must emit exactly one result per element.
// In function f (its function literals included) there is exactly one emitting instruction inside a loop; its
// block dominates every back edge of that loop (no iteration skips it); the loop is left only through its
// header or through an exit that fails (an error return, a panic); and the emitted value is the result computed
// from the element of this iteration (elemWhy returns "" when it is).
func totalLoop(x *Ctx, rule, key string, f *ssa.Function, desc string, emit func(in ssa.Instruction) (ssa.Value, bool), elemWhy func(v ssa.Value) string) {
	var fns []*ssa.Function
	var add func(g *ssa.Function, depth int)
	add = func(g *ssa.Function, depth int) {
		for _, h := range fns {
			if h == g {
				return
			}
		}
		fns = append(fns, g)
		for _, a := range g.AnonFuncs {
			add(a, depth)
		}
		if depth >= 2 {
			return
		}
		// new helpers of the module the code was moved into
		for _, b := range g.Blocks {
			for _, in := range b.Instrs {
				if c, ok := in.(ssa.CallInstruction); ok {
					if h := c.Common().StaticCallee(); h != nil && len(h.Blocks) > 0 && x.P.IsNewHelper(h) {
						add(h, depth+1)
					}
				}
			}
		}
	}
	add(f, 0)
	type site struct {
		in  ssa.Instruction
		val ssa.Value
		g   *ssa.Function
		l   *paths.Loop
	}
	var sites []site
	for _, g := range fns {
		for _, b := range g.Blocks {
			for _, in := range b.Instrs {
				if v, ok := emit(in); ok {
					if l := paths.Info(g).InnermostLoop(b); l != nil {
						sites = append(sites, site{in, v, g, l})
					}
				}
			}
		}
	}
	// the emitting step moved into a new helper that is called from the loop: the call is the emitting site when the
	// helper emits exactly once, outside any loop of its own, on the way to each of its returns that does not fail
	for _, g := range fns {
		for _, b := range g.Blocks {
			l := paths.Info(g).InnermostLoop(b)
			if l == nil {
				continue
			}
			for _, in := range b.Instrs {
				c, ok := in.(ssa.CallInstruction)
				if !ok {
					continue
				}
				h := c.Common().StaticCallee()
				if h == nil || h == g || len(h.Blocks) == 0 || !x.P.IsNewHelper(h) {
					continue
				}
				var emits []ssa.Instruction
				var vals []ssa.Value
				for _, hb := range h.Blocks {
					for _, hin := range hb.Instrs {
						if v, ok := emit(hin); ok {
							emits = append(emits, hin)
							vals = append(vals, v)
						}
					}
				}
				if len(emits) != 1 || paths.Info(h).InnermostLoop(emits[0].Block()) != nil {
					continue
				}
				always := true
				for _, hb := range h.Blocks {
					if len(hb.Instrs) == 0 {
						continue
					}
					if _, isRet := hb.Instrs[len(hb.Instrs)-1].(*ssa.Return); isRet && !failingExit(hb, 0) {
						if hb != emits[0].Block() && !emits[0].Block().Dominates(hb) {
							always = false
						}
					}
				}
				if always {
					sites = append(sites, site{in, vals[0], g, l})
				}
			}
		}
	}
	// direct sites inside such helpers are not in a loop of theirs and were not collected above
	bad := ""
	byLoop := map[*paths.Loop][]site{}
	for _, s := range sites {
		byLoop[s.l] = append(byLoop[s.l], s)
	}
	if len(sites) == 0 {
		bad += "no emitting instruction found inside a loop\n"
	}
	for l, ss := range byLoop {
		if len(ss) != 1 {
			var at []string
			for _, s := range ss {
				at = append(at, x.P.Pos(s.in.Pos()))
			}
			bad += fmt.Sprintf("the loop emits at %d places (%s): an element can yield several results, or a different one depending on a condition\n", len(ss), strings.Join(at, ", "))
			continue
		}
		s := ss[0]
		for _, u := range l.Latches {
			if s.in.Block() != u && !s.in.Block().Dominates(u) {
				bad += fmt.Sprintf("%s: an iteration can reach the next one without emitting (the element is skipped)\n", x.P.Pos(s.in.Pos()))
				break
			}
		}
		for b := range l.Body {
			if b == l.Header {
				continue
			}
			for _, t := range b.Succs {
				if !l.Body[t] && !failingExit(t, 0) {
					pos := x.P.Pos(s.in.Pos())
					if len(b.Instrs) > 0 && b.Instrs[len(b.Instrs)-1].Pos().IsValid() {
						pos = x.P.Pos(b.Instrs[len(b.Instrs)-1].Pos())
					}
					bad += fmt.Sprintf("%s: the loop can be left before the last element without failing\n", pos)
				}
			}
		}
		if elemWhy != nil {
			if why := elemWhy(s.val); why != "" {
				bad += fmt.Sprintf("%s: %s\n", x.P.Pos(s.in.Pos()), why)
			}
		}
	}
	x.C.Obl(rule, key, x.pos(f), desc, bad == "", dedupLines(bad))
	_ = load.Module
}

// failingExit: the block (following unconditional jumps) ends in a panic or returns a last result that is not
// the nil constant.
func failingExit(b *ssa.BasicBlock, depth int) bool {
	if depth > 4 || len(b.Instrs) == 0 {
		return false
	}
	switch t := b.Instrs[len(b.Instrs)-1].(type) {
	case *ssa.Panic:
		return true
	case *ssa.Return:
		if len(t.Results) == 0 {
			return false
		}
		last := t.Results[len(t.Results)-1]
		if c, ok := last.(*ssa.Const); ok && c.IsNil() {
			return false
		}
		// a bool result: false
		if c, ok := last.(*ssa.Const); ok && c.Value != nil && c.Value.String() == "true" {
			return false
		}
		return true
	case *ssa.Jump:
		return failingExit(b.Succs[0], depth+1)
	}
	return false
}

// extractOfCall: v is result #idx of a call accepted by okCall.
func extractOfCall(v ssa.Value, idx int, okCall func(c *ssa.Call) bool) bool {
	for {
		switch t := v.(type) {
		case *ssa.ChangeType:
			v = t.X
			continue
		case *ssa.MakeInterface:
			v = t.X
			continue
		case *ssa.ChangeInterface:
			v = t.X
			continue
		}
		break
	}
	e, ok := v.(*ssa.Extract)
	if !ok || e.Index != idx {
		return false
	}
	c, ok := e.Tuple.(*ssa.Call)
	return ok && okCall(c)
}

func runTotalLoops(x *Ctx, which string) {
	switch which {
	case "C11":
		if f := x.fn("C11.R1", "pkg/policy.assemble"); f != nil {
			totalLoop(x, "C11.R1", "total:assemble", f, "assemble keeps one statement per constructor: the loop appends the statement built by the constructor of the iteration on every iteration that does not fail",
				statementEmit,
				func(v ssa.Value) string {
					if extractOfCall(v, 0, func(c *ssa.Call) bool { return c.Call.StaticCallee() == nil && !c.Call.IsInvoke() }) {
						return ""
					}
					return "what is appended is not the statement returned by the constructor called in this iteration"
				})
		}
	case "C14":
		if f := x.fn("C14.R3", "pkg/policy.statementsFromIPLD"); f != nil {
			totalLoop(x, "C14.R3", "total:statementsFromIPLD", f, "a decoded statement list holds one statement per element: every iteration that does not fail stores the statement decoded from the element of the iteration",
				statementEmit,
				func(v ssa.Value) string {
					if extractOfCall(v, 0, func(c *ssa.Call) bool {
						h := c.Call.StaticCallee()
						return h != nil && x.P.InModule(h) && strings.HasSuffix(h.Signature.Results().At(0).Type().String(), "policy.Statement")
					}) {
						return ""
					}
					return "what is stored is not the statement decoded from the element of this iteration"
				})
		}
		if f := x.fn("C14.R3", "pkg/policy.statementsToIPLD"); f != nil {
			totalLoop(x, "C14.R3", "total:statementsToIPLD", f, "an encoded statement list holds one tuple per statement: every iteration that does not fail assigns the node encoded from the statement of the iteration",
				func(in ssa.Instruction) (ssa.Value, bool) {
					if c, ok := in.(*ssa.Call); ok && c.Call.IsInvoke() && c.Call.Method.Name() == "AssignNode" && len(c.Call.Args) == 1 {
						return c.Call.Args[0], true
					}
					return nil, false
				},
				func(v ssa.Value) string {
					if extractOfCall(v, 0, func(c *ssa.Call) bool {
						h := c.Call.StaticCallee()
						return h != nil && x.P.InModule(h) && strings.HasSuffix(h.Signature.Results().At(0).Type().String(), "datamodel.Node")
					}) {
						return ""
					}
					return "what is assigned is not the node encoded from the statement of this iteration"
				})
		}
		// and the loop visits every element: it counts from 0 to the node's own Length(), or steps the node's list
		// iterator until it is done (a bound clamped to a constant drops the statements beyond it without an error)
		if f := x.fn("C14.R3", "pkg/policy.statementsFromIPLD"); f != nil {
			okB, got := false, ""
			for _, la := range loopsIn(f) {
				l := la.L
				if l.IV != nil && l.Start == 0 && l.Bound != nil {
					bt := paths.DetachedTerm(l.Fn, l.Bound)
					if la.Sub != nil {
						bt = bt.Subst(la.Sub)
					}
					b := stripConv(bt).String()
					got += b + " "
					if strings.HasPrefix(b, "invoke[") && strings.HasSuffix(b, "Node.Length](arg1)") {
						okB = true
					}
				}
			}
			if !okB {
				for _, b := range f.Blocks {
					for _, in := range b.Instrs {
						if c, ok := in.(*ssa.Call); ok && c.Call.IsInvoke() && c.Call.Method.Name() == "Done" && strings.HasSuffix(c.Call.Value.Type().String(), "ListIterator") {
							okB = true
						}
					}
				}
			}
			x.C.Obl("C14.R3", "range:statementsFromIPLD", x.pos(f), "the decoding loop runs over every element of the list node (0 .. node.Length(), or its list iterator)", okB, "loops found with bounds: "+got)
		}
		// the selector of a decoded statement is parsed from the node's own text: what selector.Parse is given in the
		// decoder is the string read from the tuple, not a piece or a rewriting of it
		if f := x.fn("C14.R3", "pkg/policy.statementFromIPLD"); f != nil {
			nP, badP := 0, ""
			for _, p := range x.pathsQuiet(f) {
				for _, c := range p.Calls() {
					ct := p.Term(c)
					if ct == nil || ct.Op != "call" || ct.Name != "pkg/policy/selector.Parse" || len(ct.Args) != 1 {
						continue
					}
					nP++
					a := ct.Args[0]
					ok := a != nil && ((a.Op == "call" && strings.HasSuffix(a.Name, "must.String") && len(a.Args) == 1) ||
						(a.Op == "extract" && a.Name == "#0" && len(a.Args) == 1 && a.Args[0].Op == "invoke" && strings.HasSuffix(a.Args[0].Name, "Node.AsString")))
					if !ok {
						badP += fmt.Sprintf("%s: selector.Parse is given %s\n", x.P.Pos(c.Pos()), firstLines(a.String(), 1))
					}
				}
			}
			x.C.Obl("C14.R3", "selector-text-verbatim:statementFromIPLD", x.pos(f), "the decoder parses the selector from the string read off the tuple, whole", badP == "" && nP > 0, dedupLines(badP))
		}
	case "C12":
		if f := x.fn("C12.R3", selPkg+"resolve"); f != nil {
			totalLoop(x, "C12.R3", "total:map-iterator", f, "the iterator segment collects every value of a map: each step of the map iterator that does not fail adds the value it returned to the list",
				func(in ssa.Instruction) (ssa.Value, bool) {
					c, ok := in.(ssa.CallInstruction)
					if !ok {
						return nil, false
					}
					cm := c.Common()
					// only the loops that step a map iterator
					steps := false
					if l := paths.Info(in.Parent()).InnermostLoop(in.Block()); l != nil {
						for b := range l.Body {
							for _, i2 := range b.Instrs {
								if c2, ok := i2.(ssa.CallInstruction); ok && c2.Common().IsInvoke() && c2.Common().Method.Name() == "Next" && strings.HasSuffix(c2.Common().Value.Type().String(), "MapIterator") {
									steps = true
								}
							}
						}
					}
					if !steps {
						return nil, false
					}
					if h := cm.StaticCallee(); h != nil && h.Pkg != nil && h.Pkg.Pkg.Path() == "github.com/ipld/go-ipld-prime/fluent/qp" && h.Name() == "ListEntry" && len(cm.Args) == 2 {
						// the assembled value: qp.Node(v)
						if nc, ok := cm.Args[1].(*ssa.Call); ok && len(nc.Call.Args) == 1 {
							return nc.Call.Args[0], true
						}
						return cm.Args[1], true
					}
					if cm.IsInvoke() && cm.Method.Name() == "AssignNode" && len(cm.Args) == 1 {
						return cm.Args[0], true
					}
					return nil, false
				},
				func(v ssa.Value) string {
					if extractOfCall(v, 1, func(c *ssa.Call) bool { return c.Call.IsInvoke() && c.Call.Method.Name() == "Next" }) {
						return ""
					}
					return "what is added to the list is not the value returned by the iterator in this step"
				})
		}
	}
}

// statementEmit recognises the instruction that puts a statement into a list of statements: a store into an
// element (res[i] = st) or an append of one element.
var statementEmit = func(in ssa.Instruction) (ssa.Value, bool) {
	switch t := in.(type) {
	case *ssa.Store:
		if ia, ok := t.Addr.(*ssa.IndexAddr); ok && strings.HasPrefix(ia.X.Type().String(), "[]") && strings.HasSuffix(ia.X.Type().String(), "policy.Statement") {
			return t.Val, true
		}
	case *ssa.Call:
		if b, isB := t.Call.Value.(*ssa.Builtin); isB && b.Name() == "append" && len(t.Call.Args) == 2 && strings.HasSuffix(t.Type().String(), "policy.Statement") {
			if al, lit := sliceLitOf(t.Call.Args[1]); lit {
				for _, r := range *al.Referrers() {
					if ia, ok := r.(*ssa.IndexAddr); ok {
						for _, rr := range *ia.Referrers() {
							if st, ok := rr.(*ssa.Store); ok && st.Addr == ssa.Value(ia) {
								return st.Val, true
							}
						}
					}
				}
			}
			return t.Call.Args[1], true
		}
	}
	return nil, false
}
