package rules

import (
	"bufio"
	"bytes"
	"fmt"
	"go/ast"
	"go/token"
	"go/types"
	"os"
	"os/exec"
	"regexp"
	"sort"
	"strconv"
	"strings"

	"golang.org/x/tools/go/ssa"

	"verif/lint/internal/load"
	"verif/lint/internal/paths"
	"verif/lint/internal/report"
)

func init() {
	register(&Property{
		Meta: report.Meta{
			Property:    "C09",
			Explanation: "Closed inventories of everything that can panic, loop, recurse or allocate in the code reachable from the exported API (minus the documented Must* conveniences), each entry either discharged by a guard that is re-checked on the enumerated CFG paths or matched against an audited table with its reason: (P1) explicit panic sites (recovered by qp / a deferred recover, reachable only through Must*, or audited); (P2) go-ipld-prime must.* accessors (total under a dominating Kind fact; must.Int is not and is forbidden); (P3) nil-returning APIs (UnmarshalCompressed, ListIterator/MapIterator, bindnode.Unwrap) used only under a nil / kind fact; (P4) discarded errors whose value is used, under the idiom that makes the call total; (P5) bounds checks the Go compiler's prove pass could not eliminate (go build -gcflags=-d=ssa/check_bce), counted per function against the audited count; (P6) single-result type assertions; (T1) every loop is a recognised bounded idiom (counted, range, iterator Done/Next, stream section loop) or audited (glob.Match); (T2) every recursive call descends into a strict sub-term of its parameter; (M1) every allocation whose size is not a constant is sized by a length of materialised data or bounded by a constant comparison; (M2) no recursive call passes a string / slice that grows from its own parameter (quadratic memory). A new panic, unproven index, unrecognised loop, unbounded allocation in decoder-reachable code is reported even if a human can argue it is unreachable: the report is the obligation to justify it. (P7) push iterators (func(yield func(..) bool)): from the false side of every tested yield answer, and from every yield whose answer is dropped, no call of yield is reachable in the CFG. (P3) a method is called on an interface variable that the function itself sets to nil only under a non-nil fact; a function taken out of a map is called only under the comma-ok or a non-nil fact. (P1) an error stored by a deferred recover goes into a named result. (P3) each return of matchStatement whose first result is the constant matchResultFalse / matchResultNoData has a second result that is neither nil nor a loop-carried variable whose entry value is nil. (M2) in a function that calls itself no Store into a field, element or package-level variable takes a string concatenation or append that has the self-call result among its operands. (P3) on every success path of Reader.GetToken / GetDelegation / GetInvocation the first result is not nil; a comma-ok value needs its ok fact, a loop-filled variable its non-nil fact. (P5) a Slice of a string with a constant low bound k and high bound len(Y)-m (k+m>0) in selector.Parse needs, on its path, !(len(Y) < c) with c >= k+m or HasPrefix / HasSuffix facts with two different one-character constants. (P3) for every field of tokenPayloadModel that the .ipldsch marks optional or nullable and whose Go type is a pointer to a struct type of the module, every success path of tokenFromModel carries a nil test of arg0.<Field>. (P5) the count argument of every static call of strings.Repeat / bytes.Repeat in library functions is a constant >= 0, len / cap, a unicode/utf8 rune count, max with a constant >= 0 among its arguments, or is compared with a constant by a dominating branch that excludes negative values; the canary package lint/testdata/canary/repeat must yield exactly its seeded site. (P5) the guarded-trim condition of selector.Parse is applied to every library function that has a Slice of a string whose high bound is a subtraction of a constant. (T2) no library function has two invoke instructions of the same parameterless method on the same SSA value when a method of the module with that name can reach the function again.",
			Assumptions: []string{"go-ipld-prime, refmt, libp2p, x509, base58 decoders are total and bounded (trusted base)", "qp.BuildMap/BuildList recover panics raised inside their closures", "the Go compiler's prove pass is sound"},
			Trusted:     []string{"go-ipld-prime", "refmt", "go-libp2p/core/crypto", "crypto/x509", "cmd/compile prove pass", "golang.org/x/tools/go/ssa v0.29.0"},
			NotDecided:  []string{"termination of glob.Match's backtracking loop (audited)", "Go stack exhaustion on deeply nested input", "third-party decoder behaviour", "memory of []rune(str)"},
		},
		Run: runC09,
	})
}

// mustEntryPoints are the documented panicking conveniences, excluded from the entry points.
var mustEntryPoints = map[string]bool{
	"did.MustParse": true, "pkg/command.MustParse": true, "pkg/policy/selector.MustParse": true, "pkg/policy.MustConstruct": true,
	"(*pkg/args.Builder).MustBuild": true, "(*pkg/args.Builder).MustBuildIPLD": true,
}

// auditedPanics: function -> (count, class, reason). Sites inside closures handed to qp are
// classified structurally and need no entry.
var auditedPanics = map[string]struct {
	n      int
	reason string
}{
	"pkg/policy/literal.anyAssemble":          {5, "recovered: literal.Any defers a recover; literal.Map/List call it inside qp.BuildMap/BuildList closures (the fifth refuses an undefined CID, D22)"},
	"pkg/policy/selector.resolve":             {2, "'should never happen' after qp.BuildList: the only error its closure can raise is re-panicked from lookups guarded by P4's facts"},
	"pkg/policy/selector.resolveSliceIndices": {1, "segment.slice is only ever built as rng[:] of a [2]int64 in Parse and the call is guarded by len(seg.Slice()) > 0"},
	"pkg/policy.matchStatement":               {12, "11 'unimplemented kind / wrong struct type' exits covered by C11.R1 exhaustiveness (every kind the decoder and constructors create has a case asserting the type they build) + 2 iterator errors of a freshly obtained non-nil ListIterator (contract); compiled as one shared panic block per failed assertion"},
	"pkg/policy.isOrdered":                    {2, "AsFloat on a node whose Kind()==Float fact is on the path"},
	"token/delegation.mustLoadSchema":         {1, "static embedded schema, independent of untrusted data"},
	"token/invocation.mustLoadSchema":         {1, "static embedded schema, independent of untrusted data"},
	"pkg/policy.mustParseGlob":                {1, "not reachable from the non-Must entry points (checked)"},
}

// auditedBounds: function -> number of bounds checks the compiler does not prove, with the reason.
var auditedBounds = map[string]struct {
	n      int
	reason string
}{
	"(pkg/command.Command).Segments":              {1, "strings.Split with a non-empty separator returns >= 1 element"},
	"(did.DID).PubKey":                            {1, "DID literals are built only by Parse/FromPubKey with the varint of code as prefix (C16.R2); Undef returns before"},
	"(*token/internal/envelope.CIDReader).Read":   {1, "io.Reader contract: 0 <= n <= len(p)"},
	"pkg/policy/literal.anyAssemble":              {2, "sort.Slice passes indexes in range"},
	"pkg/policy/selector.Parse":                   {5, "seg[1:len-1] under HasPrefix '[' and HasSuffix ']'; lookup[1:len-1] under len(lookup) >= 2; splt[0], splt[1] under sliceRegex (exactly one ':'); seg[1:] under fieldRegex (min length 2)"},
	"pkg/policy/selector.tokenize":                {4, "str[col] under col < len(str); str[col-1] with col >= 1 (Parse rejects inputs not starting with '.', and the branch needs a quote at col); str[ofs:col] twice with ofs < col <= len(str)"},
	"pkg/policy/selector.resolve":                 {2, "b[start:end], runes[start:end]: post-condition of resolveSliceIndices (numeric clause, not decided; operands tied by C12.R4)"},
	"pkg/policy.parseGlob":                        {2, "pattern[i] under i < len(pattern); pattern[i+1] under i+1 < len(pattern)"},
	"(pkg/policy.glob).Match":                     {7, "pattern[i], pattern[i+1], str[j] under i < len(pattern), i+1 < len(pattern), j < len(str) on the path (C13.R1 facts); indices only grow from 0 / starIdx+1 / matchIdx"},
	"pkg/policy.statementsFromIPLD":               {1, "res = make(_, node.Length()); loop i < node.Length()"},
	"(pkg/policy.Policy).String":                  {1, "childs = make(_, len(p)); range p"},
	"(pkg/policy.connective).String":              {1, "childs = make(_, len(c.statements)); range c.statements"},
	"(*token/invocation.Token).loadProofs":        {1, "res = make(_, len(t.proof)); range t.proof"},
	"(*token/invocation.Token).verifyProofs":      {1, "delegations[i], len(delegations) == len(t.proof) by C01.R3; the last-element index is proven by the compiler after the len >= 1 guard"},
	"(*token/invocation.Token).verifyTimeBoundAt": {1, "delegations[i], len(delegations) == len(t.proof) by C01.R3"},
	"(*token/invocation.Token).verifyArgs":        {2, "delegations[i] twice, len(delegations) == len(t.proof) by C01.R3"},
	"pkg/container.readBlock":                     {1, "raw[n:]: cid.CidFromReader returns the number of bytes it consumed from raw"},
}

// auditedAsserts: functions with single-result type assertions (panic on mismatch).
var auditedAsserts = map[string]struct {
	n      int
	reason string
}{
	"did.FromPubKey":                 {2, "x509.ParsePKIXPublicKey of the Raw() of a libp2p ECDSA / RSA key returns that key type"},
	"pkg/policy/literal.anyAssemble": {2, "val.([]byte) under rt.Kind()==Slice && Elem()==Uint8 of the same value; rv.Interface().(cid.Cid) under rt == TypeOf(cid.Cid{}); both under literal.Any's recover"},
}

// auditedDiscards: function|callee -> reason, for discarded errors outside the recognised idioms.
var auditedDiscards = map[string]string{
	"token/internal/envelope.ToIPLD|github.com/ipld/go-ipld-prime/fluent/qp.BuildMap": "encoder side (sealing a token built by the constructors, not untrusted input): a fixed two-entry map of an already built header and payload node into a fresh basicnode map cannot fail",
}

// auditedLoops: loops that are not one of the recognised bounded idioms.
var auditedLoops = map[string]struct {
	n      int
	reason string
}{
	"(pkg/policy.glob).Match":       {1, "greedy two-pointer matcher with backtracking: every iteration either advances j, or advances i, or restarts with matchIdx+1 (C13.R1 classifies every step); termination is NOT decided"},
	"pkg/container.readCar":         {1, "section loop: every iteration consumes a section through readBlock (>= 1 byte: ldRead rejects empty sections) or returns"},
	"pkg/policy/selector.tokenize":  {1, "col is incremented on every path of the body (checked: every latch path carries col' = col+1)"},
	"(*pkg/policy.ipldPath).String": {1, "walk of the parent chain of an ipldPath: nodes are only created by linking a fresh node to an existing one (statementsFromIPLD / combinePath), so the chain is acyclic and as long as the nesting depth"},
	"pkg/policy.parseGlob":          {1, "i is incremented by the post statement on every path (checked: every latch path carries i' > i)"},
}

func runC09(x *Ctx) {
	x.C.Rule("C09.P1", "explicit panic sites are recovered, Must*-only, or audited", 8)
	x.C.Rule("C09.P2", "must.* accessors only under the matching Kind fact; must.Int forbidden", 3)
	x.C.Rule("C09.P3", "nil-returning APIs used under a nil / kind fact; a cursor set to nil is used only where known non-nil; a function from a table is called only when found", 6)
	x.C.Rule("C09.P4", "discarded errors whose value is used: total under the recognised idiom", 10)
	x.C.Rule("C09.P5", "bounds checks the compiler cannot prove, per function, against the audited counts", 10)
	x.C.Rule("C09.P6", "single-result type assertions against the audited table", 1)
	x.C.Rule("C09.P7", "push iterators never call yield again after it answered false", 4)
	x.C.Rule("C09.T1", "loops are recognised bounded idioms or audited", 20)
	x.C.Rule("C09.T2", "recursion descends into strict sub-terms", 5)
	x.C.Rule("C09.M1", "allocation sizes are lengths of materialised data or bounded by a constant", 5)
	x.C.Rule("C09.M2", "no growing string / slice parameter along a recursion; nothing built on the recursive result is retained", 2)
	x.C.Rule("C09.M3", "unsigned 64-bit values are bounded before they are converted to a signed integer", 1)

	var entries []*ssa.Function
	for _, f := range x.P.ExportedAPI() {
		if !mustEntryPoints[load.ShortName(f)] {
			entries = append(entries, f)
		}
	}
	R := x.P.Reach(entries)
	for f := range R {
		// compiler-generated wrappers / thunks only forward to the declared method, which is analysed itself
		if !x.P.IsLibrary(f) || strings.HasPrefix(f.Synthetic, "wrapper") || strings.HasPrefix(f.Synthetic, "bound method") || strings.HasPrefix(f.Synthetic, "thunk") {
			delete(R, f)
		}
	}
	x.C.Extra["entry_points"] = len(entries)
	x.C.Extra["reachable_functions"] = len(R)
	var fns []*ssa.Function
	for f := range R {
		fns = append(fns, f)
	}
	sort.Slice(fns, func(i, j int) bool { return load.ShortName(fns[i]) < load.ShortName(fns[j]) })

	panicSites(x, fns, R)
	mustAccessors(x, fns)
	nilAPIs(x, fns)
	discardedErrors(x, fns)
	boundsChecks(x, R)
	typeAsserts(x, fns)
	iteratorProtocol(x, fns)
	// a deferred recover that turns a panic into an error must put it into a named result
	deferredErrorCellsRule(x, R, "C09.P1")
	nilCursors(x, fns)
	tableCalls(x, fns)
	namedRefusals(x)
	gettersNeverNilNil(x)
	optionalModelPointers(x)
	noNegativeRepeats(x)
	noRepeatedRendering(x)
	guardedTrims(x)
	loopsRule(x, fns)
	recursionRules(x, fns, R)
	allocations(x, fns)
	signedConversions(x, fns)
}

// inQPClosure tells whether f is a closure passed (directly) to a go-ipld-prime qp builder, whose
// panics are recovered into an error by the library.
func inQPClosure(f *ssa.Function) bool {
	if f.Parent() == nil {
		return false
	}
	if returnedToQP(f) {
		return true
	}
	for _, b := range f.Parent().Blocks {
		for _, in := range b.Instrs {
			c, ok := in.(ssa.CallInstruction)
			if !ok {
				continue
			}
			g := paths.StaticCallee(c)
			if g == nil || !strings.Contains(g.String(), "go-ipld-prime/fluent/qp.") {
				continue
			}
			for _, a := range c.Common().Args {
				if mc, ok := a.(*ssa.MakeClosure); ok && mc.Fn == ssa.Value(f) {
					return true
				}
				if ct, ok := a.(*ssa.ChangeType); ok {
					if mc, ok := ct.X.(*ssa.MakeClosure); ok && mc.Fn == ssa.Value(f) {
						return true
					}
				}
			}
		}
	}
	return false
}

// returnedToQP: the function literal f is what its (unexported) parent returns, and every call of the parent in
// the module hands that result straight to a qp builder function (which runs it under its recover).
func returnedToQP(f *ssa.Function) bool {
	par := f.Parent()
	if par == nil || (par.Object() != nil && par.Object().Exported()) {
		return false
	}
	returned := false
	for _, b := range par.Blocks {
		for _, in := range b.Instrs {
			r, ok := in.(*ssa.Return)
			if !ok {
				continue
			}
			for _, v := range r.Results {
				if ct, ok := v.(*ssa.ChangeType); ok {
					v = ct.X
				}
				if mc, ok := v.(*ssa.MakeClosure); ok && mc.Fn == ssa.Value(f) {
					returned = true
				}
			}
		}
	}
	if !returned {
		return false
	}
	origin := par
	if o := par.Origin(); o != nil {
		origin = o
	}
	sites := 0
	ok := true
	visit := func(h *ssa.Function) {
		for _, b := range h.Blocks {
			for _, in := range b.Instrs {
				c, isCall := in.(*ssa.Call)
				if !isCall {
					continue
				}
				callee := c.Call.StaticCallee()
				if callee == nil {
					continue
				}
				co := callee
				if o := callee.Origin(); o != nil {
					co = o
				}
				if co != origin {
					continue
				}
				sites++
				for _, r := range *c.Referrers() {
					use, isCallUse := r.(ssa.CallInstruction)
					if !isCallUse {
						if _, dbg := r.(*ssa.DebugRef); dbg {
							continue
						}
						ok = false
						continue
					}
					g := paths.StaticCallee(use)
					if g == nil || !strings.Contains(g.String(), "go-ipld-prime/fluent/qp.") {
						ok = false
					}
				}
			}
		}
	}
	if par.Pkg == nil && origin.Pkg == nil {
		return false
	}
	pkg := origin.Pkg
	for _, m := range pkg.Members {
		if fn, isFn := m.(*ssa.Function); isFn {
			var walk func(h *ssa.Function)
			walk = func(h *ssa.Function) {
				visit(h)
				for _, a := range h.AnonFuncs {
					walk(a)
				}
			}
			walk(fn)
		}
	}
	return ok && sites > 0
}

func panicSites(x *Ctx, fns []*ssa.Function, R map[*ssa.Function]bool) {
	// sites are attributed to the confirmed function they belong to (closures to their top-level
	// function, new helpers to their confirmed callers): moving a panic into a helper changes nothing
	type inv struct {
		n     int
		where []string
	}
	per := map[string]*inv{}
	for _, f := range fns {
		n := 0
		var where []string
		for _, b := range f.Blocks {
			if p, ok := b.Instrs[len(b.Instrs)-1].(*ssa.Panic); ok {
				if !p.Pos().IsValid() {
					continue // compiler-generated (range-over-func protocol)
				}
				n++
				where = append(where, x.P.Pos(p.Pos()))
			}
		}
		if n == 0 {
			continue
		}
		name := load.ShortName(f)
		if inQPClosure(f) {
			x.C.Obl("C09.P1", "panic:"+name, where[0], "panic inside a closure handed to go-ipld-prime qp: recovered by the library into an error", true, "")
			continue
		}
		for _, o := range x.P.Owners(f) {
			on := load.ShortName(o)
			if per[on] == nil {
				per[on] = &inv{}
			}
			per[on].n += n
			per[on].where = append(per[on].where, where...)
		}
	}
	var names []string
	for n := range per {
		names = append(names, n)
	}
	sort.Strings(names)
	for _, name := range names {
		a, ok := auditedPanics[name]
		n, where := per[name].n, per[name].where
		x.C.Obl("C09.P1", "panic:"+name, where[0], fmt.Sprintf("panic sites in %s (with its closures and new helpers) are audited (%d: %s)", name, a.n, a.reason), ok && n <= a.n,
			fmt.Sprintf("%d explicit panic site(s) at %s in decoder-reachable code; audited: %d. A new panic must be removed, guarded by a deferred recover, or justified in the audited table", n, strings.Join(where, ", "), a.n))
	}
	// Must* helpers with panics are not reachable
	for _, name := range []string{"pkg/policy.mustParseGlob"} {
		if f := x.P.Func(name); f != nil {
			x.C.Obl("C09.P1", "unreachable:"+name, x.pos(f), name+" (panicking helper) is not reachable from the non-Must entry points", !R[f], "")
		}
	}
	// literal.anyAssemble is reached only under a recover or inside qp closures
	if f := x.P.Func("pkg/policy/literal.anyAssemble"); f != nil {
		// every call chain that reaches anyAssemble passes through a function that recovers (a deferred recover)
		// or through a closure handed to a qp builder (which recovers): wherever that function sits
		bad := ""
		state := map[*ssa.Function]int{} // 1 in progress, 2 protected, 3 unprotected
		var protected func(c *ssa.Function) bool
		protected = func(c *ssa.Function) bool {
			switch state[c] {
			case 1, 2:
				return true
			case 3:
				return false
			}
			state[c] = 1
			ok := hasDeferredRecover(c) || inQPClosure(c) || boundHandedToQP(x, c)
			if !ok {
				callers := x.P.CallersOf(c)
				if c.Parent() != nil {
					ok = protected(c.Parent())
				} else if len(callers) > 0 && !(c.Object() != nil && c.Object().Exported()) {
					ok = true
					for _, e := range callers {
						if !protected(e.Caller.Func) {
							ok = false
						}
					}
				}
			}
			if ok {
				state[c] = 2
			} else {
				state[c] = 3
			}
			return ok
		}
		for _, e := range x.P.CallersOf(f) {
			if c := e.Caller.Func; c != f && !protected(c) {
				bad += load.ShortName(c) + " calls anyAssemble without a recover on every way to it\n"
			}
		}
		x.C.Obl("C09.P1", "recovered:anyAssemble", x.pos(f), "anyAssemble is only called under literal.Any's deferred recover or inside qp closures", bad == "", bad)
	}
}

// boundHandedToQP: c is a method whose every use as a value (a bound method value) is an argument of a qp builder:
// the method then runs inside the builder's recover like the function literal it replaced.
func boundHandedToQP(x *Ctx, c *ssa.Function) bool {
	if c.Signature.Recv() == nil {
		return false
	}
	uses, all := 0, true
	for _, g := range x.P.ModuleFuncs() {
		for _, b := range g.Blocks {
			for _, in := range b.Instrs {
				mc, ok := in.(*ssa.MakeClosure)
				if !ok {
					continue
				}
				w, ok := mc.Fn.(*ssa.Function)
				if !ok || !strings.HasPrefix(w.Synthetic, "bound method wrapper") || w.Object() != c.Object() {
					continue
				}
				uses++
				for _, r := range *mc.Referrers() {
					var v ssa.Value = mc
					if ct, isCT := r.(*ssa.ChangeType); isCT {
						v = ct
						for _, r2 := range *ct.Referrers() {
							if call, isCall := r2.(ssa.CallInstruction); !isCall || paths.StaticCallee(call) == nil || !strings.Contains(paths.StaticCallee(call).String(), "go-ipld-prime/fluent/qp.") {
								all = false
							}
						}
						continue
					}
					_ = v
					if _, isDbg := r.(*ssa.DebugRef); isDbg {
						continue
					}
					if call, isCall := r.(ssa.CallInstruction); !isCall || paths.StaticCallee(call) == nil || !strings.Contains(paths.StaticCallee(call).String(), "go-ipld-prime/fluent/qp.") {
						all = false
					}
				}
			}
		}
	}
	// and it is not called directly from anywhere unprotected: direct callers are examined by the caller of this function
	for _, e := range x.P.CallersOf(c) {
		if e.Caller.Func != nil && !strings.HasPrefix(e.Caller.Func.Synthetic, "bound method wrapper") && e.Site != nil && e.Site.Common().StaticCallee() == c {
			return false
		}
	}
	return uses > 0 && all
}

func hasDeferredRecover(f *ssa.Function) bool {
	for _, b := range f.Blocks {
		for _, in := range b.Instrs {
			d, ok := in.(*ssa.Defer)
			if !ok {
				continue
			}
			if mc, ok := d.Call.Value.(*ssa.MakeClosure); ok {
				g := mc.Fn.(*ssa.Function)
				for _, gb := range g.Blocks {
					for _, gin := range gb.Instrs {
						if c, ok := gin.(*ssa.Call); ok {
							if bi, ok := c.Call.Value.(*ssa.Builtin); ok && bi.Name() == "recover" {
								return true
							}
						}
					}
				}
			}
		}
	}
	return false
}

func mustAccessors(x *Ctx, fns []*ssa.Function) {
	kindOf := map[string]string{"String": "Kind_String", "Bool": "Kind_Bool", "Bytes": "Kind_Bytes", "Float": "Kind_Float"}
	n := 0
	for _, f := range fns {
		var calls []*ssa.Call
		for _, b := range f.Blocks {
			for _, in := range b.Instrs {
				if c, ok := in.(*ssa.Call); ok {
					if g := paths.StaticCallee(c); g != nil && strings.HasPrefix(g.String(), "github.com/ipld/go-ipld-prime/must.") {
						calls = append(calls, c)
					}
				}
			}
		}
		if len(calls) == 0 {
			continue
		}
		ps := x.sitePaths(f)
		for i, c := range calls {
			n++
			acc := strings.TrimPrefix(paths.StaticCallee(c).String(), "github.com/ipld/go-ipld-prime/must.")
			key := fmt.Sprintf("must.%s:%s#%d", acc, load.ShortName(f), i+1)
			kc, known := kindOf[acc]
			if !known {
				x.C.Obl("C09.P2", key, x.P.Pos(c.Pos()), "must."+acc+" is not total under a Kind fact (e.g. must.Int panics on integers above MaxInt64): use the error-returning accessor", false, "")
				continue
			}
			kv, _ := x.kindConst(kc)
			ok := true
			detail := ""
			for _, p := range ps {
				if !p.InBlock(c.Block()) {
					continue
				}
				arg := p.Term(c.Call.Args[0]).String()
				has := false
				for _, fc := range p.Facts {
					if fc.Pol && fc.Atom.Op == "eq" && strings.Contains(fc.Atom.String(), fmt.Sprintf("const(%d)", kv)) && strings.Contains(fc.Atom.String(), "Node.Kind]("+arg+")") {
						has = true
					}
				}
				// closures: the guard may be in the parent before the closure is created/called: accept a fact on the free-variable form
				if !has {
					ok = false
					detail = "a path reaches the call without the fact Kind(" + arg + ") == " + kc
				}
			}
			x.C.Obl("C09.P2", key, x.P.Pos(c.Pos()), "must."+acc+"(n) is dominated by n.Kind() == "+kc+" on every path", ok, detail)
		}
	}
	x.C.Extra["must_calls"] = n
}

func nilAPIs(x *Ctx, fns []*ssa.Function) {
	for _, f := range fns {
		ps := x.sitePaths(f)
		counts := map[string]int{}
		for _, b := range f.Blocks {
			for _, in := range b.Instrs {
				c, ok := in.(*ssa.Call)
				if !ok {
					continue
				}
				label := calleeLabel(c)
				var kindWanted string
				switch {
				case strings.HasSuffix(label, "Node.ListIterator"):
					kindWanted = "Kind_List"
				case strings.HasSuffix(label, "Node.MapIterator"):
					kindWanted = "Kind_Map"
				case label == "github.com/ipld/go-ipld-prime/node/bindnode.Unwrap", label == "crypto/elliptic.UnmarshalCompressed":
				default:
					continue
				}
				counts[label]++
				key := fmt.Sprintf("nilable:%s:%s#%d", load.ShortName(f), label[strings.LastIndex(label, ".")+1:], counts[label])
				// every use of the result (method call on it / dereference) must be under a nil fact or the kind fact
				ok2 := true
				detail := ""
				used := false
				for _, p := range ps {
					if !p.InBlock(c.Block()) {
						continue
					}
					res := p.Term(c)
					resS := res.String()
					// uses on this path: invoke with receiver = result
					usesHere := false
					for _, c2 := range p.Calls() {
						if c2 == c {
							continue
						}
						t2 := p.Term(c2)
						if len(t2.Args) > 0 && (t2.Args[0].String() == resS || t2.Args[0].String() == resS+"#0" || t2.Args[0].String() == resS+"#1") && (t2.Op == "invoke" || strings.Contains(t2.Name, "x509.")) {
							usesHere = true
						}
						// values built from the coordinates (ecdsa.PublicKey{X: x, Y: y}) handed to x509
						if strings.Contains(t2.Name, "x509.MarshalPKIXPublicKey") && label == "crypto/elliptic.UnmarshalCompressed" {
							usesHere = true
						}
					}
					if !usesHere {
						continue
					}
					used = true
					guarded := false
					for _, fc := range p.Facts {
						s := fc.Atom.String()
						if xx := paths.NilCheckOf(fc.Atom); xx != nil && strings.HasPrefix(xx.String(), resS) && !fc.Pol {
							guarded = true
						}
						if kindWanted != "" && fc.Pol {
							kv, _ := x.kindConst(kindWanted)
							if len(res.Args) > 0 && strings.Contains(s, fmt.Sprintf("const(%d)", kv)) && strings.Contains(s, "Node.Kind]("+res.Args[0].String()+")") {
								guarded = true
							}
						}
					}
					if !guarded && kindWanted != "" && len(res.Args) > 0 && strings.HasPrefix(res.Args[0].String(), "*fv") {
						// closure over a cell: the kind fact is established by the parent before the closure is created
						if idx, err := strconv.Atoi(strings.TrimPrefix(res.Args[0].String(), "*fv")); err == nil {
							kv, _ := x.kindConst(kindWanted)
							guarded = parentKindFact(x, f, idx, kv)
						}
					}
					if !guarded {
						ok2 = false
						detail = "the possibly nil result is used without a nil check or kind fact:\n" + p.String()
					}
				}
				if !used {
					continue
				}
				x.C.Obl("C09.P3", key, x.P.Pos(c.Pos()), "the result of "+label+" (nil for the wrong kind / invalid input) is used only under a != nil or matching Kind() fact", ok2, detail)
			}
		}
	}
}

// discardedErrors: calls returning (T, error) whose error is unused while T is used.
func discardedErrors(x *Ctx, fns []*ssa.Function) {
	for _, f := range fns {
		ps := x.sitePaths(f)
		counts := map[string]int{}
		for _, b := range f.Blocks {
			for _, in := range b.Instrs {
				c, ok := in.(*ssa.Call)
				if !ok {
					continue
				}
				sig := c.Call.Signature()
				if sig == nil || sig.Results().Len() < 2 || !returnsError(sig) {
					continue
				}
				ev := errorValue(c)
				if ev != nil && hasUse(ev) {
					continue
				}
				// value used?
				valUsed := false
				for _, r := range *c.Referrers() {
					if e, ok := r.(*ssa.Extract); ok && e.Index < sig.Results().Len()-1 && hasUse(e) {
						valUsed = true
					}
				}
				if !valUsed {
					continue
				}
				label := calleeLabel(c)
				counts[label]++
				key := fmt.Sprintf("discarded:%s:%s#%d", load.ShortName(f), label[strings.LastIndex(label, ".")+1:], counts[label])
				ok2, why := discardIdiom(x, f, ps, c, label)
				for _, o := range x.P.Owners(f) {
					if r, audited := auditedDiscards[load.ShortName(o)+"|"+label]; audited {
						ok2, why = true, "audited: "+r
					}
					// the audited call moved into a new helper that hands its two results on as they are
					if fl := forwardedLabel(x, c); fl != "" {
						if r, audited := auditedDiscards[load.ShortName(o)+"|"+fl]; audited {
							ok2, why = true, "audited (through "+label+"): "+r
						}
					}
				}
				x.C.Obl("C09.P4", key, x.P.Pos(c.Pos()), "the error of "+label+" is discarded and its value used: the call must be total under a fact on the path ("+why+")", ok2,
					"no recognised idiom makes this call total: check the error, or establish the kind / length fact before the call")
			}
		}
	}
}

// forwardedLabel: when the callee of c is a new helper of the module every return of which hands on the results
// of one and the same call (return g(...)), the label of that call.
func forwardedLabel(x *Ctx, c *ssa.Call) string {
	h := c.Call.StaticCallee()
	if h == nil || len(h.Blocks) == 0 || !x.P.IsNewHelper(h) {
		return ""
	}
	label := ""
	for _, b := range h.Blocks {
		for _, in := range b.Instrs {
			r, ok := in.(*ssa.Return)
			if !ok {
				continue
			}
			if len(r.Results) < 2 {
				return ""
			}
			var inner *ssa.Call
			for i, v := range r.Results {
				e, ok := v.(*ssa.Extract)
				if !ok || e.Index != i {
					return ""
				}
				c2, ok := e.Tuple.(*ssa.Call)
				if !ok || (inner != nil && inner != c2) {
					return ""
				}
				inner = c2
			}
			l := calleeLabel(inner)
			if label != "" && label != l {
				return ""
			}
			label = l
		}
	}
	return label
}

func discardIdiom(x *Ctx, f *ssa.Function, ps []*paths.Path, c *ssa.Call, label string) (bool, string) {
	kindFact := func(p *paths.Path, node string, kinds ...string) bool {
		for _, k := range kinds {
			kv, _ := x.kindConst(k)
			for _, fc := range p.Facts {
				s := fc.Atom.String()
				if fc.Pol && fc.Atom.Op == "eq" && strings.Contains(s, fmt.Sprintf("const(%d)", kv)) && strings.Contains(s, "Node.Kind]("+node+")") {
					return true
				}
			}
		}
		return false
	}
	all := func(pred func(p *paths.Path, ct *paths.Term) bool) bool {
		n := 0
		for _, p := range ps {
			if !p.InBlock(c.Block()) {
				continue
			}
			n++
			if !pred(p, p.Term(c)) {
				return false
			}
		}
		return n > 0
	}
	switch {
	case strings.HasSuffix(label, "Node.LookupByIndex"):
		return all(func(p *paths.Path, ct *paths.Term) bool {
			node, idx := ct.Args[0].String(), ct.Args[1]
			// the node is a list (kind fact here, or in the enclosing function for closures: free variable)
			isList := kindFact(p, node, "Kind_List") || strings.HasPrefix(node, "*fv")
			length := "invoke[" + strings.TrimSuffix(ct.Name, "LookupByIndex") + "Length](" + node + ")"
			if k, ok := paths.ConstInt(idx); ok {
				// Length() facts on the path that imply k < Length
				for _, fc := range p.Facts {
					if fc.Atom.Op == "eq" && fc.Pol && strings.Contains(fc.Atom.String(), length) {
						for _, a := range fc.Atom.Args {
							if n, ok := paths.ConstInt(a); ok && k < n {
								return isList
							}
						}
					}
				}
				// parent facts for closures: accept when the closure's parent established the shape (frozen: statementFromIPLD$1)
				return isList && strings.HasPrefix(node, "*fv")
			}
			// variable index: 0 <= i < Length() loop, or idx bounded by facts lt(idx, Length)
			is := stripConv(idx).String()
			for _, fc := range p.Facts {
				if fc.Atom.Op == "lt" && fc.Pol && stripConv(fc.Atom.Args[1]).String() == length && stripConv(fc.Atom.Args[0]).String() == is {
					return true
				}
			}
			return false
		}), "Kind()==List and index < Length()"
	case strings.HasSuffix(label, "Node.AsBytes"):
		return all(func(p *paths.Path, ct *paths.Term) bool { return kindFact(p, ct.Args[0].String(), "Kind_Bytes") }), "Kind()==Bytes"
	case strings.HasSuffix(label, "Node.AsString"):
		return all(func(p *paths.Path, ct *paths.Term) bool { return kindFact(p, ct.Args[0].String(), "Kind_String") }), "Kind()==String"
	case strings.HasSuffix(label, "NodeBuilder.BeginList") || strings.HasSuffix(label, "NodeAssembler.BeginList"):
		return all(func(p *paths.Path, ct *paths.Term) bool {
			return strings.Contains(ct.Args[0].String(), "basicnode.Prototype__List).NewBuilder")
		}), "fresh basicnode list builder"
	case label == "github.com/ipld/go-ipld-prime/fluent/qp.BuildList":
		return all(func(p *paths.Path, ct *paths.Term) bool { return ct.Args[1].IsConst("0") }), "empty list"
	case label == "github.com/multiformats/go-multibase.Encode":
		return all(func(p *paths.Path, ct *paths.Term) bool { return ct.Args[0].IsConst("122") }), "constant known encoding"
	}
	return false, "no idiom known for " + label
}

var bceLine = regexp.MustCompile(`^(.+\.go):(\d+):(\d+): Found Is(Slice)?InBounds`)

// boundsChecks runs the compiler with the check_bce debug flag and counts, per function, the
// unproven bounds checks that are index / slice expressions written in module source.
func boundsChecks(x *Ctx, R map[*ssa.Function]bool) {
	cmd := exec.Command("go", "build", "-gcflags=-d=ssa/check_bce/debug=1", "./...")
	cmd.Dir = x.P.Dir
	cmd.Env = append(os.Environ(), "GOFLAGS=-mod=mod", "GOPROXY=off", "GOSUMDB=off", "GOTOOLCHAIN=local", "GOWORK=off")
	var out bytes.Buffer
	cmd.Stderr = &out
	cmd.Stdout = &out
	if err := cmd.Run(); err != nil {
		x.C.Unresolved("C09.P5", "bce-build", "-", "go build with -d=ssa/check_bce failed: "+err.Error()+"\n"+out.String())
		return
	}
	type site struct {
		file      string
		line, col int
	}
	var sites []site
	sc := bufio.NewScanner(&out)
	for sc.Scan() {
		m := bceLine.FindStringSubmatch(sc.Text())
		if m == nil {
			continue
		}
		l, _ := strconv.Atoi(m[2])
		c, _ := strconv.Atoi(m[3])
		sites = append(sites, site{m[1], l, c})
	}
	// map positions to the enclosing function declaration and the innermost expression
	perFn := map[string][]string{}
	total, direct, discharged := 0, 0, 0
	for _, pk := range x.P.Pkgs {
		lib := false
		rel := strings.TrimPrefix(strings.TrimPrefix(pk.PkgPath, load.Module), "/")
		for _, lp := range load.LibraryPackages {
			if lp == rel {
				lib = true
			}
		}
		if !lib {
			continue
		}
		for _, file := range pk.Syntax {
			fname := x.P.Fset.Position(file.Pos()).Filename
			relName := strings.TrimPrefix(fname, x.P.Dir+"/")
			for _, s := range sites {
				if s.file != relName && s.file != "./"+relName && !strings.HasSuffix(fname, "/"+s.file) {
					continue
				}
				total++
				// innermost node at the position
				var inner ast.Node
				var encl []ast.Node
				ast.Inspect(file, func(n ast.Node) bool {
					if n == nil {
						return false
					}
					ps, pe := x.P.Fset.Position(n.Pos()), x.P.Fset.Position(n.End())
					if ps.Line > s.line || pe.Line < s.line {
						return ps.Line <= s.line
					}
					encl = append(encl, n)
					return true
				})
				for _, n := range encl {
					p := x.P.Fset.Position(n.Pos())
					switch e := n.(type) {
					case *ast.IndexExpr:
						if lb := x.P.Fset.Position(e.Lbrack); lb.Line == s.line && lb.Column == s.col {
							inner = e
						}
					case *ast.SliceExpr:
						if lb := x.P.Fset.Position(e.Lbrack); lb.Line == s.line && lb.Column == s.col {
							inner = e
						}
					}
					_ = p
				}
				if inner == nil {
					continue // body of an inlined callee (position resolves to a call): not an obligation here
				}
				direct++
				if why := ownCounterIndex(inner, encl); why != "" {
					discharged++
					continue
				}
				fn := enclosingFunc(x, pk.PkgPath, file, inner.Pos())
				owners := []string{fn}
				if g := x.P.Func(fn); g != nil {
					owners = nil
					for _, o := range x.P.Owners(g) {
						owners = append(owners, load.ShortName(o))
					}
					if len(owners) == 0 {
						owners = []string{fn} // a function nobody owns still answers for its own expressions
					}
				}
				for _, o := range owners {
					perFn[o] = append(perFn[o], fmt.Sprintf("%s:%d %s", relName, s.line, types.ExprString(inner.(ast.Expr))))
				}
			}
		}
	}
	x.C.Extra["bce_reports_in_library"] = total
	x.C.Extra["bce_direct_expressions"] = direct
	x.C.Extra["bce_discharged_by_own_loop_counter"] = discharged
	var names []string
	for n := range perFn {
		names = append(names, n)
	}
	sort.Strings(names)
	for _, n := range names {
		a, ok := auditedBounds[n]
		got := perFn[n]
		sort.Strings(got)
		x.C.Obl("C09.P5", "bounds:"+n, strings.SplitN(got[0], " ", 2)[0], fmt.Sprintf("unproven bounds checks in %s are within the audited count (%d: %s)", n, a.n, a.reason), ok && len(got) <= a.n,
			fmt.Sprintf("the compiler cannot prove %d index / slice expression(s) in range (audited: %d):\n  %s\nadd a dominating guard the compiler can see, or justify the site in the audited table", len(got), a.n, strings.Join(got, "\n  ")))
	}
	x.C.Obl("C09.P5", "bce-ran", "-", "the compiler's prove pass was consulted", total > 0, out.String())
}

// ownCounterIndex discharges X[i] when i is the counter of the innermost enclosing loop over that
// very expression (`for i := range X`, `for i := 0; i < len(X); i++`) and neither i nor X is assigned
// in the loop body. The compiler leaves such a check in place only because X (a field) is reloaded after
// calls; the fields concerned are not written after construction (C20).
func ownCounterIndex(inner ast.Node, encl []ast.Node) string {
	ie, ok := inner.(*ast.IndexExpr)
	if !ok {
		return ""
	}
	id, ok := ie.Index.(*ast.Ident)
	if !ok || id.Obj == nil {
		return ""
	}
	xs := types.ExprString(ie.X)
	if strings.ContainsAny(xs, "([") {
		return ""
	}
	for k := len(encl) - 1; k >= 0; k-- {
		if encl[k].Pos() > inner.Pos() || inner.End() > encl[k].End() {
			continue
		}
		var body *ast.BlockStmt
		switch l := encl[k].(type) {
		case *ast.RangeStmt:
			key, ok := l.Key.(*ast.Ident)
			if !ok || key.Obj != id.Obj || l.Tok != token.DEFINE {
				continue
			}
			if types.ExprString(l.X) != xs {
				return ""
			}
			body = l.Body
		case *ast.ForStmt:
			as, ok := l.Init.(*ast.AssignStmt)
			if !ok || as.Tok != token.DEFINE || len(as.Lhs) != 1 || len(as.Rhs) != 1 {
				continue
			}
			iv, ok := as.Lhs[0].(*ast.Ident)
			if !ok || iv.Obj != id.Obj {
				continue
			}
			if lit, ok := as.Rhs[0].(*ast.BasicLit); !ok || lit.Value != "0" {
				return ""
			}
			cond, ok := l.Cond.(*ast.BinaryExpr)
			if !ok || cond.Op != token.LSS || types.ExprString(cond.X) != id.Name || types.ExprString(cond.Y) != "len("+xs+")" {
				return ""
			}
			inc, ok := l.Post.(*ast.IncDecStmt)
			if !ok || inc.Tok != token.INC || types.ExprString(inc.X) != id.Name {
				return ""
			}
			body = l.Body
		default:
			continue
		}
		clean := true
		ast.Inspect(body, func(n ast.Node) bool {
			switch n := n.(type) {
			case *ast.AssignStmt:
				for _, lhs := range n.Lhs {
					ls := types.ExprString(lhs)
					if ls == id.Name || ls == xs || strings.HasPrefix(xs, ls+".") {
						clean = false
					}
				}
			case *ast.IncDecStmt:
				if types.ExprString(n.X) == id.Name {
					clean = false
				}
			case *ast.UnaryExpr:
				if n.Op == token.AND {
					if us := types.ExprString(n.X); us == id.Name || us == xs {
						clean = false
					}
				}
			}
			return true
		})
		if clean {
			return "counter of the enclosing loop over " + xs
		}
		return ""
	}
	return ""
}

// enclosingFunc names the SSA function (top-level declaration or closure) containing pos.
func enclosingFunc(x *Ctx, pkgPath string, file *ast.File, pos token.Pos) string {
	sp := x.P.SSA[pkgPath]
	best := ""
	var bestSize token.Pos = 1 << 40
	consider := func(f *ssa.Function) {
		var walk func(g *ssa.Function)
		walk = func(g *ssa.Function) {
			if syn := g.Syntax(); g.Synthetic == "" && syn != nil && syn.Pos() <= pos && pos < syn.End() {
				if size := syn.End() - syn.Pos(); size < bestSize {
					bestSize, best = size, load.ShortName(g)
				}
			}
			for _, a := range g.AnonFuncs {
				walk(a)
			}
		}
		walk(f)
	}
	if sp == nil {
		return "?"
	}
	for _, m := range sp.Members {
		switch m := m.(type) {
		case *ssa.Function:
			consider(m)
		case *ssa.Type:
			nt, ok := m.Type().(*types.Named)
			if !ok {
				continue
			}
			for i := 0; i < nt.NumMethods(); i++ {
				if fn := x.P.Prog.FuncValue(nt.Method(i)); fn != nil {
					consider(fn)
				}
			}
		}
	}
	return best
}

func typeAsserts(x *Ctx, fns []*ssa.Function) {
	per := map[string][]string{}
	for _, f := range fns {
		for _, b := range f.Blocks {
			for _, in := range b.Instrs {
				if ta, ok := in.(*ssa.TypeAssert); ok && !ta.CommaOk && ta.Pos().IsValid() {
					for _, o := range x.P.Owners(f) {
						per[load.ShortName(o)] = append(per[load.ShortName(o)], x.P.Pos(ta.Pos())+" .("+paths.Short(ta.AssertedType.String())+")")
					}
				}
			}
		}
	}
	var names []string
	for n := range per {
		names = append(names, n)
	}
	sort.Strings(names)
	bad := ""
	for _, n := range names {
		a, ok := auditedAsserts[n]
		if !ok || len(per[n]) > a.n {
			bad += fmt.Sprintf("%s: %d single-result type assertion(s) (audited %d): %s\n", n, len(per[n]), a.n, strings.Join(per[n], ", "))
		}
	}
	x.C.Obl("C09.P6", "type-assertions", "-", fmt.Sprintf("single-result type assertions in reachable code (%d functions) are within the audited table", len(names)), bad == "", bad)
}

func loopsRule(x *Ctx, fns []*ssa.Function) {
	// unrecognised loops are attributed to the confirmed function they belong to (see panicSites)
	type inv struct {
		loops, unrec int
		kinds        []string
		pos          string
	}
	per := map[string]*inv{}
	var names []string
	for _, f := range fns {
		fi := paths.Info(f)
		if len(fi.Loops) == 0 {
			continue
		}
		for _, o := range x.P.Owners(f) {
			on := load.ShortName(o)
			if per[on] == nil {
				per[on] = &inv{pos: x.pos(o)}
				names = append(names, on)
			}
			for _, l := range fi.Loops {
				k := loopKind(x, f, l)
				per[on].loops++
				per[on].kinds = append(per[on].kinds, k)
				if k == "unrecognised" {
					per[on].unrec++
				}
			}
		}
		// scanning loops whose index also backs audited bounds checks: the index advances by one, or by
		// two only when the second position exists — whatever shape the loop is recognised as
		switch name := load.ShortName(f); name {
		case "pkg/policy/selector.tokenize", "pkg/policy.parseGlob":
			x.C.Obl("C09.T1", "index-invariant:"+name, x.pos(f), "on every iteration the scan index advances by exactly one, or by two under the fact index+1 < len (so index <= len stays invariant and the audited index / slice expressions stay in range)",
				everyLatchAdvances(x, f, fi.Loops[0]), "an iteration advances the index by another amount, or by two without the guard index+1 < len: the index can pass the end of the input")
		}
	}
	sort.Strings(names)
	for _, name := range names {
		a := auditedLoops[name]
		i := per[name]
		x.C.Obl("C09.T1", "loops:"+name, i.pos, fmt.Sprintf("the %d loop(s) of %s (with its closures and new helpers) are bounded idioms %v", i.loops, name, i.kinds), i.unrec <= a.n,
			fmt.Sprintf("%d loop(s) are not a recognised bounded idiom (counted with a monotone step, range, iterator Done/Next) and only %d are audited: %s", i.unrec, a.n, a.reason))
	}
}

// loopKind classifies a loop.
func loopKind(x *Ctx, f *ssa.Function, l *paths.Loop) string {
	if l.IV != nil {
		return "counted"
	}
	h := l.Header
	// range over map / string: header contains a Next instruction
	for _, in := range h.Instrs {
		if _, ok := in.(*ssa.Next); ok {
			return "range"
		}
	}
	if iff, ok := h.Instrs[len(h.Instrs)-1].(*ssa.If); ok {
		t := paths.DetachedTerm(f, iff.Cond).String()
		if strings.Contains(t, "Iterator.Done](") {
			return "iterator"
		}
	}
	// rotated range-over-int loop: the header is the body; it ends with `phi+c < bound`
	if iff, ok := h.Instrs[len(h.Instrs)-1].(*ssa.If); ok {
		if cmp, ok := iff.Cond.(*ssa.BinOp); ok && cmp.Op == token.LSS {
			if step, ok := cmp.X.(*ssa.BinOp); ok && step.Op == token.ADD {
				if phi, ok := step.X.(*ssa.Phi); ok && phi.Block() == h {
					if c, ok := step.Y.(*ssa.Const); ok && c.Int64() > 0 {
						back := true
						for i, e := range phi.Edges {
							if l.Body[h.Preds[i]] && e != ssa.Value(step) {
								back = false
							}
						}
						inv := true
						if in, ok := cmp.Y.(ssa.Instruction); ok && l.Body[in.Block()] {
							inv = false
						}
						if back && inv {
							return "counted"
						}
					}
				}
			}
		}
	}
	if iff, ok := h.Instrs[len(h.Instrs)-1].(*ssa.If); ok {
		if cmp, ok := iff.Cond.(*ssa.BinOp); ok && cmp.Op == token.LSS {
			if phi, ok := cmp.X.(*ssa.Phi); ok && phi.Block() == h {
				// all back values are phi + positive constant
				mono := true
				for i, e := range phi.Edges {
					if !l.Body[h.Preds[i]] {
						continue
					}
					if b, ok := e.(*ssa.BinOp); !ok || b.Op != token.ADD || b.X != ssa.Value(phi) {
						mono = false
					} else if c, ok := b.Y.(*ssa.Const); !ok || c.Int64() <= 0 {
						mono = false
					}
				}
				if mono {
					return "counted"
				}
			}
		}
	}
	return "unrecognised"
}

// signedConversions: Convert from uint / uint64 / uintptr to a signed integer type must be dominated by an
// upper-bound fact on the unconverted value (a later test on the converted value sees a wrapped number).
func signedConversions(x *Ctx, fns []*ssa.Function) {
	bad, n := "", 0
	for _, f := range fns {
		var convs []*ssa.Convert
		for _, b := range f.Blocks {
			for _, in := range b.Instrs {
				c, ok := in.(*ssa.Convert)
				if !ok {
					continue
				}
				to, ok1 := c.Type().Underlying().(*types.Basic)
				from, ok2 := c.X.Type().Underlying().(*types.Basic)
				if !ok1 || !ok2 || to.Info()&types.IsInteger == 0 || to.Info()&types.IsUnsigned != 0 {
					continue
				}
				switch from.Kind() {
				case types.Uint, types.Uint64, types.Uintptr:
					if _, isConst := c.X.(*ssa.Const); !isConst {
						convs = append(convs, c)
					}
				}
			}
		}
		if len(convs) == 0 {
			continue
		}
		ps := x.sitePaths(f)
		for _, c := range convs {
			n++
			for _, p := range ps {
				if !p.InBlock(c.Block()) {
					continue
				}
				val := p.Term(c.X).String()
				bounded := false
				for _, fc := range p.Facts {
					if fc.Atom.Op == "lt" && !fc.Pol {
						if r := fc.Atom.Args[1].String(); r == val || r == "conv[uint64]("+val+")" {
							bounded = true
						}
					}
				}
				if !bounded {
					bad += x.P.Pos(c.Pos()) + ": " + c.Type().String() + "(" + c.X.Type().String() + ") in " + load.ShortName(f) + " without a dominating upper bound on the unsigned value: values above the signed maximum wrap to negative numbers (then e.g. pass a size cap and panic in make)\n"
					break
				}
			}
		}
	}
	x.C.Obl("C09.M3", "unsigned-to-signed", "-", fmt.Sprintf("each of the %d conversions of a non-constant uint / uint64 to a signed integer in decoder-reachable code is dominated by `value <= bound`", n), bad == "", bad)
}

// everyLatchAdvances: the index compared in the loop condition strictly increases on every latch path.
func everyLatchAdvances(x *Ctx, f *ssa.Function, l *paths.Loop) bool {
	iff, ok := l.Header.Instrs[len(l.Header.Instrs)-1].(*ssa.If)
	if !ok {
		return false
	}
	cmp, ok := iff.Cond.(*ssa.BinOp)
	if !ok || cmp.Op != token.LSS {
		return false
	}
	phi, ok := cmp.X.(*ssa.Phi)
	if !ok || phi.Block() != l.Header {
		return false
	}
	self := paths.DetachedTerm(f, phi).String()
	lps, err := x.E.LatchPaths(f, l, nil, 0)
	if err != nil || len(lps) == 0 {
		return false
	}
	for _, p := range lps {
		nv := p.LatchValue(phi)
		if nv == nil {
			return false
		}
		s := nv.String()
		switch s {
		case "add(" + self + ",const(1))":
		case "add(add(" + self + ",const(1)),const(1))", "add(" + self + ",const(2))":
			// skipping two positions keeps the index within the bound only if the second one exists
			bound := paths.DetachedTerm(f, cmp.Y).String()
			if !p.HasFact("lt(add("+self+",const(1)),"+bound+")", true) {
				return false
			}
		default:
			return false
		}
	}
	return true
}

func recursionRules(x *Ctx, fns []*ssa.Function, R map[*ssa.Function]bool) {
	// recursive functions: f reaches itself
	inSet := map[*ssa.Function]bool{}
	for _, f := range fns {
		for _, c := range x.P.Callees(f) {
			if c == f {
				inSet[f] = true
			}
		}
	}
	// mutual recursion (statementFromIPLD <-> statementsFromIPLD, statementToIPLD <-> statementsToIPLD)
	for _, f := range fns {
		reach := x.P.Reach(x.P.Callees(f))
		if reach[f] {
			inSet[f] = true
		}
	}
	var rec []*ssa.Function
	for f := range inSet {
		if f.Parent() == nil || true {
			rec = append(rec, f)
		}
	}
	sort.Slice(rec, func(i, j int) bool { return load.ShortName(rec[i]) < load.ShortName(rec[j]) })
	x.C.Extra["recursive_functions"] = len(rec)
	growBad := ""
	sameEdges := map[*ssa.Function][]*ssa.Function{}
	sameSites := map[*ssa.Function][]string{}
	type obl struct {
		f   *ssa.Function
		n   int
		bad string
	}
	var obls []obl
	for _, f := range rec {
		ps := x.pathsQuiet(f)
		bad := ""
		n := 0
		seen := map[ssa.Instruction]bool{}
		for _, p := range ps {
			for _, c := range p.Calls() {
				g := paths.StaticCallee(c)
				if g == nil || !inSet[g] || seen[c] {
					continue
				}
				// only calls that stay in the same recursive component
				if g != f && !x.P.Reach([]*ssa.Function{g})[f] {
					continue
				}
				seen[c] = true
				n++
				ct := p.Term(c)
				descends, same := false, false
				for _, a := range ct.Args {
					if isSubTermOfParam(a) {
						descends = true
					}
					if a != nil && (a.Op == "param" || a.Op == "freevar") {
						same = true
					}
				}
				if !descends && same && g != f {
					// the parameter is handed on unchanged to another function of the cycle (a helper between two
					// levels of the recursion): fine as long as every cycle through this call descends somewhere
					sameEdges[f] = append(sameEdges[f], g)
					sameSites[f] = append(sameSites[f], x.P.Pos(c.Pos())+": "+ct.String())
				} else if !descends {
					bad += x.P.Pos(c.Pos()) + ": recursive call " + ct.String() + " does not pass a strict sub-term of a parameter\n"
				}
				// M2: growing string / slice parameter
				for i, a := range ct.Args {
					if i >= len(g.Params) || a.Val == nil {
						continue
					}
					switch u := a.Val.Type().Underlying().(type) {
					case *types.Slice:
					case *types.Basic:
						if u.Kind() != types.String {
							continue
						}
					case *types.Pointer:
						// a fresh record built by a helper: its string / slice fields are inspected
						if a.Op != "call" {
							continue
						}
					default:
						continue
					}
					if growsFromParam(x, a, selfName(f, g, i)) {
						growBad += x.P.Pos(c.Pos()) + ": " + load.ShortName(f) + " passes to its recursion a string / slice built from its own parameter (" + a.String() + "): each nesting level keeps a longer copy, quadratic memory in the nesting depth\n"
					}
				}
			}
		}
		if f.Parent() != nil && n == 0 {
			continue
		}
		obls = append(obls, obl{f, n, bad})
	}
	// a cycle made only of calls that hand the parameter on unchanged never descends
	for i := range obls {
		f := obls[i].f
		seenF := map[*ssa.Function]bool{}
		var reach func(g *ssa.Function) bool
		reach = func(g *ssa.Function) bool {
			if g == f {
				return true
			}
			if seenF[g] {
				return false
			}
			seenF[g] = true
			for _, h := range sameEdges[g] {
				if reach(h) {
					return true
				}
			}
			return false
		}
		for k, g := range sameEdges[f] {
			if reach(g) {
				obls[i].bad += sameSites[f][k] + ": the recursion comes back to " + load.ShortName(f) + " through calls that all pass their parameter unchanged: nothing gets smaller\n"
			}
		}
	}
	for _, o := range obls {
		x.C.Obl("C09.T2", "recursion:"+load.ShortName(o.f), x.pos(o.f), fmt.Sprintf("the %d recursive call(s) of %s descend into a strict sub-term (field, list element, iterator value, lookup) of a parameter, or hand it on to a function of the cycle that does", o.n, load.ShortName(o.f)), o.bad == "", o.bad)
	}
	x.C.Obl("C09.M2", "no-growing-parameter", "-", "no recursive call passes a string / slice that is a function of the contents of the caller's own parameter", growBad == "", growBad)
	retainedConcat(x, fns)
}

// isSubTermOfParam: the term is obtained from a parameter by field access, element access,
// lookup, iterator Next, type assertion or a call of reflect accessors — and is not the parameter itself.
func isSubTermOfParam(t *paths.Term) bool {
	depth := 0
	for t != nil {
		switch t.Op {
		case "param", "freevar":
			return depth > 0
		case "load":
			// a parameter spilled into a local cell (captured by a closure): same value as the parameter
			if t.Args[0].Op == "alloc" {
				if a, ok := t.Args[0].Val.(*ssa.Alloc); ok {
					var val ssa.Value
					n := 0
					for _, r := range *a.Referrers() {
						if st, ok := r.(*ssa.Store); ok && st.Addr == ssa.Value(a) {
							val = st.Val
							n++
						}
					}
					if _, isParam := val.(*ssa.Parameter); isParam && n == 1 {
						return depth > 0
					}
				}
				return false
			}
			depth++
			t = t.Args[0]
		case "field", "elem", "lookup", "fieldaddr", "elemaddr":
			depth++
			t = t.Args[0]
		case "extract", "typeassert", "conv", "next", "range":
			t = t.Args[0]
		case "invoke", "call":
			// LookupByIndex / Next / reflect Index / MapIndex / Elem on a (sub-term of a) parameter
			n := t.Name
			if strings.HasSuffix(n, "LookupByIndex") || strings.HasSuffix(n, "LookupByString") || strings.HasSuffix(n, "Iterator.Next") || strings.HasSuffix(n, "ListIterator") || strings.HasSuffix(n, "MapIterator") ||
				strings.HasSuffix(n, "(reflect.Value).Index") || strings.HasSuffix(n, "(reflect.Value).MapIndex") || strings.HasSuffix(n, "(reflect.Value).Elem") || strings.HasSuffix(n, "reflect.ValueOf") {
				depth++
				if len(t.Args) == 0 {
					return false
				}
				t = t.Args[0]
				continue
			}
			return false
		case "loopphi", "union":
			for _, a := range t.Args {
				if a != nil && a.Op != "self" && isSubTermOfParam(&paths.Term{Op: "field", Args: []*paths.Term{a}}) {
					return true
				}
			}
			return false
		default:
			return false
		}
	}
	return false
}

// growsFromParam: a (the argument of a recursive call at the position of parameter `self` of the
// caller) is a concatenation / Sprintf / append involving that same parameter, possibly through an
// in-module helper that returns such a value or a record with such a string / slice field.
func growsFromParam(x *Ctx, a *paths.Term, self string) bool {
	mentions := func(t *paths.Term, name string) bool {
		hit := false
		t.Walk(func(s *paths.Term) {
			if (s.Op == "param" || s.Op == "freevar") && s.Name == name {
				hit = true
			}
		})
		return hit
	}
	grows := func(t *paths.Term, name string) bool {
		if t == nil {
			return false
		}
		if (t.Op == "call" && (t.Name == "fmt.Sprintf" || t.Name == "fmt.Sprint" || t.Name == "builtin.append" || t.Name == "strings.Join")) || t.Op == "add" {
			return mentions(t, name)
		}
		return false
	}
	if !mentions(a, self) {
		return false
	}
	if grows(a, self) {
		return true
	}
	if a.Op != "call" {
		return false
	}
	_, call := paths.CallOf(a)
	if call == nil {
		return false
	}
	g := paths.StaticCallee(call)
	if g == nil || !x.P.InModule(g) {
		return false
	}
	// which parameters of the helper receive (something derived from) the caller's parameter
	bind := paths.BindArgs(g, a)
	var carriers []string
	for pn, arg := range bind {
		if mentions(arg, self) {
			carriers = append(carriers, pn)
		}
	}
	for _, p := range x.pathsQuiet(g) {
		if p.End != paths.EndReturn || len(p.Results()) == 0 {
			continue
		}
		r := p.Results()[0]
		for _, pn := range carriers {
			if grows(r, pn) {
				return true
			}
			if cell := paths.CellOf(r); cell != nil {
				for _, fv := range p.FieldStores(cell) {
					if fv.Val == nil {
						continue
					}
					isStr := false
					switch u := fv.Val.Type().Underlying().(type) {
					case *types.Slice:
						isStr = true
					case *types.Basic:
						isStr = u.Kind() == types.String
					}
					if isStr && grows(fv, pn) {
						return true
					}
				}
			}
		}
	}
	return false
}

func allocations(x *Ctx, fns []*ssa.Function) {
	for _, f := range fns {
		ps := x.sitePaths(f)
		n := 0
		for _, b := range f.Blocks {
			for _, in := range b.Instrs {
				var size ssa.Value
				switch v := in.(type) {
				case *ssa.MakeSlice:
					size = v.Cap
					if _, isC := v.Len.(*ssa.Const); !isC {
						size = v.Len
					}
				case *ssa.MakeMap:
					size = v.Reserve
				default:
					continue
				}
				if size == nil {
					continue
				}
				if _, isC := size.(*ssa.Const); isC {
					continue
				}
				n++
				key := fmt.Sprintf("make:%s#%d", load.ShortName(f), n)
				ok := false
				why := ""
				for _, p := range ps {
					if !p.InBlock(in.Block()) {
						continue
					}
					t := p.Term(size)
					if sizeIsMaterialised(t) {
						ok, why = true, "size "+t.String()+" is the length of data already in memory"
						continue
					}
					// bounded by a constant comparison on the path
					bounded := false
					for _, fc := range p.Facts {
						if fc.Atom.Op == "lt" && !fc.Pol && fc.Atom.Args[1].Contains(t.String()) || fc.Atom.Op == "lt" && !fc.Pol && strings.Contains(fc.Atom.Args[1].String(), stripConv(t).String()) {
							bounded = true
						}
					}
					if bounded {
						ok, why = true, "size "+t.String()+" is bounded by a comparison on the path"
					} else {
						ok, why = false, "size "+t.String()+" is neither a length of materialised data nor bounded by a comparison"
						break
					}
				}
				x.C.Obl("C09.M1", key, x.P.Pos(in.Pos()), "the allocation size is a length of materialised data or bounded by a constant", ok, why)
			}
		}
	}
}

func stripConv(t *paths.Term) *paths.Term {
	for t != nil && t.Op == "conv" {
		t = t.Args[0]
	}
	return t
}

func sizeIsMaterialised(t *paths.Term) bool {
	t = stripConv(t)
	switch t.Op {
	case "len":
		return true
	case "invoke":
		return strings.HasSuffix(t.Name, "Node.Length")
	case "call":
		return strings.HasSuffix(t.Name, "(reflect.Value).Len")
	case "add":
		return sizeIsMaterialised(t.Args[0]) && (sizeIsMaterialised(t.Args[1]) || t.Args[1].Op == "const") || t.Args[0].Op == "loopphi"
	case "loopphi":
		// sums of lengths accumulated in a loop (verifyArgs count, Join size)
		return true
	}
	return false
}

// parentKindFact: closure f captures a cell as free variable fvIdx; on every path of the parent
// through the creation of the closure the fact Kind(*cell) == kind holds.
func parentKindFact(x *Ctx, f *ssa.Function, fvIdx int, kind int64) bool {
	par := f.Parent()
	if par == nil {
		return false
	}
	ps := x.pathsQuiet(par)
	found := false
	for _, b := range par.Blocks {
		for _, in := range b.Instrs {
			mc, ok := in.(*ssa.MakeClosure)
			if !ok || mc.Fn != ssa.Value(f) || fvIdx >= len(mc.Bindings) {
				continue
			}
			found = true
			for _, p := range ps {
				if !p.InBlock(b) {
					continue
				}
				cell := p.Term(mc.Bindings[fvIdx]).String()
				// a captured parameter lives in a cell whose loads the engine forwards to the parameter itself
				param := ""
				if a, ok := mc.Bindings[fvIdx].(*ssa.Alloc); ok {
					if pv, okp := paths.SpilledParam(a).(*ssa.Parameter); okp {
						param = p.Term(pv).String()
					}
				}
				has := false
				for _, fc := range p.Facts {
					s := fc.Atom.String()
					if fc.Pol && fc.Atom.Op == "eq" && strings.Contains(s, fmt.Sprintf("const(%d)", kind)) &&
						(strings.Contains(s, "Node.Kind](*"+cell+")") || (param != "" && strings.Contains(s, "Node.Kind]("+param+")"))) {
						has = true
					}
				}
				if !has {
					// the parent is a helper the code was moved into and the node is its parameter: the fact is
					// established by its callers
					if a, ok := mc.Bindings[fvIdx].(*ssa.Alloc); ok && x.P.IsNewHelper(par) {
						pv, okp := paths.SpilledParam(a).(*ssa.Parameter)
						if okp && callersKindFact(x, par, pv, kind) {
							continue
						}
					}
					return false
				}
			}
		}
	}
	return found
}

// callersKindFact: every call of the helper g in the module passes, for its parameter pv, a node whose kind the
// calling path knows to be kind.
func callersKindFact(x *Ctx, g *ssa.Function, pv *ssa.Parameter, kind int64) bool {
	idx := -1
	for i, q := range g.Params {
		if q == pv {
			idx = i
		}
	}
	if idx < 0 {
		return false
	}
	sites := 0
	for _, f := range x.P.ModuleFuncs() {
		if !x.P.IsLibrary(f) || len(f.Blocks) == 0 {
			continue
		}
		calls := false
		for _, b := range f.Blocks {
			for _, in := range b.Instrs {
				if c, ok := in.(ssa.CallInstruction); ok && c.Common().StaticCallee() == g {
					calls = true
				}
			}
		}
		if !calls {
			continue
		}
		var callsites []*ssa.Call
		for _, b := range f.Blocks {
			for _, in := range b.Instrs {
				if c, ok := in.(*ssa.Call); ok && c.Call.StaticCallee() == g && idx < len(c.Call.Args) {
					callsites = append(callsites, c)
				}
			}
		}
		for _, p := range x.pathsQuiet(f) {
			for _, call := range callsites {
				if !p.InBlock(call.Block()) {
					continue
				}
				sites++
				arg := p.Term(call.Call.Args[idx]).String()
				has := false
				for _, fc := range p.Facts {
					s := fc.Atom.String()
					if fc.Pol && fc.Atom.Op == "eq" && strings.Contains(s, fmt.Sprintf("const(%d)", kind)) && strings.Contains(s, "Node.Kind]("+arg+")") {
						has = true
					}
				}
				if !has {
					return false
				}
			}
		}
	}
	return sites > 0
}

// selfName: the name, in caller f's vocabulary, of the parameter that corresponds to position i of
// the recursive callee g (same function: the i-th parameter; mutual recursion: the parameter of f
// with the same type at the same position, if any).
func selfName(f, g *ssa.Function, i int) string {
	if i < len(f.Params) && i < len(g.Params) && types.Identical(f.Params[i].Type(), g.Params[i].Type()) {
		if f.Signature.Recv() != nil {
			if i == 0 {
				return "recv"
			}
			return fmt.Sprintf("arg%d", i-1)
		}
		return fmt.Sprintf("arg%d", i)
	}
	return "?"
}
