package rules

import (
	"fmt"
	"go/token"
	"go/types"
	"math/big"
	"sort"
	"strings"

	"golang.org/x/tools/go/ssa"

	"verif/lint/internal/load"
	"verif/lint/internal/paths"
)

// indexTable (C12.R7): an index segment selects element i of a list or byte string, a negative i counting from
// the end (i + length), and fails (or yields "no value" when optional) outside [-length, length). In resolve the
// paths of the index case test only the segment's index, the length of the current node and integer constants;
// they are evaluated, per kind, on a grid of (index, length) that holds every breakpoint with its neighbours.
// At each point some path must apply; the paths that apply must all continue the loop with the element at the
// normalised index when the index is in range, and all leave with the failure exit when it is not. The length
// is the node's Length() for a list and len(AsBytes()) for bytes; Length() of a bytes node is -1 (datamodel
// contract), which is what it evaluates to here.
func indexTable(x *Ctx) {
	res := x.fn("C12.R7", selPkg+"resolve")
	if res == nil {
		return
	}
	ps := x.paths("C12.R7", res)
	if ps == nil {
		return
	}
	isIdx := func(t *paths.Term) bool {
		return (t.Op == "call" && strings.HasSuffix(t.Name, "segment).Index")) || (t.Op == "field" && t.Name == "index")
	}
	mentionsIdx := func(t *paths.Term) bool {
		found := false
		t.Walk(func(s *paths.Term) {
			if isIdx(s) {
				found = true
			}
		})
		return found
	}
	for _, k := range []struct {
		name, konst string
		bytes       bool
	}{{"list", "Kind_List", false}, {"bytes", "Kind_Bytes", true}} {
		kv, ok := x.kindConst(k.konst)
		if !ok {
			x.C.Unresolved("C12.R7", "kind:"+k.name, x.pos(res), "constant datamodel."+k.konst+" not found")
			continue
		}
		kindAtom := func(t *paths.Term) bool {
			if t.Op != "eq" || len(t.Args) != 2 {
				return false
			}
			a, b := t.Args[0], t.Args[1]
			if a.Op != "const" {
				a, b = b, a
			}
			return a.Op == "const" && a.Name == fmt.Sprint(kv) && (b.Op == "invoke" || b.Op == "call") && strings.HasSuffix(b.Name, "Node.Kind")
		}
		type sel struct {
			p     *paths.Path
			facts []paths.Fact // the arithmetic ones
			index *paths.Term  // the position looked up on this path (nil: none)
		}
		var sels []sel
		byteSites := map[*ssa.IndexAddr]bool{}
		for _, p := range ps {
			hasKind, arith := false, []paths.Fact(nil)
			for _, fc := range p.Facts {
				if kindAtom(fc.Atom) && fc.Pol {
					hasKind = true
				}
				if (fc.Atom.Op == "lt" || fc.Atom.Op == "eq") && mentionsIdx(fc.Atom) {
					arith = append(arith, fc)
				}
			}
			if !hasKind {
				continue
			}
			var at *paths.Term
			p.InstrsIn(func(in ssa.Instruction, c *paths.Ctx) {
				switch v := in.(type) {
				case *ssa.Call:
					if ct := c.Term(v); ct != nil && ct.Op == "invoke" && strings.HasSuffix(ct.Name, "Node.LookupByIndex") && len(ct.Args) == 2 && !k.bytes {
						at = ct.Args[1]
					}
				case *ssa.IndexAddr:
					if xt := c.Term(v.X); xt != nil && strings.Contains(xt.String(), "Node.AsBytes") && k.bytes {
						at = c.Term(v.Index)
						byteSites[v] = true
					}
				}
			})
			if len(arith) == 0 && at == nil {
				continue
			}
			sels = append(sels, sel{p, arith, at})
		}
		if len(sels) < 3 {
			x.C.Unresolved("C12.R7", "paths:"+k.name, x.pos(res), fmt.Sprintf("found %d paths of the index case on a %s node (expected: in range from the front, in range from the end, out of range)", len(sels), k.name))
			continue
		}
		evalErr := ""
		var eval func(t *paths.Term, i, n *big.Int) *big.Int
		eval = func(t *paths.Term, i, n *big.Int) *big.Int {
			switch {
			case t == nil:
			case isIdx(t):
				return i
			case t.Op == "const":
				if v, ok := new(big.Int).SetString(t.Name, 10); ok {
					return v
				}
			case t.Op == "conv" && len(t.Args) == 1 && (t.Name == "int" || t.Name == "int64"):
				return eval(t.Args[0], i, n)
			case t.Op == "invoke" && strings.HasSuffix(t.Name, "Node.Length"):
				if k.bytes {
					return big.NewInt(-1)
				}
				return n
			case t.Op == "len" && len(t.Args) == 1 && strings.Contains(t.Args[0].String(), "Node.AsBytes") && k.bytes:
				return n
			case t.Op == "add" && len(t.Args) == 2:
				return new(big.Int).Add(eval(t.Args[0], i, n), eval(t.Args[1], i, n))
			case t.Op == "sub" && len(t.Args) == 2:
				return new(big.Int).Sub(eval(t.Args[0], i, n), eval(t.Args[1], i, n))
			case t.Op == "unop" && t.Name == "-" && len(t.Args) == 1:
				return new(big.Int).Neg(eval(t.Args[0], i, n))
			}
			if evalErr == "" {
				evalErr = "term outside the vocabulary of the index case (index, length of the " + k.name + ", constants, + -): " + t.String()
			}
			return new(big.Int)
		}
		safe := big.NewInt(1<<53 - 1)
		nPts, bad := 0, ""
		for _, nn := range []int64{0, 1, 2, 3, 7, 1 << 31} {
			n := big.NewInt(nn)
			seen := map[string]bool{}
			var pts []*big.Int
			for _, base := range []*big.Int{big.NewInt(0), n, new(big.Int).Neg(n), safe, new(big.Int).Neg(safe), big.NewInt(2), big.NewInt(-2)} {
				for d := int64(-1); d <= 1; d++ {
					v := new(big.Int).Add(base, big.NewInt(d))
					if v.CmpAbs(safe) <= 0 && !seen[v.String()] {
						seen[v.String()] = true
						pts = append(pts, v)
					}
				}
			}
			for _, i := range pts {
				nPts++
				want := new(big.Int).Set(i)
				if i.Sign() < 0 {
					want.Add(want, n)
				}
				inRange := want.Sign() >= 0 && want.Cmp(n) < 0
				hits := 0
				for _, s := range sels {
					ok := true
					for _, fc := range s.facts {
						l, r := eval(fc.Atom.Args[0], i, n), eval(fc.Atom.Args[1], i, n)
						v := l.Cmp(r) < 0
						if fc.Atom.Op == "eq" {
							v = l.Cmp(r) == 0
						}
						if v != fc.Pol {
							ok = false
							break
						}
					}
					if evalErr != "" {
						x.C.Unresolved("C12.R7", "vocabulary:"+k.name, x.pos(res), evalErr)
						return
					}
					if !ok {
						continue
					}
					hits++
					cont := s.p.End == paths.EndLatch || (s.p.End == paths.EndReturn && s.index != nil)
					switch {
					case inRange && (s.index == nil || !cont):
						bad += fmt.Sprintf("index %s on a %s of length %s is in range (element %s) but the path that applies leaves without looking it up\n", i, k.name, n, want)
					case inRange:
						got := eval(s.index, i, n)
						if evalErr != "" {
							x.C.Unresolved("C12.R7", "vocabulary:"+k.name, x.pos(res), evalErr)
							return
						}
						if got.Cmp(want) != 0 {
							bad += fmt.Sprintf("index %s on a %s of length %s looks up element %s, expected %s\n", i, k.name, n, got, want)
						}
					case !inRange && s.index != nil:
						bad += fmt.Sprintf("index %s on a %s of length %s is out of range but the path that applies looks up element %s\n", i, k.name, n, eval(s.index, i, n))
					}
				}
				if hits == 0 {
					bad += fmt.Sprintf("index %s on a %s of length %s: no path of the index case applies\n", i, k.name, n)
				}
			}
		}
		if k.bytes {
			// the value of the selected byte: a fresh integer node built from that very byte (a table of prepared nodes
			// is one more place where one of the 256 values can go wrong)
			nB, badB := 0, ""
			for ia := range byteSites {
				nB++
				okB := false
				for _, r := range *ia.Referrers() {
					u, isLoad := r.(*ssa.UnOp)
					if !isLoad {
						continue
					}
					var follow func(v ssa.Value, depth int)
					follow = func(v ssa.Value, depth int) {
						if depth > 6 {
							return
						}
						for _, r2 := range *v.Referrers() {
							switch t := r2.(type) {
							case *ssa.Convert:
								follow(t, depth+1)
							case *ssa.ChangeType:
								follow(t, depth+1)
							case *ssa.Call:
								if h := t.Call.StaticCallee(); h != nil && h.Pkg != nil && h.Pkg.Pkg.Path() == "github.com/ipld/go-ipld-prime/node/basicnode" && h.Name() == "NewInt" && len(t.Call.Args) == 1 && t.Call.Args[0] == v {
									okB = true
								}
							}
						}
					}
					follow(u, 0)
				}
				if !okB {
					badB += fmt.Sprintf("%s: the byte selected is not handed (through conversions only) to basicnode.NewInt\n", x.P.Pos(ia.Pos()))
				}
			}
			x.C.Obl("C12.R7", "byte-node:resolve", x.pos(res), "an index into bytes yields basicnode.NewInt of the byte at that position", badB == "" && nB > 0, dedupLines(badB))
		}
		x.C.Obl("C12.R7", "index-table:"+k.name, x.pos(res),
			fmt.Sprintf("on each of %d points (index, length) the index case looks up element i (i >= 0) or length+i (i < 0) when that is within the %s and leaves through the failure exit otherwise", nPts, k.name),
			bad == "" && nPts > 50, firstLines(dedupLines(bad), 10))
	}
}

// decimalNumbers (C12.R8): the index and slice grammar of a selector admits digit strings with leading zeros
// ("[010]"); they are decimal. Every conversion of text to an integer that Parse can reach inside the selector
// package (strconv.Atoi, ParseInt, ParseUint) uses base 10 and the full width (bit size 0 or 64): base 0 would read
// "010" as 8 and refuse "08". A parser written without strconv has no such call and this rule decides nothing
// about it (recorded as an obligation that says so).
func decimalNumbers(x *Ctx) {
	parse := x.fn("C12.R8", selPkg+"Parse")
	if parse == nil {
		return
	}
	n := 0
	var fns []*ssa.Function
	for f := range x.P.Reach([]*ssa.Function{parse}) {
		if x.P.IsLibrary(f) && strings.HasSuffix(x.P.PkgPathOf(f), "/pkg/policy/selector") {
			fns = append(fns, f)
		}
	}
	sort.Slice(fns, func(i, j int) bool { return load.ShortName(fns[i]) < load.ShortName(fns[j]) })
	for _, f := range fns {
		for _, b := range f.Blocks {
			for _, in := range b.Instrs {
				c, ok := in.(ssa.CallInstruction)
				if !ok {
					continue
				}
				h := c.Common().StaticCallee()
				if h == nil || h.Pkg == nil || h.Pkg.Pkg.Path() != "strconv" {
					continue
				}
				args := c.Common().Args
				bad := ""
				switch h.Name() {
				case "Atoi":
				case "ParseInt", "ParseUint":
					if k, ok := args[1].(*ssa.Const); !ok || k.Int64() != 10 {
						bad += "the base is not the constant 10 (a digit string with a leading zero would be read as octal with base 0)\n"
					}
					if k, ok := args[2].(*ssa.Const); !ok || (k.Int64() != 0 && k.Int64() != 64) {
						bad += "the bit size is not 0 or 64: numbers within the safe-integer range would be refused\n"
					}
				default:
					continue
				}
				n++
				x.C.Obl("C12.R8", fmt.Sprintf("decimal:%s:%s#%d", load.ShortName(f), h.Name(), n), x.P.Pos(in.Pos()), "text of an index / slice bound is converted in base 10 at full width", bad == "", bad)
			}
		}
	}
	guardedAccumulators(x)
	if n == 0 {
		x.C.Obl("C12.R8", "decimal:none", x.pos(parse), "no strconv conversion is reachable from Parse in the selector package: numbers are converted by hand, which this rule does not decide", true, "")
	}
}

// noNarrowing (C12.R7): the numbers of a selector (indexes, slice bounds: up to 2^53-1 by Parse's own check) are
// kept and used at full width. Any conversion of a 64-bit integer to a narrower integer type in package selector
// (int32 fields "to avoid padding", int16 counters) wraps large values into small ones: .[4294967296] would
// select element 0. Conversions of constants are exempt.
func noNarrowing(x *Ctx) {
	size := func(t types.Type) (bits int, isInt bool) {
		b, ok := t.Underlying().(*types.Basic)
		if !ok || b.Info()&types.IsInteger == 0 {
			return 0, false
		}
		switch b.Kind() {
		case types.Int8, types.Uint8:
			return 8, true
		case types.Int16, types.Uint16:
			return 16, true
		case types.Int32, types.Uint32:
			return 32, true
		}
		return 64, true
	}
	bad, n := "", 0
	for _, f := range x.P.ModuleFuncs() {
		if !x.P.IsLibrary(f) || !strings.HasSuffix(x.P.PkgPathOf(f), "/pkg/policy/selector") {
			continue
		}
		for _, b := range f.Blocks {
			for _, in := range b.Instrs {
				c, ok := in.(*ssa.Convert)
				if !ok {
					continue
				}
				if _, isConst := c.X.(*ssa.Const); isConst {
					continue
				}
				from, ok1 := size(c.X.Type())
				to, ok2 := size(c.Type())
				if !ok1 || !ok2 {
					continue
				}
				n++
				if from == 64 && to < 64 {
					bad += fmt.Sprintf("%s: %s converts a %d-bit integer to %s: a number within the bounds Parse accepts wraps\n", x.P.Pos(c.Pos()), load.ShortName(f), from, c.Type())
				}
			}
		}
	}
	x.C.Obl("C12.R7", "full-width", "-", fmt.Sprintf("none of the %d integer conversions in package selector narrows a 64-bit value", n), bad == "", dedupLines(bad))
}

// guardedAccumulators (C12.R8): a number converted by hand (n = n*10 + digit in a loop) wraps silently on long
// digit strings: 18446744073709551617 becomes 1. Every loop of package selector that multiplies a loop-carried
// integer by a constant and adds to it must compare that integer (or the length of the text it reads) with a
// constant inside the loop or on the way into it; strconv does this itself.
func guardedAccumulators(x *Ctx) {
	for _, f := range x.P.ModuleFuncs() {
		if !x.P.IsLibrary(f) || !strings.HasSuffix(x.P.PkgPathOf(f), "/pkg/policy/selector") || len(f.Blocks) == 0 {
			continue
		}
		for _, l := range paths.Info(f).Loops {
			for _, phi := range l.HeaderPhis() {
				if _, ok := size64(phi.Type()); !ok {
					continue
				}
				// phi = phi*const + something along a back edge
				acc := false
				for i, e := range phi.Edges {
					if !l.Body[phi.Block().Preds[i]] {
						continue
					}
					if add, ok := e.(*ssa.BinOp); ok && (add.Op == token.ADD || add.Op == token.SUB) {
						for _, side := range []ssa.Value{add.X, add.Y} {
							if mul, ok := side.(*ssa.BinOp); ok && mul.Op == token.MUL {
								_, cx := mul.X.(*ssa.Const)
								_, cy := mul.Y.(*ssa.Const)
								if (mul.X == ssa.Value(phi) && cy) || (mul.Y == ssa.Value(phi) && cx) {
									acc = true
								}
							}
						}
					}
				}
				if !acc {
					continue
				}
				// a comparison of the accumulator (or of a value derived from it) with a constant inside the loop,
				// or of a length with a constant anywhere in the function
				guarded := false
				for _, b := range f.Blocks {
					for _, in := range b.Instrs {
						cmp, ok := in.(*ssa.BinOp)
						if !ok {
							continue
						}
						switch cmp.Op {
						case token.LSS, token.LEQ, token.GTR, token.GEQ:
						default:
							continue
						}
						_, cx := cmp.X.(*ssa.Const)
						_, cy := cmp.Y.(*ssa.Const)
						if !cx && !cy {
							continue
						}
						other := cmp.X
						if cx {
							other = cmp.Y
						}
						if l.Body[b] && derivesFrom(other, phi, 0) {
							guarded = true
						}
						if c, ok := other.(*ssa.Call); ok {
							if bi, ok := c.Call.Value.(*ssa.Builtin); ok && bi.Name() == "len" {
								guarded = true
							}
						}
					}
				}
				x.C.Obl("C12.R8", "accumulator:"+load.ShortName(f), x.P.Pos(phi.Pos()), "a number accumulated digit by digit is compared with a bound (or the length of its text is) before it can wrap", guarded,
					"the loop multiplies "+phi.Name()+" by a constant and adds to it with no comparison against a constant: a long digit string wraps around 2^64 into a small number")
			}
		}
	}
}

func size64(t types.Type) (int, bool) {
	b, ok := t.Underlying().(*types.Basic)
	if !ok || b.Info()&types.IsInteger == 0 {
		return 0, false
	}
	return 64, true
}

func derivesFrom(v ssa.Value, root ssa.Value, depth int) bool {
	if v == root {
		return true
	}
	if depth > 4 {
		return false
	}
	switch t := v.(type) {
	case *ssa.BinOp:
		return derivesFrom(t.X, root, depth+1) || derivesFrom(t.Y, root, depth+1)
	case *ssa.Convert:
		return derivesFrom(t.X, root, depth+1)
	case *ssa.UnOp:
		return derivesFrom(t.X, root, depth+1)
	}
	return false
}
