package rules

import (
	"fmt"
	"sort"
	"strings"

	"golang.org/x/tools/go/ssa"

	"verif/lint/internal/load"
	"verif/lint/internal/paths"
	"verif/lint/internal/report"
)

func init() {
	register(&Property{
		Meta: report.Meta{
			Property:    "C02",
			Explanation: "Path-fact analysis of verifyProofs: on every iteration of the loop over ALL proofs the call Command(delegations[i]).Covers(C) must be true, with C the loop-carried value whose entry is the invocation command and whose back-edge is Command(delegations[i]) (receiver/argument roles checked); the callee is pkg/command.Command.Covers, whose own shape is decided by C15. Decides the wiring of the narrowing check, not the coverage relation itself.",
			Assumptions: []string{"go/ssa faithfully represents the source"},
			Trusted:     []string{"golang.org/x/tools/go/ssa v0.29.0", "go/types"},
			NotDecided:  []string{"the coverage relation (C15)"},
		},
		Run: runC02,
	})
	register(&Property{
		Meta: report.Meta{
			Property:    "C03",
			Explanation: "Structural rules on verifyArgs / executionAllowed / Policy.Match: the policy handed to Match aggregates Policy(delegations[i]) for every i of a full-range loop (or Match is an iteration guard of such a loop); the data is ToIPLD(arguments) with its error checked, where arguments is recv.arguments for ExecutionAllowed and the hook's checked result for ExecutionAllowedWithArgsHook; success requires Match's verdict; Policy.Match is a conjunction: per statement result the table {True,OptionalNoData}->continue, {False,NoData}->false is read off the CFG for each of the four result values. Monotonicity follows from this conjunction shape. Args.ToIPLD must assemble every key of the container: each map entry is assembled in a full range loop over a permutation of recv.Keys (the list, a full copy, a sorted collection), keyed by the element, with no path through the body that skips the entry or leaves early.",
			Assumptions: []string{"go/ssa faithfully represents the source", "append(s, xs...) keeps all previous elements"},
			Trusted:     []string{"golang.org/x/tools/go/ssa v0.29.0", "go/types"},
			NotDecided:  []string{"truth of individual statements (C11-C13)", "Args.ToIPLD content (trusted builder)"},
		},
		Run: runC03,
	})
	register(&Property{
		Meta: report.Meta{
			Property:    "C04",
			Explanation: "Decision tables read off the CFG of both IsValidAt methods (every combination of bound present/absent and probe before/after), of verifyTimeBoundAt (invocation and every delegation of a full-range loop must be valid at the probe instant), of verifyTimeBound / IsValidNow (probe = time.Now()), and of parse.OptionalTimestamp (nil -> nil; value = time.Unix(sec,0); int53 bounds). Field/method pairing (expiration<->After, notBefore<->Before) and receiver/argument roles are part of the atoms. (R5) every exported option constructor: the function it returns, enumerated in the context of its creator, stores into *time.Time fields only cells allocated during the application, cells of the creator that no application writes (idempotent time.Round / Truncate / UTC of the cell's own value excepted), nil, or the caller's pointer. When the returned function ends in the application of another exported time option to the token, the single argument of that option must satisfy the same condition on the instant. (R3) on every path of executionAllowed the first call of time.Now comes after the call of loadProofs. (R5) if one path of the function an option returns stores a *time.Time field of the token, every path returning a nil error stores it, and none stores a value read from that very field of the token. (R2) in verifyTimeBoundAt (and new helpers) the block a loop test exits to has no predecessor inside the loop other than the header.",
			Assumptions: []string{"time.Time.After/Before/Unix semantics", "go/ssa faithfully represents the source"},
			Trusted:     []string{"golang.org/x/tools/go/ssa v0.29.0", "package time"},
			NotDecided:  []string{"behaviour exactly at a bound (left open by the property)", "time package semantics"},
		},
		Run: runC04,
	})
	register(&Property{
		Meta: report.Meta{
			Property:    "C05",
			Explanation: "Closed-world classification of denials: every failure exit of the eight functions of the authorization path is enumerated (all acyclic paths) and the branch fact that selects it must be one of the denials the rules allow (no proof, loader error, subject / audience / command / root mismatch, time-invalid token, argument encoding error, policy mismatch, hook error, or the propagated failure of a stage); no panic exit; the fields audience/meta/nonce/invokedAt/cause are never read. Together with the per-stage decision tables of C01-C04 this is the structural necessary condition for completeness.",
			Assumptions: []string{"correctness of Covers (C15), IsValidAt (C04), Policy.Match (C11), Args.ToIPLD", "go/ssa faithfully represents the source"},
			Trusted:     []string{"golang.org/x/tools/go/ssa v0.29.0", "go/types"},
			NotDecided:  []string{"that Match / Covers / ToIPLD themselves never deny a conforming input (C11, C15)"},
		},
		Run: runC05,
	})
}

func runC02(x *Ctx) {
	x.C.Rule("C02.R1", "per-link Covers guard with the running command, roles checked", 2)
	x.C.Rule("C02.R2", "Covers resolves to pkg/command.Command.Covers; Command getter returns the field", 3)
	vp := x.fn("C02.R1", invTok+"verifyProofs")
	if vp == nil {
		return
	}
	l, elem := x.proofLoop("C02.R1", vp, "arg0")
	if l == nil {
		return
	}
	cmdOf := "call[" + dlgTok + "Command](" + elem + ")"
	setCarriedScope(x, vp, l)
	defer setCarriedScope(nil, nil, nil)
	running := loopCarried(is("recv.command"), is(cmdOf))
	A := func(t *paths.Term) (bool, bool) {
		if t.Op == "call" && t.Name == "(pkg/command.Command).Covers" && len(t.Args) == 2 &&
			t.Args[0].String() == cmdOf && running(t.Args[1]) {
			return false, true
		}
		return false, false
	}
	x.mustBlock("C02.R1", "covers-guard:"+load.ShortName(vp), vp, l, A, 2,
		"each iteration fails unless Command(delegations[i]).Covers(C), C = invocation command for the first proof and Command(previous delegation) afterwards")
	cov := x.fn("C02.R2", "(pkg/command.Command).Covers")
	if cov != nil {
		x.C.Obl("C02.R2", "callee:Covers", x.pos(cov), "the guard's static callee is pkg/command.Command.Covers (decided by C15)", true, "")
	}
	x.accessor("C02.R2", dlgTok, "Command", "command", "")
	x.accessor("C02.R2", invTok, "Command", "command", "")
}

// ---------------------------------------------------------------------------------------------

func runC03(x *Ctx) {
	x.C.Rule("C03.R1", "Match receives the policies of every delegation of the chain", 2)
	defer noBreakOut(x, "C03.R1", invTok+"verifyArgs")
	x.C.Rule("C03.R2", "Match is applied to ToIPLD(arguments); arguments = recv.arguments / the hook's checked result; ToIPLD assembles every key", 4)
	x.C.Rule("C03.R3", "verifyArgs succeeds only if Match returned true", 1)
	x.C.Rule("C03.R4", "Policy.Match is a conjunction over all statements with the four-valued table", 7)

	va := x.fn("C03.R1", invTok+"verifyArgs")
	if va != nil {
		verifyArgsRules(x, va)
	}
	// what the entry points hand to verifyArgs, seen through the internal executionAllowed (spliced into the entry
	// points' paths, so that its own signature - an arguments parameter today, a function producing them, a
	// struct - does not matter)
	ea := x.fn("C03.R2", invTok+"executionAllowed")
	for _, ent := range []struct {
		name string
		hook bool
	}{{"ExecutionAllowed", false}, {"ExecutionAllowedWithArgsHook", true}} {
		f := x.fn("C03.R2", invTok+ent.name)
		if f == nil || ea == nil {
			continue
		}
		ps, err := paths.EnumerateSplicing(f, map[*ssa.Function]bool{ea: true})
		if err != nil {
			x.C.Unresolved("C03.R2", "paths:"+load.ShortName(f), x.pos(f), err.Error())
			continue
		}
		sel, unk, _ := x.E.SelectFrom(ps, f, paths.WantSuccess)
		ok := len(sel) > 0 && len(unk) == 0
		detail := ""
		for _, v := range sel {
			found := false
			for _, fc := range v.AllFacts() {
				xx := paths.NilCheckOf(fc.Atom)
				if xx == nil || !fc.Pol {
					continue
				}
				ct, _ := paths.CallOf(xx)
				if ct == nil || ct.Name != invTok+"verifyArgs" {
					continue
				}
				found = true
				if len(ct.Args) != 3 || ct.Args[0].String() != "recv" || ct.Args[1].String() != "call["+invTok+"loadProofs](recv,arg0)#0" {
					ok = false
					detail += "verifyArgs is called as " + ct.String() + "\n"
					continue
				}
				a := ct.Args[2]
				if !ent.hook {
					if a.String() != "recv.arguments" {
						ok = false
						detail += "the arguments checked are " + a.String() + ", not the token's own (recv.arguments)\n"
					}
					continue
				}
				// result #0 of the hook call (dyncall of parameter arg1), error (#1) checked nil on the path
				if a.Op != "extract" || a.Name != "#0" || a.Args[0].Op != "dyncall" || a.Args[0].Args[0].String() != "arg1" {
					ok = false
					detail += "the arguments checked are " + a.String() + ", not the hook's result\n"
					continue
				}
				if !v.HasFact(eqs(a.Args[0].String()+"#1", "const(nil)"), true) {
					ok = false
					detail += "the hook's error is not checked before using its result\n"
				}
			}
			if !found {
				ok = false
				detail += "a success path does not check verifyArgs\n"
			}
		}
		desc := "ExecutionAllowed checks the token's own arguments (recv.arguments) against the loaded delegations"
		if ent.hook {
			desc = "the hook variant checks the arguments returned by the hook (error checked), not recv.arguments, against the loaded delegations"
		}
		x.C.Obl("C03.R2", "args-source:"+load.ShortName(f), x.pos(f), desc, ok, dedupLines(detail))
	}
	containerComplete(x, "C03.R2", "(*pkg/args.Args).ToIPLD")
	policyMatchTable(x, "C03.R4", "(pkg/policy.Policy).Match", map[string]string{"True": "continue", "OptionalNoData": "continue", "False": "false", "NoData": "false"})
}

func verifyArgsRules(x *Ctx, va *ssa.Function) {
	sel, unknown, err := x.E.Select(va, paths.WantSuccess)
	if err != nil || len(unknown) > 0 {
		x.C.Unresolved("C03.R1", "outcome:"+load.ShortName(va), x.pos(va), fmt.Sprintf("cannot classify the paths of verifyArgs: %v (%d unknown)", err, len(unknown)))
		return
	}
	// find the Match call among the facts of success paths
	okAgg, okData := len(sel) > 0, len(sel) > 0
	dAgg, dData := "", ""
	for _, v := range sel {
		var mt *paths.Term
		for _, f := range v.AllFacts() {
			t := f.Atom
			if t.Op == "extract" && t.Name == "#0" && t.Args[0].Op == "call" && t.Args[0].Name == "(pkg/policy.Policy).Match" && f.Pol {
				mt = t.Args[0]
			}
		}
		if mt == nil {
			// idiom B: per-delegation Match as an iteration guard — checked below
			continue
		}
		recvT, data := mt.Args[0], mt.Args[1]
		// idiom A: accumulator
		if !isPolicyAccumulator(va, recvT) {
			okAgg = false
			dAgg += "Match receiver is " + recvT.Expand() + "\n"
		}
		want := "call[(*pkg/args.Args).ToIPLD](arg1)#0"
		if data.String() != want {
			okData = false
			dData += "Match data is " + data.String() + ", want " + want + "\n"
		} else if !v.HasFact("eq(call[(*pkg/args.Args).ToIPLD](arg1)#1,const(nil))", true) {
			okData = false
			dData += "ToIPLD error is not checked on the success path\n"
		}
	}
	// idiom B detection when no Match fact on success paths
	hasA := false
	for _, v := range sel {
		for _, f := range v.AllFacts() {
			if strings.HasPrefix(f.Atom.String(), "call[(pkg/policy.Policy).Match](") {
				hasA = true
			}
		}
	}
	if !hasA {
		// idiom B: full-range loop with Match(Policy(elem), data) guard
		l, elem := x.proofLoop("C03.R1", va, "arg0")
		if l == nil {
			return
		}
		polOf := "call[" + dlgTok + "Policy](" + elem + ")"
		A := func(t *paths.Term) (bool, bool) {
			if t.Op == "extract" && t.Name == "#0" && t.Args[0].Op == "call" && t.Args[0].Name == "(pkg/policy.Policy).Match" &&
				t.Args[0].Args[0].String() == polOf && t.Args[0].Args[1].String() == "call[(*pkg/args.Args).ToIPLD](arg1)#0" {
				return false, true
			}
			return false, false
		}
		x.mustBlock("C03.R1", "per-delegation-match:"+load.ShortName(va), va, l, A, 1, "each iteration fails unless Policy(delegations[i]).Match(ToIPLD(arguments)) is true")
		x.C.Obl("C03.R2", "match-data:"+load.ShortName(va), x.pos(va), "Match is applied to ToIPLD(arguments parameter)", true, "")
		x.C.Obl("C03.R3", "verdict:"+load.ShortName(va), x.pos(va), "success requires the verdict (idiom B: iteration guard)", true, "")
		return
	}
	x.C.Obl("C03.R1", "aggregation:"+load.ShortName(va), x.pos(va),
		"the receiver of Match is a fresh slice to which Policy(delegations[i]) is appended for every i of a loop over all proofs", okAgg, dAgg)
	// the accumulating loop is full range
	okLoop := false
	for _, l := range fullRangeLoopsAt(va, "len(recv.proof)", "len(arg0)") {
		if loopAppendsPolicies(l) {
			okLoop = true
		}
	}
	x.C.Obl("C03.R1", "aggregation-range:"+load.ShortName(va), x.pos(va), "the loop appending the policies runs from 0 to len(proofs) with step 1", okLoop, "no full-range loop whose carried slice is append(self, Policy(delegations[i])...)")
	x.C.Obl("C03.R2", "match-data:"+load.ShortName(va), x.pos(va), "Match is applied to ToIPLD(arguments parameter) with the encoding error checked", okData, dData)
	// R3 verdict
	A := func(t *paths.Term) (bool, bool) {
		if t.Op == "extract" && t.Name == "#0" && t.Args[0].Op == "call" && t.Args[0].Name == "(pkg/policy.Policy).Match" {
			return false, true
		}
		return false, false
	}
	x.mustBlock("C03.R3", "verdict:"+load.ShortName(va), va, nil, A, 1, "no success path when Policy.Match returned false or was not consulted")
}

// isPolicyAccumulator: t is loopphi{init=fresh make/nil; back=append($0, Policy(arg0[iv]))} of a full-range loop.
func isPolicyAccumulator(f *ssa.Function, t *paths.Term) bool {
	if t.Op != "loopphi" || len(t.Args) != 2 || t.Args[0] == nil || t.Args[1] == nil {
		return false
	}
	init, back := t.Args[0], t.Args[1]
	if !(init.IsNil() || (init.Op == "make" && strings.HasPrefix(init.Name, "pkg/policy.Policy") && (init.Args[0].IsConst("0")))) {
		return false
	}
	return isPolicyAppend(back)
}

func isPolicyAppend(back *paths.Term) bool {
	if back.Op != "call" || back.Name != "builtin.append" || len(back.Args) != 2 {
		return false
	}
	if back.Args[0].Op != "self" {
		return false
	}
	a := back.Args[1]
	// conv to []Statement may be interposed
	for a.Op == "conv" {
		a = a.Args[0]
	}
	return a.Op == "call" && a.Name == dlgTok+"Policy" && len(a.Args) == 1 && a.Args[0].Op == "elem" &&
		a.Args[0].Args[0].String() == "arg0" && a.Args[0].Args[1].Op == "iv"
}

func loopAppendsPolicies(la loopAt) bool {
	l := la.L
	for _, in := range l.Header.Instrs {
		phi, ok := in.(*ssa.Phi)
		if !ok {
			continue
		}
		t := paths.DetachedTerm(l.Fn, phi)
		if la.Sub != nil {
			t = t.Subst(la.Sub)
		}
		if t.Op == "loopphi" && t.Args[1] != nil && isPolicyAppend(t.Args[1]) {
			a := t.Args[1].Args[1]
			for a.Op == "conv" {
				a = a.Args[0]
			}
			if a.Args[0].Args[1].String() == fmt.Sprintf("iv#%d", l.Index) {
				return true
			}
		}
	}
	return false
}

// policyMatchTable reads the per-statement transition table of Policy.Match / PartialMatch.
func policyMatchTable(x *Ctx, rule, fname string, want map[string]string) {
	f := x.fn(rule, fname)
	if f == nil {
		return
	}
	ls := fullRangeLoops(f, "len(recv)")
	if len(ls) != 1 {
		x.C.Obl(rule, "range:"+fname, x.pos(f), "exactly one loop over all statements of the policy", false, fmt.Sprintf("found %d", len(ls)))
		return
	}
	l := ls[0]
	x.C.Obl(rule, "range:"+fname, x.pos(f), "exactly one loop over all statements of the policy (0..len(recv))", true, "")
	res := "call[pkg/policy.matchStatement](recv[" + ivName(l) + "],arg0)#0"
	ps := x.paths(rule, f)
	if ps == nil {
		return
	}
	for _, name := range []string{"True", "False", "NoData", "OptionalNoData"} {
		cv, ok := x.constOf(rule, "pkg/policy", "matchResult"+name)
		if !ok {
			continue
		}
		n, _ := constantInt(cv)
		A := paths.ValueIs(res, n)
		var outcomes []string
		var vps []paths.VPath
		for _, p := range ps {
			if !p.EntersBody(l) {
				continue
			}
			v := paths.VPath{Path: p}
			// the result must actually be consulted on the path
			if !x.E.Consistent(v, A, nil, 0) {
				continue
			}
			vps = append(vps, v)
			switch p.End {
			case paths.EndLatch:
				outcomes = append(outcomes, "continue")
			case paths.EndReturn:
				outcomes = append(outcomes, strings.TrimSuffix(strings.TrimPrefix(p.Results()[0].String(), "const("), ")"))
			default:
				outcomes = append(outcomes, p.End.String())
			}
		}
		uniq := map[string]bool{}
		for _, o := range outcomes {
			uniq[o] = true
		}
		ok = len(uniq) == 1 && uniq[want[name]]
		x.C.Obl(rule, "table:"+fname+":"+name, x.pos(f), "statement result "+name+" -> "+want[name], ok,
			fmt.Sprintf("outcomes read off the CFG: %v\n%s", outcomes, renderPaths(vps, 4)))
	}
	// fall-off value
	okFall := false
	detail := ""
	for _, p := range ps {
		if p.End == paths.EndReturn && !p.EntersBody(l) {
			r := p.Results()[0].String()
			if r == "const(true)" {
				okFall = true
			} else {
				okFall = false
				detail += "after the loop returns " + r + "\n"
				break
			}
		}
	}
	x.C.Obl(rule, "falloff:"+fname, x.pos(f), "after all statements passed the result is true", okFall, detail)
	// value-set closure of matchStatement's first result
	ms := x.fn(rule, "pkg/policy.matchStatement")
	if ms != nil && fname == "(pkg/policy.Policy).Match" {
		matchResultClosure(x, rule, ms)
	}
}

func matchResultClosure(x *Ctx, rule string, ms *ssa.Function) {
	ps := x.paths(rule, ms)
	if ps == nil {
		return
	}
	ok := true
	detail := ""
	n := 0
	for _, p := range ps {
		if p.End != paths.EndReturn {
			continue
		}
		n++
		r := p.Results()[0]
		if !matchResultTerm(r) {
			ok = false
			detail += x.termPos(r, ms) + ": first result is " + r.String() + "\n"
		}
	}
	// the boolToRes closure
	for _, af := range ms.AnonFuncs {
		qs := x.paths(rule, af)
		for _, q := range qs {
			if q.End == paths.EndReturn && len(q.Results()) > 0 {
				if !matchResultTerm(q.Results()[0]) {
					ok = false
					detail += "closure returns " + q.Results()[0].String() + "\n"
				}
			}
		}
	}
	x.C.Obl(rule, "value-set:pkg/policy.matchStatement", x.pos(ms),
		fmt.Sprintf("every first result of matchStatement (%d returning paths) is one of the four declared constants or the result of a recursive call", n), ok, detail)
}

func matchResultTerm(r *paths.Term) bool {
	if r.Op == "const" {
		return r.Name == "0" || r.Name == "1" || r.Name == "2" || r.Name == "3"
	}
	if r.Op == "extract" && r.Name == "#0" && r.Args[0].Op == "call" &&
		(r.Args[0].Name == "pkg/policy.matchStatement" || strings.HasPrefix(r.Args[0].Name, "pkg/policy.matchStatement$")) {
		return true
	}
	if r.Op == "union" {
		for _, a := range r.Args {
			if !matchResultTerm(a) {
				return false
			}
		}
		return true
	}
	return false
}

// ---------------------------------------------------------------------------------------------

func runC04(x *Ctx) {
	x.C.Rule("C04.R1", "IsValidAt decision tables (delegation: exp+nbf, invocation: exp)", 10)
	x.C.Rule("C04.R2", "verifyTimeBoundAt checks the invocation and every delegation at the probe instant", 3)
	defer noBreakOut(x, "C04.R2", invTok+"verifyTimeBoundAt")
	x.C.Rule("C04.R3", "the probe instant is time.Now(); IsValidNow = IsValidAt(time.Now())", 3)
	x.C.Rule("C04.R4", "parse.OptionalTimestamp: nil->nil, time.Unix(sec,0), int53 bounds", 5)
	x.C.Rule("C04.R5", "options: the instant a bound points to is not rewritten after the token is built", 7)
	boundCells(x)

	type bound struct{ field, cmp, inv string }
	tables := map[string][]bound{
		dlgTok: {{"expiration", "After", "Before"}, {"notBefore", "Before", "After"}},
		invTok: {{"expiration", "After", "Before"}},
	}
	for _, recv := range []string{dlgTok, invTok} {
		f := x.fn("C04.R1", recv+"IsValidAt")
		if f == nil {
			continue
		}
		bs := tables[recv]
		mk := func(b bound, isNil, violated bool) paths.Assign {
			return func(t *paths.Term) (bool, bool) {
				if xx := paths.NilCheckOf(t); xx != nil && xx.String() == "recv."+b.field {
					return isNil, true
				}
				if t.Op == "call" && len(t.Args) == 2 {
					// ti.After(*exp)  ==  exp.Before(ti)
					if t.Name == "(time.Time)."+b.cmp && t.Args[0].String() == "arg0" && t.Args[1].String() == "*recv."+b.field {
						return violated, true
					}
					if t.Name == "(time.Time)."+b.inv && t.Args[1].String() == "arg0" && t.Args[0].String() == "*recv."+b.field {
						return violated, true
					}
				}
				return false, false
			}
		}
		// each bound violated (present and on the wrong side) => never true, whatever the other bounds
		for _, b := range bs {
			vs, err := x.E.ConsistentPaths(f, paths.WantTrue, mk(b, false, true), 1)
			if err != nil {
				x.C.Unresolved("C04.R1", "paths:"+recv+"IsValidAt", x.pos(f), err.Error())
				continue
			}
			x.C.Obl("C04.R1", "violated:"+recv+"IsValidAt:"+b.field, x.pos(f),
				fmt.Sprintf("IsValidAt never returns true when %s is set and the probe is %s it", b.field, strings.ToLower(b.cmp)), len(vs) == 0, renderPaths(vs, 3))
		}
		// every combination of absent / respected bounds => never false, and some path returns true
		for mask := 0; mask < 1<<len(bs); mask++ {
			var as []paths.Assign
			label := ""
			for i, b := range bs {
				absent := mask&(1<<i) != 0
				as = append(as, mk(b, absent, false))
				if absent {
					label += b.field + "=absent,"
				} else {
					label += b.field + "=respected,"
				}
			}
			A := paths.Both(as...)
			vf, err := x.E.ConsistentPaths(f, paths.WantFalse, A, 1)
			if err != nil {
				x.C.Unresolved("C04.R1", "paths:"+recv+"IsValidAt", x.pos(f), err.Error())
				continue
			}
			vt, _ := x.E.ConsistentPaths(f, paths.WantTrue, A, 1)
			x.C.Obl("C04.R1", "valid:"+recv+"IsValidAt:"+label, x.pos(f),
				"with "+label+" IsValidAt returns true on some path and false on none", len(vf) == 0 && len(vt) > 0,
				fmt.Sprintf("%d path(s) return true; paths returning false:\n%s", len(vt), renderPaths(vf, 3)))
		}
	}
	// every *time.Time field of the two Token structs is covered by the tables (a new bound field must be added here)
	for _, tc := range []struct{ pkg, recv string }{{"token/delegation", dlgTok}, {"token/invocation", invTok}} {
		covered := map[string]bool{}
		for _, b := range tables[tc.recv] {
			covered[b.field] = true
		}
		okF, detail := true, ""
		for _, fld := range timeFields(x, tc.pkg, "Token") {
			if !covered[fld] && fld != "invokedAt" {
				okF = false
				detail += "field " + fld + " of type *time.Time is not in the validity table\n"
			}
		}
		x.C.Obl("C04.R1", "time-fields:"+tc.pkg, "-", "every *time.Time field of "+tc.pkg+".Token other than invokedAt is a bound of the validity table", okF, detail)
	}

	// R2
	vt := x.fn("C04.R2", invTok+"verifyTimeBoundAt")
	if vt != nil {
		invValid := "call[" + invTok + "IsValidAt](recv,arg0)"
		x.mustBlock("C04.R2", "invocation-valid:"+load.ShortName(vt), vt, nil, paths.AtomIs(invValid, false), 1,
			"no success path unless the invocation itself is valid at the probe instant")
		if l, elem := x.proofLoop("C04.R2", vt, "arg1"); l != nil {
			dv := "call[" + dlgTok + "IsValidAt](" + elem + ",arg0)"
			x.mustBlock("C04.R2", "delegation-valid:"+load.ShortName(vt), vt, l, paths.AtomIs(dv, false), 1,
				"each iteration fails unless delegations[i].IsValidAt(probe) is true")
		}
	}
	// R3
	if f := x.fn("C04.R3", invTok+"executionAllowed"); f != nil {
		// whether through a one-line wrapper or directly: the instant handed to verifyTimeBoundAt on the
		// authorization path is time.Now(), and the delegations are the ones loadProofs returned
		n, ok, detail := 0, true, ""
		for _, p := range x.pathsQuiet(f) {
			// the instant is taken once the delegations are there: a clock read before the (possibly slow) loader runs
			// judges the bounds at an instant that is already past when the verdict is given
			iNow, iLoad := -1, -1
			for i, c := range p.Calls() {
				if ct := p.Term(c); ct != nil && ct.Op == "call" {
					if ct.Name == "time.Now" && iNow < 0 {
						iNow = i
					}
					if ct.Name == invTok+"loadProofs" {
						iLoad = i
					}
				}
			}
			if iNow >= 0 && iLoad >= 0 && iNow < iLoad {
				ok = false
				detail += "the clock is read before loadProofs calls the loader\n"
			}
			for _, c := range p.Calls() {
				ct := p.Term(c)
				if ct.Op != "call" || ct.Name != invTok+"verifyTimeBoundAt" || len(ct.Args) != 3 {
					continue
				}
				n++
				if ct.Args[0].String() != "recv" || ct.Args[1].String() != "call[time.Now]()" || ct.Args[2].String() != "call["+invTok+"loadProofs](recv,arg0)#0" {
					ok = false
					detail += "checks " + ct.String() + "\n"
				}
			}
		}
		x.C.Obl("C04.R3", "clock:"+load.ShortName(f), x.pos(f), "the authorization path checks the time bounds at time.Now() on the delegations loadProofs returned", ok && n > 0, detail)
	}
	for _, recv := range []string{dlgTok, invTok} {
		if f := x.fn("C04.R3", recv+"IsValidNow"); f != nil {
			ps := x.paths("C04.R3", f)
			want := "call[" + recv + "IsValidAt](recv,call[time.Now]())"
			ok := len(ps) == 1 && ps[0].End == paths.EndReturn && ps[0].Results()[0].String() == want
			if !ok {
				// written out instead of calling IsValidAt: the same decision table as IsValidAt with the probe
				// replaced by time.Now()
				table := func(qs []*paths.Path, probe string) (map[string]bool, bool) {
					out := map[string]bool{}
					for _, q := range qs {
						if q.End != paths.EndReturn || len(q.Results()) != 1 {
							return nil, false
						}
						var fs []string
						for _, fc := range q.Facts {
							fs = append(fs, fmt.Sprintf("%v:%s", fc.Pol, fc.Atom))
						}
						sort.Strings(fs)
						row := strings.Join(fs, " & ") + " => " + q.Results()[0].String()
						if probe != "" {
							row = strings.ReplaceAll(row, probe, "call[time.Now]()")
						}
						out[row] = true
					}
					return out, len(out) > 0
				}
				if at := x.P.Func(recv + "IsValidAt"); at != nil {
					tn, ok1 := table(ps, "")
					ta, ok2 := table(x.pathsQuiet(at), "arg0")
					if ok1 && ok2 && len(tn) == len(ta) {
						ok = true
						for r := range tn {
							if !ta[r] {
								ok = false
							}
						}
					}
				}
			}
			x.C.Obl("C04.R3", "now:"+recv+"IsValidNow", x.pos(f), "IsValidNow returns IsValidAt(time.Now())", ok, fmt.Sprintf("%d paths", len(ps)))
		}
	}
	optionalTimestampRule(x, "C04.R4")
}

func timeFields(x *Ctx, pkgRel, typ string) []string {
	sp := x.P.SSA[load.Module+"/"+pkgRel]
	if sp == nil {
		return nil
	}
	var res []string
	for _, name := range x.structFields("C04.R1", pkgRel, typ) {
		if fieldTypeString(x, pkgRel, typ, name) == "*time.Time" {
			res = append(res, name)
		}
	}
	return res
}

func optionalTimestampRule(x *Ctx, rule string) {
	f := x.fn(rule, "token/internal/parse.OptionalTimestamp")
	if f == nil {
		return
	}
	maxV, ok1 := x.constOf(rule, "pkg/policy/limits", "MaxInt53")
	minV, ok2 := x.constOf(rule, "pkg/policy/limits", "MinInt53")
	if !ok1 || !ok2 {
		return
	}
	maxN, _ := constantInt(maxV)
	minN, _ := constantInt(minV)
	x.C.Obl(rule, "consts:int53", "-", "limits.MaxInt53 = 2^53-1 and MinInt53 = -(2^53-1)", maxN == 1<<53-1 && minN == -(1<<53-1), fmt.Sprintf("%d %d", maxN, minN))
	notNil := paths.AtomIs("eq(arg0,const(nil))", false)
	// nil -> (nil, nil)
	vs, err := x.E.ConsistentPaths(f, paths.WantAnyReturn, paths.AtomIs("eq(arg0,const(nil))", true), 0)
	if err != nil {
		x.C.Unresolved(rule, "paths:OptionalTimestamp", x.pos(f), err.Error())
		return
	}
	ok := len(vs) > 0
	for _, v := range vs {
		rs := v.Results()
		if !rs[0].IsNil() || !rs[1].IsNil() {
			ok = false
		}
	}
	x.C.Obl(rule, "nil:OptionalTimestamp", x.pos(f), "an absent timestamp yields (nil, nil)", ok, renderPaths(vs, 2))
	// a present timestamp is never turned into an absent one, whatever its value
	{
		vs, _ := x.E.ConsistentPaths(f, paths.WantSuccess, notNil, 0)
		good := len(vs) > 0
		detail := ""
		for _, v := range vs {
			r := v.Results()[0]
			if val := storedValue(v, r); val != "call[time.Unix](*arg0,const(0))" {
				good = false
				detail += "for a present timestamp returns " + r.String() + " holding " + val + ":\n" + v.String() + "\n"
			}
		}
		x.C.Obl(rule, "present-stays-present:OptionalTimestamp", x.pos(f), "every success path for a non-nil input returns a pointer to time.Unix(*sec, 0): no value (e.g. 0) is mapped to 'no bound'", good, detail)
	}
	for _, c := range []struct {
		name string
		v    int64
		succ bool
	}{{"above-max", maxN + 1, false}, {"below-min", minN - 1, false}, {"at-max", maxN, true}, {"at-min", minN, true}} {
		A := paths.Both(notNil, paths.ValueIs("*arg0", c.v))
		vs, _ := x.E.ConsistentPaths(f, paths.WantSuccess, A, 0)
		if c.succ {
			// value must be time.Unix(*sec, 0) stored in a fresh cell
			good := len(vs) > 0
			detail := ""
			for _, v := range vs {
				r := v.Results()[0]
				val := storedValue(v, r)
				if val != "call[time.Unix](*arg0,const(0))" {
					good = false
					detail += "returns " + r.String() + " holding " + val + "\n"
				}
			}
			x.C.Obl(rule, c.name+":OptionalTimestamp", x.pos(f), "a timestamp at the bound is accepted and converted with time.Unix(sec, 0)", good, detail)
		} else {
			x.C.Obl(rule, c.name+":OptionalTimestamp", x.pos(f), "a timestamp beyond +/-(2^53-1) is rejected", len(vs) == 0, renderPaths(vs, 2))
		}
	}
}

// storedValue renders the value stored (on the path) into the alloc that term r denotes.
func storedValue(v paths.VPath, r *paths.Term) string {
	out := "?"
	if r.Op != "alloc" {
		return r.String()
	}
	v.Instrs(func(in ssa.Instruction) {
		if st, ok := in.(*ssa.Store); ok && v.Term(st.Addr).String() == r.String() {
			out = v.Term(st.Val).String()
		}
	})
	return out
}

// ---------------------------------------------------------------------------------------------

func runC05(x *Ctx) {
	x.C.Rule("C05.R1", "every denial exit of the authorization path is one of the allowed denials", 11)
	x.C.Rule("C05.R2", "audience, meta, nonce, invokedAt, cause are never read on the authorization path", 1)

	type fn struct {
		name   string
		delegs string
	}
	funcs := []fn{
		{invTok + "ExecutionAllowed", ""}, {invTok + "ExecutionAllowedWithArgsHook", ""}, {invTok + "executionAllowed", ""},
		{invTok + "loadProofs", ""}, {invTok + "verifyProofs", "arg0"}, {invTok + "verifyTimeBound", ""},
		{invTok + "verifyTimeBoundAt", "arg1"}, {invTok + "verifyArgs", "arg0"},
	}
	stage := map[string]bool{}
	for _, s := range stageFuncs {
		stage[s] = true
	}
	stage[invTok+"executionAllowed"] = true
	stage[invTok+"verifyTimeBound"] = true

	for _, fd := range funcs {
		if fd.name == invTok+"verifyTimeBound" && x.P.Func(fd.name) == nil {
			continue // one-line wrapper of verifyTimeBoundAt: optional
		}
		f := x.fn("C05.R1", fd.name)
		if f == nil {
			continue
		}
		elem := ""
		iv := ""
		if fd.delegs != "" {
			for _, l := range fullRangeLoops(f, "len(recv.proof)", "len("+fd.delegs+")") {
				iv = ivName(l)
				elem = fd.delegs + "[" + iv + "]"
				setCarriedScope(x, f, l)
			}
		}
		allowed := allowedDenial(fd.delegs, elem, iv, stage)
		classifyDenials(x, fd.name, f, nil, allowed, stage, 2)
		setCarriedScope(nil, nil, nil)
	}
	irrelevantFieldsRule(x, "C05.R2", irrelevantFields)
}

// classifyDenials enumerates the failure exits of f (terms mapped through sub into the vocabulary of
// the stage function root) and records one obligation per exit. Failures propagated from helpers of
// package invocation that are not stages are classified inside the helper, with its parameters bound.
func classifyDenials(x *Ctx, root string, f *ssa.Function, sub map[string]*paths.Term, allowed func(paths.Fact) (string, bool), stage map[string]bool, depth int) {
	ps := x.paths("C05.R1", f)
	if ps == nil {
		return
	}
	isHelper := func(ct *paths.Term) *ssa.Function {
		if ct == nil || ct.Op != "call" || stage[ct.Name] {
			return nil
		}
		_, call := paths.CallOf(ct)
		if call == nil {
			return nil
		}
		g := paths.StaticCallee(call)
		if g == nil || len(g.Blocks) == 0 || x.P.PkgPathOf(g) != load.Module+"/token/invocation" {
			return nil
		}
		return g
	}
	where := root
	if load.ShortName(f) != root {
		where = root + ">" + load.ShortName(f)
	}
	for _, p := range ps {
		switch p.End {
		case paths.EndPanic:
			x.C.Obl("C05.R1", "panic-exit:"+where, x.pos(f), "no panic exit on the authorization path", false, renderPaths([]paths.VPath{{Path: p}}, 1))
			continue
		case paths.EndReturn:
		default:
			continue
		}
		if idx := len(p.Results()); idx == 0 {
			continue
		}
		o, ct := p.ErrorOutcome()
		switch o {
		case paths.Success:
			continue
		case paths.Unknown:
			x.C.Unresolved("C05.R1", "outcome:"+where, x.pos(f), "a returning path cannot be classified:\n"+p.String())
			continue
		case paths.Delegated:
			ct2, _ := paths.CallOf(ct)
			if ct2 != nil && (stage[ct2.Name] || ct2.Op == "dyncall" && ct2.Args[0].String() == "arg1") {
				continue
			}
			if g := isHelper(ct2); g != nil && depth > 0 {
				c2 := ct2
				if sub != nil {
					c2 = ct2.Subst(sub)
				}
				classifyDenials(x, root, g, paths.BindArgs(g, c2), allowed, stage, depth-1)
				continue
			}
		}
		var last *paths.Fact
		if len(p.Facts) > 0 {
			lf := p.Facts[len(p.Facts)-1]
			if sub != nil {
				lf.Atom = lf.Atom.Subst(sub)
			}
			last = &lf
		}
		// failure propagated from an in-package helper: classified inside the helper
		if last != nil && !last.Pol {
			if xx := paths.NilCheckOf(last.Atom); xx != nil {
				if ct2, _ := paths.CallOf(xx); ct2 != nil {
					if g := isHelper(ct2); g != nil && depth > 0 {
						classifyDenials(x, root, g, paths.BindArgs(g, ct2), allowed, stage, depth-1)
						continue
					}
				}
			}
		}
		why, ok := "", false
		if last != nil {
			why, ok = allowed(*last)
		}
		pos := x.pos(f)
		if p.Ret != nil && p.Ret.Pos().IsValid() {
			pos = x.P.Pos(p.Ret.Pos())
		}
		key := "denial:" + where + ":"
		if ok {
			key += why
		} else if last != nil {
			key += "unlisted:" + last.Key()
		} else {
			key += "unconditional"
		}
		x.C.Obl("C05.R1", key, pos, "the branch fact selecting this failure exit is an allowed denial", ok,
			"this failure exit is selected by a condition that is not among the denials the delegation rules allow:\n"+p.String())
	}
}

// allowedDenial returns a classifier of the selecting fact of a failure exit.
func allowedDenial(delegs, elem, iv string, stage map[string]bool) func(paths.Fact) (string, bool) {
	return func(f paths.Fact) (string, bool) {
		t := f.Atom
		// propagated failure of a stage / loader / hook / ToIPLD
		if xx := paths.NilCheckOf(t); xx != nil && !f.Pol {
			if ct, _ := paths.CallOf(xx); ct != nil {
				switch {
				case stage[ct.Name]:
					return "stage-failed:" + ct.Name, true
				case ct.Op == "invoke" && ct.Name == "token/delegation.Loader.GetDelegation" && len(ct.Args) == 2 && ct.Args[1].Op == "elem" && ct.Args[1].Args[0].String() == "recv.proof":
					return "loader-error", true
				case ct.Op == "dyncall" && ct.Args[0].String() == "arg1":
					return "hook-error", true
				case ct.Name == "(*pkg/args.Args).ToIPLD":
					return "args-encoding-error", true
				}
			}
		}
		// no proof
		if t.Op == "lt" && f.Pol && t.Args[1].IsConst("1") && (t.Args[0].String() == "len(arg0)" || t.Args[0].String() == "len(recv.proof)") {
			return "no-proof", true
		}
		if t.Op == "eq" && f.Pol && t.Args[0].IsConst("0") && (t.Args[1].String() == "len(arg0)" || t.Args[1].String() == "len(recv.proof)") {
			return "no-proof", true
		}
		if elem != "" {
			subj := "call[" + dlgTok + "Subject](" + elem + ")"
			aud := "call[" + dlgTok + "Audience](" + elem + ")"
			iss := "call[" + dlgTok + "Issuer](" + elem + ")"
			cmdOf := "call[" + dlgTok + "Command](" + elem + ")"
			if a, b, ok := eqOperands(t); ok && !f.Pol {
				if (a.String() == subj && loopInvariant("recv.subject")(b)) || (b.String() == subj && loopInvariant("recv.subject")(a)) {
					return "wrong-subject", true
				}
				lc := loopCarried(is("recv.issuer"), is(iss))
				if (a.String() == aud && lc(b)) || (b.String() == aud && lc(a)) {
					return "broken-chain", true
				}
			}
			if t.Op == "call" && t.Name == "(pkg/command.Command).Covers" && !f.Pol && len(t.Args) == 2 &&
				t.Args[0].String() == cmdOf && loopCarried(is("recv.command"), is(cmdOf))(t.Args[1]) {
				return "command-not-covered", true
			}
			if t.Op == "call" && t.Name == dlgTok+"IsValidAt" && !f.Pol && len(t.Args) == 2 && t.Args[0].String() == elem && t.Args[1].String() == "arg0" {
				return "delegation-not-valid-now", true
			}
		}
		if delegs != "" {
			if a, b, ok := eqOperands(t); ok && !f.Pol {
				for _, n := range []string{"len(" + delegs + ")", "len(recv.proof)"} {
					last := delegs + "[sub(" + n + ",const(1))]"
					li, ls := "call["+dlgTok+"Issuer]("+last+")", "call["+dlgTok+"Subject]("+last+")"
					as, bs := a.String(), b.String()
					if (as == li && (bs == ls || bs == "recv.subject")) || (bs == li && (as == ls || as == "recv.subject")) {
						return "last-not-root", true
					}
				}
			}
		}
		if t.Op == "call" && t.Name == invTok+"IsValidAt" && !f.Pol && len(t.Args) == 2 && t.Args[0].String() == "recv" && t.Args[1].String() == "arg0" {
			return "invocation-not-valid-now", true
		}
		if t.Op == "extract" && t.Name == "#0" && !f.Pol && t.Args[0].Op == "call" && t.Args[0].Name == "(pkg/policy.Policy).Match" {
			return "policy-not-satisfied", true
		}
		return "", false
	}
}
