package rules

import (
	"fmt"
	"go/types"
	"sort"
	"strings"

	"golang.org/x/tools/go/ssa"

	"verif/lint/internal/load"
	"verif/lint/internal/paths"
	"verif/lint/internal/report"
)

func init() {
	register(&Property{
		Meta: report.Meta{
			Property:    "C10",
			Explanation: "Structural rules on constructors and decoders: (R1) New, Root and tokenFromModel of both packages cannot succeed unless validate() of the very token they return succeeded, and validate cannot succeed with an undefined issuer, an undefined audience (delegation) / subject (invocation) or a nonce shorter than 12 bytes (decision tables, including the accumulator/closure idiom); (R2) fields of the Token structs are written only in New, tokenFromModel and the Option closures; (R3) in tokenFromModel every token field is the checked result of its validator applied to the corresponding model field (did.Parse, parse.OptionalDID, command.Parse, policy.FromIPLD, Args.Validate, parse.OptionalTimestamp); policy.FromIPLD requires ValidateIntegerBoundsIPLD; (R4) ValidateIntegerBoundsIPLD rejects integers beyond +/-(2^53-1) and AsInt errors, and recurses with a failing-on-error guard over the iterators of list and map nodes; Args.Add stores exactly the node that literal.Any produced and ValidateIntegerBoundsIPLD accepted; (R5) every conversion from an unsigned 64-bit value to int64 in literal/args/meta is dominated by an upper-bound fact; (R6) the two Tag constants differ, each Tag() returns its own, and the generic decoder dispatches each tag to its typed decoder (envelope shape: C06.R2). Strictness of bindnode for unknown / missing / retyped fields is trusted. (R7) args.Builder: after Add the error field is errors.Join(old, new), or left alone / replaced only on paths whose facts make that lossless; Build fails when it is set and returns the builder's own Args. literal.Any and anyAssemble: every scalar given to basicnode.New* / qp.String|Bytes|Bool|Int|Float / Assign* is reached from the parameter through type assertions, conversions, loads, phis and reflect.Value accessors only. delegation.Root passes WithSubject(issuer) to New as the last option (or sets the subject after New). A package-level node is handed out by literal.Any only under an equality test of the caller's value with the very bool, integer or string constant the node was built from. (R1) in New of both token packages a path with a fact that a dyncall (an option) answered non-nil ends in a failure return. (R4) literal.Any, anyAssemble, their literals and new helpers call neither literal.Null, qp.Null nor AssignNull, read neither datamodel.Null nor datamodel.Absent, and hand no constant to a scalar node constructor. (R4) in the token packages the value argument of every static call of (*Args).Add, (*Meta).Add, (*Meta).AddEncrypted and literal.Any is reached from parameters / captured variables through assertions, conversions, loads and phis only (stores into the captured variable inside the literal are followed); the same holds for the links built in literal.Any, anyAssemble and LinkCid (basicnode.NewLink, qp.Link, the package's constructor aliases; fields of local structs are followed). (R4) every path of anyAssemble returning qp.List carries the negative fact reflect.Uint8 == Type.Elem().Kind() of the value. (R4) totalLoop over anyAssemble with qp.MapEntry / qp.ListEntry as the emitting calls: one per loop, dominating every back edge. (R4) a Convert between a float and an integer type on the way to a node constructor counts as a change of the value; every path of anyAssemble returning qp.Map carries the positive fact reflect.String == Type.Key().Kind().",
			Assumptions: []string{"bindnode schema strictness (unknown, missing, wrongly typed fields)", "go-ipld-prime iterators visit every child"},
			Trusted:     []string{"go-ipld-prime bindnode", "golang.org/x/tools/go/ssa v0.29.0"},
			NotDecided:  []string{"bindnode's rejection of malformed payloads", "values produced by reflection in literal.anyAssemble beyond the bound facts"},
		},
		Run: runC10,
	})
}

// validator table of tokenFromModel: token field -> rendering of the value it must receive.
var decodeTable = map[string]map[string]string{
	"token/delegation": {
		"issuer":     "call[did.Parse](arg0.Iss)#0",
		"audience":   "call[did.Parse](arg0.Aud)#0",
		"subject":    "call[token/internal/parse.OptionalDID](arg0.Sub)#0",
		"command":    "call[pkg/command.Parse](arg0.Cmd)#0",
		"policy":     "call[pkg/policy.FromIPLD](arg0.Pol)#0",
		"nonce":      "arg0.Nonce",
		"meta":       "arg0.Meta|call[pkg/meta.NewMeta]()",
		"notBefore":  "call[token/internal/parse.OptionalTimestamp](arg0.Nbf)#0",
		"expiration": "call[token/internal/parse.OptionalTimestamp](arg0.Exp)#0",
	},
	"token/invocation": {
		"issuer":     "call[did.Parse](arg0.Iss)#0",
		"subject":    "call[did.Parse](arg0.Sub)#0",
		"audience":   "call[token/internal/parse.OptionalDID](arg0.Aud)#0",
		"command":    "call[pkg/command.Parse](arg0.Cmd)#0",
		"arguments":  "arg0.Args",
		"proof":      "arg0.Prf",
		"meta":       "arg0.Meta|call[pkg/meta.NewMeta]()",
		"nonce":      "arg0.Nonce",
		"expiration": "call[token/internal/parse.OptionalTimestamp](arg0.Exp)#0",
		"invokedAt":  "call[token/internal/parse.OptionalTimestamp](arg0.Iat)#0",
		"cause":      "arg0.Cause",
	},
}

func runC10(x *Ctx) {
	x.C.Rule("C10.R1", "constructors and decoders pass through validate(); validate's decision table; Root sets the subject last; a failing option stops the constructor", 17)
	x.C.Rule("C10.R2", "who may write Token fields", 2)
	x.C.Rule("C10.R3", "decode-side validators per field; policy decoders accept only the expected kinds and arities", 30)
	x.C.Rule("C10.R4", "integer bound validation: bounds, recursion over all children, Args.Add; literal.Any hands the caller's scalars to the node constructors unchanged and shares a node only for the exact constant it was built from, and never substitutes a null or constant node", 15)
	x.C.Rule("C10.R5", "lossless unsigned -> int64 conversions", 2)
	x.C.Rule("C10.R6", "tags distinct; generic decoder dispatch", 5)
	x.C.Rule("C10.R7", "args.Builder keeps every refusal of Args.Add until Build", 3)
	optionErrorsAbort(x)

	for _, pk := range []string{"token/delegation", "token/invocation"} {
		tok := "(*" + pk + ".Token)."
		val := x.fn("C10.R1", tok+"validate")
		if val == nil {
			continue
		}
		// constructors / decoder pass through validate of the returned token
		for _, cn := range []string{pk + ".New", pk + ".tokenFromModel"} {
			f := x.fn("C10.R1", cn)
			if f == nil {
				continue
			}
			x.noPath("C10.R1", "validate-required:"+cn, f, paths.WantSuccess, paths.CallFails(callee(tok+"validate")), 0, "no token is returned unless validate() succeeded")
			sel, _, _ := x.E.Select(f, paths.WantSuccess)
			ok := len(sel) > 0
			detail := ""
			for _, v := range sel {
				r := v.Results()[0].String()
				if !v.HasFact(eqs("call["+tok+"validate]("+r+")", "const(nil)"), true) {
					ok = false
					detail += "returns " + r + " but validate() was applied to another value\n"
				}
			}
			x.C.Obl("C10.R1", "validates-returned:"+cn, x.pos(f), "the token validated is the token returned", ok, detail)
		}
		if pk == "token/delegation" {
			if f := x.fn("C10.R1", pk+".Root"); f != nil {
				x.noPath("C10.R1", "validate-required:"+pk+".Root", f, paths.WantSuccess, paths.CallFails(callee(pk+".New")), 0, "Root returns what New returns")
			}
		}
		// validate's table
		second := "audience"
		if pk == "token/invocation" {
			second = "subject"
		}
		for _, fld := range []string{"issuer", second} {
			x.noPath("C10.R1", "defined:"+pk+":"+fld, val, paths.WantSuccess, atoms(map[string]bool{"call[(did.DID).Defined](recv." + fld + ")": false}), 1,
				"validate fails when "+fld+" is not a defined DID")
		}
		x.noPath("C10.R1", "nonce:"+pk+":11", val, paths.WantSuccess, paths.ValueIs("len(recv.nonce)", 11), 1, "validate fails for an 11-byte nonce")
		x.noPath("C10.R1", "nonce:"+pk+":0", val, paths.WantSuccess, paths.ValueIs("len(recv.nonce)", 0), 1, "validate fails for an empty nonce")
		okA := paths.Both(paths.ValueIs("len(recv.nonce)", 12), atoms(map[string]bool{"call[(did.DID).Defined](recv.issuer)": true, "call[(did.DID).Defined](recv." + second + ")": true}))
		x.somePath("C10.R1", "accepts:"+pk, val, paths.WantSuccess, okA, 1, "validate can succeed with defined principals and a 12-byte nonce")
	}

	whoWritesTokens(x)
	decodeValidators(x)
	integerBounds(x)
	losslessConversions(x)
	tagRules(x)
	builderKeepsRefusals(x)
	literalVerbatim(x)
	optionsPassValues(x)
	listsExcludeBytes(x)
	containersKeepEveryEntry(x)
	mapKeysAreStrings(x)
	rootSubjectLast(x)
}

// rootSubjectLast: a root delegation has its issuer as subject. Options are applied in order and each overwrites
// its field, so Root must hand WithSubject(issuer) to New as the LAST option (a caller's own WithSubject placed
// after it would win, and validate does not look at the subject).
func rootSubjectLast(x *Ctx) {
	f := x.fn("C10.R1", "token/delegation.Root")
	if f == nil {
		return
	}
	ok, n := true, 0
	detail := ""
	want := "call[token/delegation.WithSubject](arg0)"
	for _, p := range x.pathsQuiet(f) {
		if p.End != paths.EndReturn || len(p.Results()) == 0 {
			continue
		}
		if o, _ := p.ErrorOutcome(); o == paths.Failure {
			continue
		}
		r := p.Results()[0]
		if r.Op == "extract" && len(r.Args) == 1 {
			r = r.Args[0]
		}
		n++
		if r.Op != "call" || r.Name != "token/delegation.New" || len(r.Args) < 5 || r.Args[0].String() != "arg0" {
			// the subject may also be set on the token after New returned
			set := false
			p.InstrsIn(func(in ssa.Instruction, c *paths.Ctx) {
				if st, isSt := in.(*ssa.Store); isSt {
					if at := c.Term(st.Addr); at != nil && at.Op == "fieldaddr" && at.Name == "subject" && c.Term(st.Val).String() == "arg0" {
						set = true
					}
				}
			})
			if !set {
				ok = false
				detail += "Root returns " + r.String() + ": not New(iss, ...) with the subject option last, nor a token whose subject is set to the issuer afterwards\n"
			}
			continue
		}
		last := r.Args[len(r.Args)-1]
		good := false
		switch {
		case last.Op == "varargs" && len(last.Args) > 0 && last.Args[len(last.Args)-1].String() == want:
			good = true
		case last.Op == "call" && last.Name == "builtin.append" && len(last.Args) == 2 && last.Args[1].Op == "varargs" && len(last.Args[1].Args) > 0 && last.Args[1].Args[len(last.Args[1].Args)-1].String() == want:
			good = true
		}
		if !good {
			ok = false
			detail += "the options Root hands to New are " + last.String() + ": WithSubject(issuer) is not the last one, an option of the caller can replace the subject\n"
		}
	}
	x.C.Obl("C10.R1", "root-subject-last", x.pos(f), "Root applies WithSubject(issuer) after every option of the caller", ok && n > 0, dedupLines(detail))
}

func whoWritesTokens(x *Ctx) {
	for _, pk := range []string{"token/delegation", "token/invocation"} {
		tokT := load.Module + "/" + pk + ".Token"
		bad := ""
		n := 0
		for _, f := range x.P.ModuleFuncs() {
			if !x.P.IsLibrary(f) {
				continue
			}
			for _, b := range f.Blocks {
				for _, in := range b.Instrs {
					st, ok := in.(*ssa.Store)
					if !ok {
						continue
					}
					fa, ok := st.Addr.(*ssa.FieldAddr)
					if !ok || fa.X.Type().(*types.Pointer).Elem().String() != tokT {
						continue
					}
					n++
					// the writer, or - for a closure or a helper that did not exist on the confirmed tree - the confirmed
					// functions it belongs to / is called from
					name := load.ShortName(f)
					allowed := true
					for _, o := range x.P.Owners(f) {
						on := load.ShortName(o)
						if !(on == pk+".New" || on == pk+".tokenFromModel" || strings.HasPrefix(on, pk+".With") && o.Parent() == nil) {
							allowed = false
							name += " (reached from " + on + ")"
						}
					}
					if !allowed {
						bad += x.P.Pos(in.Pos()) + ": field of " + pk + ".Token written in " + name + "\n"
					}
				}
			}
		}
		x.C.Obl("C10.R2", "who-writes:"+pk, "-", fmt.Sprintf("the %d stores to fields of %s.Token are in New, tokenFromModel or an Option closure of a With* function", n, pk), bad == "" && n > 10, bad)
	}
}

func decodeValidators(x *Ctx) {
	for _, pk := range []string{"token/delegation", "token/invocation"} {
		f := x.fn("C10.R3", pk+".tokenFromModel")
		if f == nil {
			continue
		}
		sel, _, err := x.E.Select(f, paths.WantSuccess)
		if err != nil || len(sel) == 0 {
			x.C.Unresolved("C10.R3", "success:"+pk+".tokenFromModel", x.pos(f), "no classifiable success path")
			continue
		}
		table := decodeTable[pk]
		tokFields := x.structFields("C10.R3", pk, "Token")
		for _, fld := range tokFields {
			want, ok := table[fld]
			if !ok {
				x.C.Obl("C10.R3", "field:"+pk+":"+fld, x.pos(f), "the token field has an entry in the validator table", false, "new field "+fld+": add its validator to the table")
				continue
			}
			good := true
			detail := ""
			for _, v := range sel {
				cell := paths.CellOf(v.Results()[0])
				if cell == nil {
					good = false
					continue
				}
				got := v.FieldStores(cell)[fld]
				match := false
				for _, w := range strings.Split(want, "|") {
					if got != nil && got.String() == w {
						match = true
					}
				}
				if !match {
					good = false
					detail += fmt.Sprintf("%s = %v, want %s\n", fld, got, want)
					continue
				}
				// validator error checked
				if ct, _ := paths.CallOf(got); ct != nil && strings.HasSuffix(got.String(), "#0") {
					if !v.HasFact(eqs(ct.String()+"#1", "const(nil)"), true) {
						good = false
						detail += "error of " + ct.Name + " not checked\n"
					}
				}
			}
			x.C.Obl("C10.R3", "field:"+pk+":"+fld, x.pos(f), "token field "+fld+" = "+want+" (validator result, error checked)", good, detail)
		}
		x.noPath("C10.R3", "nonce-required:"+pk, f, paths.WantSuccess, paths.ValueIs("len(arg0.Nonce)", 0), 0, "a payload without nonce is rejected")
		if pk == "token/invocation" {
			x.noPath("C10.R3", "args-validated:"+pk, f, paths.WantSuccess, paths.CallFails(func(n string, ct *paths.Term) bool {
				return n == "(*pkg/args.Args).Validate" && len(ct.Args) == 1 && ct.Args[0].String() == "arg0.Args"
			}), 0, "the decoded arguments are validated (integer bounds)")
		}
	}
	if f := x.fn("C10.R3", "pkg/policy.FromIPLD"); f != nil {
		x.noPath("C10.R3", "policy-bounds", f, paths.WantSuccess, paths.CallFails(func(n string, ct *paths.Term) bool {
			return n == "pkg/policy/limits.ValidateIntegerBoundsIPLD" && ct.Args[0].String() == "arg0"
		}), 0, "policy.FromIPLD fails unless ValidateIntegerBoundsIPLD(node) succeeded")
	}
	// the policy decoders accept a node only under its kind fact: a value of another kind (an empty map where a
	// list of statements is expected, say) is a malformed policy, not an empty one
	kList, _ := x.kindConst("Kind_List")
	kString, _ := x.kindConst("Kind_String")
	isList := eqs(fmt.Sprintf("const(%d)", kList), "invoke[github.com/ipld/go-ipld-prime/datamodel.Node.Kind](arg1)")
	for _, name := range []string{"pkg/policy.statementsFromIPLD", "pkg/policy.statementFromIPLD"} {
		if f := x.fn("C10.R3", name); f != nil {
			x.noPath("C10.R3", "kind-guard:"+name, f, paths.WantSuccess, atoms(map[string]bool{isList: false}), 0, "no statement(s) are decoded from a node that is not a list")
		}
	}
	if f := x.fn("C10.R3", "pkg/policy.statementFromIPLD"); f != nil {
		op := "invoke[github.com/ipld/go-ipld-prime/datamodel.Node.LookupByIndex](arg1,const(0))#0"
		x.noPath("C10.R3", "operator-is-string", f, paths.WantSuccess, atoms(map[string]bool{eqs(fmt.Sprintf("const(%d)", kString), "invoke[github.com/ipld/go-ipld-prime/datamodel.Node.Kind]("+op+")"): false}), 0, "no statement is decoded unless its first element is a string")
		x.noPath("C10.R3", "arity", f, paths.WantSuccess, paths.Both(paths.ValueIs("invoke[github.com/ipld/go-ipld-prime/datamodel.Node.Length](arg1)", 1), paths.ValueIs("invoke[github.com/ipld/go-ipld-prime/datamodel.Node.Length](arg1)", 4)), 0, "placeholder")
		x.C.Obls = x.C.Obls[:len(x.C.Obls)-1]
		for _, n := range []int64{0, 1, 4} {
			x.noPath("C10.R3", fmt.Sprintf("arity=%d", n), f, paths.WantSuccess, paths.ValueIs("invoke[github.com/ipld/go-ipld-prime/datamodel.Node.Length](arg1)", n), 0, fmt.Sprintf("a statement tuple of %d elements is rejected", n))
		}
	}
	if f := x.fn("C10.R3", "token/internal/parse.OptionalDID"); f != nil {
		sel, _, _ := x.E.Select(f, paths.WantSuccess)
		ok := len(sel) == 2
		for _, v := range sel {
			r := v.Results()[0].String()
			if !(r == "*global(did.Undef)" && v.HasFact("eq(arg0,const(nil))", true)) && r != "call[did.Parse](*arg0)#0" {
				ok = false
			}
		}
		x.C.Obl("C10.R3", "OptionalDID", x.pos(f), "OptionalDID returns Undef for nil and did.Parse(*s) otherwise", ok, "")
	}
}

func integerBounds(x *Ctx) {
	f := x.fn("C10.R4", "pkg/policy/limits.ValidateIntegerBoundsIPLD")
	if f == nil {
		return
	}
	maxV, _ := x.constOf("C10.R4", "pkg/policy/limits", "MaxInt53")
	minV, _ := x.constOf("C10.R4", "pkg/policy/limits", "MinInt53")
	maxN, _ := constantInt(maxV)
	minN, _ := constantInt(minV)
	x.C.Obl("C10.R4", "consts", "-", "MaxInt53 = 2^53-1, MinInt53 = -(2^53-1)", maxN == 1<<53-1 && minN == -(1<<53-1), "")
	kInt, _ := x.kindConst("Kind_Int")
	kList, _ := x.kindConst("Kind_List")
	kMap, _ := x.kindConst("Kind_Map")
	kind := "invoke[github.com/ipld/go-ipld-prime.Node.Kind](arg0)"
	asInt := "invoke[github.com/ipld/go-ipld-prime.Node.AsInt](arg0)"
	isInt := paths.ValueIs(kind, kInt)
	okErr := atoms(map[string]bool{eqs("const(nil)", asInt+"#1"): true})
	x.noPath("C10.R4", "above-max", f, paths.WantSuccess, paths.Both(isInt, okErr, paths.ValueIs(asInt+"#0", maxN+1)), 0, "an integer above 2^53-1 is rejected")
	x.noPath("C10.R4", "below-min", f, paths.WantSuccess, paths.Both(isInt, okErr, paths.ValueIs(asInt+"#0", minN-1)), 0, "an integer below -(2^53-1) is rejected")
	x.noPath("C10.R4", "asint-error", f, paths.WantSuccess, paths.Both(isInt, atoms(map[string]bool{eqs("const(nil)", asInt+"#1"): false})), 0, "an integer that does not fit int64 is rejected")
	x.somePath("C10.R4", "at-max", f, paths.WantSuccess, paths.Both(isInt, okErr, paths.ValueIs(asInt+"#0", maxN)), 0, "2^53-1 is accepted")
	// recursion over children
	for _, c := range []struct {
		name string
		k    int64
		iter string
	}{{"list", kList, "ListIterator"}, {"map", kMap, "MapIterator"}} {
		it := "invoke[github.com/ipld/go-ipld-prime.Node." + c.iter + "](arg0)"
		var loop *paths.Loop
		for _, la := range loopsIn(f) {
			l := la.L
			if iff, ok := l.Header.Instrs[len(l.Header.Instrs)-1].(*ssa.If); ok {
				ct := paths.DetachedTerm(l.Fn, iff.Cond)
				if la.Sub != nil {
					ct = ct.Subst(la.Sub)
				}
				if strings.Contains(ct.String(), it) {
					loop = l
				}
			}
		}
		if loop == nil {
			x.C.Obl("C10.R4", "children:"+c.name, x.pos(f), "a loop iterates the "+c.name+" children until Done()", false, "no loop over "+it)
			continue
		}
		next := "invoke[github.com/ipld/go-ipld-prime/datamodel." + c.iter + ".Next](" + it + ")"
		rec := func(n string, ct *paths.Term) bool {
			return n == "pkg/policy/limits.ValidateIntegerBoundsIPLD" && len(ct.Args) == 1 && ct.Args[0].String() == next+"#1"
		}
		x.mustBlock("C10.R4", "children:"+c.name, f, loop, paths.CallFails(rec), 0,
			"every iteration over the "+c.name+" children fails unless the recursive validation of the child (Next() value) succeeded")
		// the loop is reached for that kind: some latch path carries the kind fact
		lps, _ := x.E.LatchPaths(f, loop, paths.ValueIs(kind, c.k), 0)
		x.C.Obl("C10.R4", "children-kind:"+c.name, x.pos(f), "the "+c.name+" loop runs for nodes of kind "+c.name, len(lps) > 0, "")
	}
	// Args.Add
	if g := x.fn("C10.R4", "(*pkg/args.Args).Add"); g != nil {
		lit := "call[pkg/policy/literal.Any](arg1)"
		x.noPath("C10.R4", "add:literal", g, paths.WantSuccess, paths.CallFails(callee("pkg/policy/literal.Any")), 0, "Args.Add fails unless literal.Any(val) succeeded")
		x.noPath("C10.R4", "add:bounds", g, paths.WantSuccess, paths.CallFails(func(n string, ct *paths.Term) bool {
			return n == "pkg/policy/limits.ValidateIntegerBoundsIPLD" && ct.Args[0].String() == lit+"#0"
		}), 0, "Args.Add fails unless ValidateIntegerBoundsIPLD(node) succeeded on the node literal.Any produced")
		sel, _, _ := x.E.Select(g, paths.WantSuccess)
		ok := len(sel) > 0
		detail := ""
		for _, v := range sel {
			found := false
			v.Instrs(func(in ssa.Instruction) {
				if mu, isMU := in.(*ssa.MapUpdate); isMU {
					found = true
					if v.Term(mu.Value).String() != lit+"#0" || v.Term(mu.Key).String() != "arg0" {
						ok = false
						detail += "stores " + v.Term(mu.Value).String() + " under " + v.Term(mu.Key).String() + "\n"
					}
				}
			})
			if !found {
				ok = false
				detail += "success path without a map store\n"
			}
		}
		x.C.Obl("C10.R4", "add:stores-validated", x.pos(g), "Args.Add stores exactly the validated node under the given key", ok, detail)
	}
}

// losslessConversions: Convert from an unsigned type that can exceed int64 to int64 must be
// dominated by an upper-bound fact on the converted value.
func losslessConversions(x *Ctx) {
	n, bad := 0, ""
	var fns []*ssa.Function
	for _, f := range x.P.ModuleFuncs() {
		pp := x.P.PkgPathOf(f)
		if pp == load.Module+"/pkg/policy/literal" || pp == load.Module+"/pkg/args" || pp == load.Module+"/pkg/meta" {
			fns = append(fns, f)
		}
	}
	for _, f := range fns {
		var convs []*ssa.Convert
		for _, b := range f.Blocks {
			for _, in := range b.Instrs {
				c, ok := in.(*ssa.Convert)
				if !ok {
					continue
				}
				to, ok1 := c.Type().Underlying().(*types.Basic)
				from, ok2 := c.X.Type().Underlying().(*types.Basic)
				if !ok1 || !ok2 || to.Kind() != types.Int64 {
					continue
				}
				switch from.Kind() {
				case types.Uint, types.Uint64, types.Uintptr:
					convs = append(convs, c)
				}
			}
		}
		if len(convs) == 0 {
			continue
		}
		ps := x.sitePaths(f)
		for _, c := range convs {
			n++
			okAll, seen := true, false
			for _, p := range ps {
				if !p.InBlock(c.Block()) {
					continue
				}
				seen = true
				val := p.Term(c.X).String()
				bounded := false
				for _, fc := range p.Facts {
					if fc.Atom.Op == "lt" && !fc.Pol && fc.Atom.Args[0].Op == "const" {
						if lim, ok := paths.ConstInt(fc.Atom.Args[0]); ok && lim >= 0 {
							if r := fc.Atom.Args[1].String(); r == val || r == "conv[uint64]("+val+")" {
								bounded = true
							}
						}
					}
				}
				if !bounded {
					okAll = false
				}
			}
			if !okAll || !seen {
				bad += x.P.Pos(c.Pos()) + ": int64(" + c.X.Type().String() + ") in " + load.ShortName(f) + " without a dominating upper-bound comparison: values above MaxInt64 wrap to negative numbers\n"
			}
		}
	}
	x.C.Obl("C10.R5", "unsigned-to-int64", "-", fmt.Sprintf("each of the %d conversions from uint/uint64/uintptr to int64 in literal, args, meta is dominated by `value <= bound`", n), bad == "" && n >= 1, bad)
	x.C.Obl("C10.R5", "conversion-sites", "-", "conversion sites found (three on the confirmed tree; merging them into a shared helper is fine)", n >= 1, fmt.Sprint(n))
}

func tagRules(x *Ctx) {
	dt, ok1 := x.constOf("C10.R6", "token/delegation", "Tag")
	it, ok2 := x.constOf("C10.R6", "token/invocation", "Tag")
	if ok1 && ok2 {
		x.C.Obl("C10.R6", "tags-distinct", "-", "the delegation and invocation tags differ and both start with ucan/", dt.ExactString() != it.ExactString() && strings.HasPrefix(dt.ExactString(), `"ucan/`) && strings.HasPrefix(it.ExactString(), `"ucan/`), dt.ExactString()+" "+it.ExactString())
	}
	for _, pk := range []string{"token/delegation", "token/invocation"} {
		f := x.fn("C10.R6", "(*"+pk+".tokenPayloadModel).Tag")
		if f == nil {
			continue
		}
		c, _ := x.constOf("C10.R6", pk, "Tag")
		ps := x.pathsQuiet(f)
		ok := len(ps) == 1 && c != nil && ps[0].Results()[0].String() == "const("+c.ExactString()+")"
		x.C.Obl("C10.R6", "tag-method:"+pk, x.pos(f), "Tag() returns the package's own Tag constant", ok, "")
	}
	if f := x.fn("C10.R6", "token.fromIPLD"); f != nil && ok1 && ok2 {
		tag := "call[token/internal/envelope.FindTag](arg0)#0"
		want := map[string]string{dt.ExactString(): "token/delegation.FromIPLD", it.ExactString(): "token/invocation.FromIPLD"}
		sel, _, _ := x.E.Select(f, paths.WantSuccess)
		got := map[string]string{}
		for _, v := range sel {
			r := v.Results()[0]
			ct, _ := paths.CallOf(r)
			for _, fc := range v.Facts {
				if fc.Pol && fc.Atom.Op == "eq" && (fc.Atom.Args[0].String() == tag || fc.Atom.Args[1].String() == tag) {
					c := fc.Atom.Args[1]
					if c.Op != "const" {
						c = fc.Atom.Args[0]
					}
					switch {
					case decodesWith(r, "token/delegation", "FromIPLD", "arg0"):
						got[c.Name] = "token/delegation.FromIPLD"
					case decodesWith(r, "token/invocation", "FromIPLD", "arg0"):
						got[c.Name] = "token/invocation.FromIPLD"
					case ct != nil && len(ct.Args) == 1 && ct.Args[0].String() == "arg0":
						got[c.Name] = ct.Name
					default:
						got[c.Name] = r.String()
					}
				}
			}
		}
		nSel := len(sel)
		// the same dispatch written as a package-level table tag -> decoder, indexed by the tag found
		if len(got) == 0 {
			for _, v := range sel {
				if tbl := tagDispatchTable(x, v.Results()[0], tag); tbl != nil {
					got = tbl
					nSel = 2
				}
			}
		}
		var ks []string
		for k, v := range got {
			ks = append(ks, k+"->"+v)
		}
		sort.Strings(ks)
		ok := len(got) == 2
		for k, v := range want {
			if got[k] != v {
				ok = false
			}
		}
		x.C.Obl("C10.R6", "dispatch", x.pos(f), "the generic decoder hands a node tagged as delegation / invocation to that package's FromIPLD and nothing else succeeds", ok && nSel == 2, strings.Join(ks, "; "))
		x.noPath("C10.R6", "dispatch:findtag", f, paths.WantSuccess, paths.CallFails(callee("token/internal/envelope.FindTag")), 0, "no token unless the tag was found")
	}
}

// tagDispatchTable reads `table[tag](node)` - table a package-level map literal from tag constants to decoder
// functions, tag the result of FindTag(node), the comma-ok result checked by the caller - as the association
// tag constant -> decoder name; nil if r is not of that form.
func tagDispatchTable(x *Ctx, r *paths.Term, tag string) map[string]string {
	ct, _ := paths.CallOf(r)
	if ct == nil || ct.Op != "dyncall" || len(ct.Args) != 2 || ct.Args[1].String() != "arg0" {
		return nil
	}
	ft := ct.Args[0]
	if ft.Op == "extract" {
		ft = ft.Args[0]
	}
	if ft.Op != "lookup" || ft.Args[1].String() != tag || ft.Args[0].Op != "load" || ft.Args[0].Args[0].Op != "global" {
		return nil
	}
	g, ok := ft.Args[0].Args[0].Val.(*ssa.Global)
	if !ok {
		return nil
	}
	out := map[string]string{}
	init := g.Pkg.Func("init")
	if init == nil {
		return nil
	}
	var m ssa.Value
	for _, b := range init.Blocks {
		for _, in := range b.Instrs {
			if st, ok := in.(*ssa.Store); ok && st.Addr == ssa.Value(g) {
				m = st.Val
			}
		}
	}
	for _, b := range init.Blocks {
		for _, in := range b.Instrs {
			mu, ok := in.(*ssa.MapUpdate)
			if !ok || mu.Map != m {
				continue
			}
			k, ok := mu.Key.(*ssa.Const)
			if !ok {
				return nil
			}
			v := mu.Value
			if ctv, ok := v.(*ssa.ChangeType); ok {
				v = ctv.X
			}
			fn, ok := v.(*ssa.Function)
			if !ok {
				return nil
			}
			name := load.ShortName(fn)
			// an adapter (a function literal that only forwards to a typed decoder) stands for that decoder
			if fn.Parent() != nil || !(fn.Object() != nil && fn.Object().Exported()) {
				if sel, _, err := x.E.Select(fn, paths.WantSuccess); err == nil && len(sel) > 0 {
					for _, pk := range []string{"token/delegation", "token/invocation"} {
						all := true
						for _, v := range sel {
							if !decodesWith(v.Results()[0], pk, "FromIPLD", "arg0") {
								all = false
							}
						}
						if all {
							name = pk + ".FromIPLD"
						}
					}
				}
			}
			out[k.Value.ExactString()] = name
		}
	}
	return out
}
