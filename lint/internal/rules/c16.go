package rules

import (
	"fmt"
	"sort"
	"strings"

	"golang.org/x/tools/go/ssa"

	"verif/lint/internal/load"
	"verif/lint/internal/paths"
	"verif/lint/internal/report"
)

func init() {
	register(&Property{
		Meta: report.Meta{
			Property:    "C16",
			Explanation: "Table agreement and must-facts in package did: (R1) the multicodec codes did.FromPubKey / codeForCurve can emit are a subset of the codes did.Parse accepts, which are a subset of the keys of DID.PubKey's unmarshaller table (type-resolved constants read off the CFG); (R2) layout — Parse stores the whole multibase payload and the code decoded from its varint prefix, FromPubKey builds varint(code) ++ key with the same code it stores, PubKey strips UvarintSize(code) bytes and selects the unmarshaller by the stored code; (R3) Parse cannot succeed without the did:key: prefix, multibase decoding, base58btc, varint decoding and a whitelisted code; (R4) canonical identifier — PubKey returns a key only if the DID re-derived from it with FromPubKey equals the receiver (or, alternative idiom, a length fact rules out the uncompressed secp256k1 form); (R5) the compressed-point unmarshaller checks the nil result of elliptic.UnmarshalCompressed. (R3, closed world) Parse refuses a string only for: missing did:key: prefix, multibase error, not base58btc, varint error, multicodec not whitelisted - any other rejection could refuse identifiers FromPubKey produces. Equality of keys after a round trip is the libraries' behaviour and is not decided. Key unmarshallers (func([]byte) (crypto.PubKey, error) in package did): every condition on a refusing path is the error / nil verdict of a library call. did.ToPubKey returns (DID).PubKey(did.Parse(text)). (R5) no Store in a function literal of package did has an address derived from a free variable. (R6) every success path of coerceECDSAToSecp256k1 carries the fact that the error of ParsePubKey is nil.",
			Assumptions: []string{"go-multibase / go-varint / libp2p crypto / crypto/elliptic / crypto/x509 behave as documented"},
			Trusted:     []string{"go-multibase", "go-varint", "go-libp2p/core/crypto", "crypto/elliptic", "crypto/x509", "golang.org/x/tools/go/ssa v0.29.0"},
			NotDecided:  []string{"key equality after a round trip (library behaviour)", "strictness of the Ed25519 / RSA / compressed-point parsers"},
		},
		Run: runC16,
	})
}

func runC16(x *Ctx) {
	x.C.Rule("C16.R1", "emitted codes ⊆ parsed codes ⊆ unmarshaller table", 3)
	x.C.Rule("C16.R2", "byte layout agreement between Parse, FromPubKey and PubKey", 3)
	x.C.Rule("C16.R3", "Parse guards; no other cause of rejection", 6)
	x.C.Rule("C16.R4", "PubKey only accepts the canonical identifier of the key; unmarshallers refuse only what the library refuses; ToPubKey goes through PubKey", 5)
	x.C.Rule("C16.R5", "nil result of UnmarshalCompressed is rejected; the unmarshallers keep no state", 2)
	x.C.Rule("C16.R6", "point coordinates are serialised with a fixed width; a coerced secp256k1 key went through the point parser", 2)
	defer pointValidated(x)
	statelessUnmarshallers(x)

	parse := x.fn("C16.R1", "did.Parse")
	pub := x.fn("C16.R1", "(did.DID).PubKey")
	from := x.fn("C16.R1", "did.FromPubKey")
	cfc := x.fn("C16.R1", "did.codeForCurve")
	if parse == nil || pub == nil || from == nil || cfc == nil {
		return
	}
	rest, prefixAtom := didParseForm(x, parse)
	decoded := "call[github.com/multiformats/go-multibase.Decode](" + rest + ")"
	codeRaw := "call[github.com/multiformats/go-varint.FromUvarint](" + decoded + "#1)#0"
	codeT := "conv[github.com/multiformats/go-multicodec.Code](" + codeRaw + ")"
	psel, _, _ := x.E.Select(parse, paths.WantSuccess)
	emitted, parsed, table, okLayoutF, dLayoutF := didCodeTables(x, parse, pub, from, cfc)
	sub := func(a, b map[string]bool) string {
		var miss []string
		for k := range a {
			if !b[k] {
				miss = append(miss, k)
			}
		}
		sort.Strings(miss)
		return strings.Join(miss, ",")
	}
	x.C.Obl("C16.R1", "emitted-subset-parsed", x.pos(parse), fmt.Sprintf("every multicodec FromPubKey can emit %v is accepted by Parse %v", keysOf(emitted), keysOf(parsed)),
		sub(emitted, parsed) == "" && len(emitted) >= 6, "emitted but not parsed: "+sub(emitted, parsed))
	x.C.Obl("C16.R1", "parsed-subset-table", x.pos(pub), "every multicodec Parse accepts has an unmarshaller in PubKey", sub(parsed, table) == "" && len(parsed) >= 4, "parsed without unmarshaller: "+sub(parsed, table))
	x.C.Obl("C16.R1", "emitted-subset-table", x.pos(pub), "every multicodec FromPubKey can emit has an unmarshaller in PubKey", sub(emitted, table) == "", sub(emitted, table))

	// ---- R2 layout
	x.C.Obl("C16.R2", "layout:FromPubKey", x.pos(from), "FromPubKey stores code and bytes = varint(code) ++ key bytes with the same code", okLayoutF, dLayoutF)
	okP := len(psel) > 0
	dP := ""
	for _, v := range psel {
		cell := paths.CellOf(v.Results()[0])
		if cell == nil {
			okP = false
			continue
		}
		fs := v.FieldStores(cell)
		if fs["bytes"] == nil || fs["bytes"].String() != "conv[string]("+decoded+"#1)" {
			okP = false
			dP += fmt.Sprintf("bytes = %v\n", fs["bytes"])
		}
		if fs["code"] == nil || fs["code"].String() != codeT {
			okP = false
			dP += fmt.Sprintf("code = %v\n", fs["code"])
		}
	}
	x.C.Obl("C16.R2", "layout:Parse", x.pos(parse), "Parse stores the whole decoded multibase payload and the code read from its varint prefix", okP, dP)
	keyBytes := "slice(conv[[]byte](recv.bytes),call[github.com/multiformats/go-varint.UvarintSize](conv[uint64](recv.code)),_,_)"
	keyBytesAlt := "conv[[]byte](slice(recv.bytes,call[github.com/multiformats/go-varint.UvarintSize](conv[uint64](recv.code)),_,_))"
	ssel, _, _ := x.E.Select(pub, paths.WantSuccess)
	okU := len(ssel) > 0
	dU := ""
	var keyTerms []string
	tbl := pubKeyTable(x, pub)
	for _, v := range ssel {
		r := v.Results()[0]
		fnT, _ := unmarshallerCall(r)
		byLookup := fnT != nil && fnT.Op == "extract" && fnT.Args[0].Op == "lookup" && fnT.Args[0].Args[1].String() == "recv.code"
		bySwitch := false
		for _, f := range v.Facts {
			if f.Pol && f.Atom.Op == "eq" && (f.Atom.Args[0].String() == "recv.code" && f.Atom.Args[1].Op == "const" || f.Atom.Args[1].String() == "recv.code" && f.Atom.Args[0].Op == "const") {
				bySwitch = true
			}
		}
		if !byLookup && !bySwitch {
			okU = false
			dU += "the unmarshaller is not selected by the stored code: " + r.String() + "\n"
		}
		// the key is made from the bytes after the multicodec prefix (whether the unmarshaller is called through
		// the table or its body is spliced into the path): bytes[UvarintSize(code):], sliced before or after the
		// conversion to []byte
		if !flowsFrom(v.Path, r, 0, keyBytes, keyBytesAlt) {
			okU = false
			dU += "the key returned is not made from bytes[UvarintSize(code):]: " + r.String() + "\n"
		}
		keyTerms = append(keyTerms, r.String())
	}
	_ = tbl
	x.C.Obl("C16.R2", "layout:PubKey", x.pos(pub), "PubKey selects the unmarshaller by the stored code and applies it to bytes[UvarintSize(code):]", okU, dU)

	// ---- R3
	x.noPath("C16.R3", "prefix", parse, paths.WantSuccess, atoms(map[string]bool{prefixAtom: false}), 0, "no success without the did:key: prefix")
	x.noPath("C16.R3", "multibase", parse, paths.WantSuccess, paths.CallFails(callee("github.com/multiformats/go-multibase.Decode")), 0, "no success unless multibase decoding succeeded")
	x.noPath("C16.R3", "base58btc", parse, paths.WantSuccess, atoms(map[string]bool{eqs(decoded+"#0", "const(122)"): false}), 0, "no success unless the multibase encoding is base58btc ('z')")
	x.noPath("C16.R3", "varint", parse, paths.WantSuccess, paths.CallFails(callee("github.com/multiformats/go-varint.FromUvarint")), 0, "no success unless the multicodec varint decodes")
	x.noPath("C16.R3", "whitelist", parse, paths.WantSuccess, func(t *paths.Term) (bool, bool) {
		if t.Op == "eq" && (isOneOf(t.Args[0], codeT, codeRaw) || isOneOf(t.Args[1], codeT, codeRaw)) {
			return false, true
		}
		if containsWhitelist(t, codeT, codeRaw) != nil {
			return false, true
		}
		return false, false
	}, 0, "no success unless the code equals one of the whitelisted constants")

	// closed world: these are the only reasons for which Parse refuses a string. Anything else it rejects (a
	// length table, a second whitelist) can reject identifiers that FromPubKey produces, and then a token
	// issued by such a key seals but never unseals.
	{
		fsel, unk, err := x.E.Select(parse, paths.WantFailure)
		var bad []paths.VPath
		for _, v := range fsel {
			explained := v.HasFact(prefixAtom, false) || v.HasFact(eqs(decoded+"#2", "const(nil)"), false) || v.HasFact(eqs(decoded+"#0", "const(122)"), false) ||
				v.HasFact(eqs("call[github.com/multiformats/go-varint.FromUvarint]("+decoded+"#1)#2", "const(nil)"), false)
			if !explained {
				nCode, anyTrue := 0, false
				for _, f := range v.AllFacts() {
					if f.Atom.Op == "eq" && (isOneOf(f.Atom.Args[0], codeT, codeRaw) && f.Atom.Args[1].Op == "const" || isOneOf(f.Atom.Args[1], codeT, codeRaw) && f.Atom.Args[0].Op == "const") {
						nCode++
						anyTrue = anyTrue || f.Pol
					}
				}
				explained = nCode > 0 && !anyTrue
				for _, f := range v.AllFacts() {
					if !f.Pol && containsWhitelist(f.Atom, codeT, codeRaw) != nil {
						explained = true
					}
				}
			}
			if !explained {
				bad = append(bad, v)
			}
		}
		x.C.Obl("C16.R3", "no-other-rejection", x.pos(parse), "Parse refuses a string only for: missing did:key: prefix, multibase error, not base58btc, varint error, multicodec not whitelisted",
			err == nil && len(unk) == 0 && len(bad) == 0 && len(fsel) >= 5, "rejection path(s) with another cause:\n"+renderPaths(bad, 3))
	}

	// ---- the sibling entry point ToPubKey(text) resolves through the same door: Parse, then DID.PubKey (with its
	// canonical-identifier check), nothing of its own
	if tp := x.fn("C16.R4", "did.ToPubKey"); tp != nil {
		okT, nT := true, 0
		dT := ""
		for _, p := range x.pathsQuiet(tp) {
			if p.End != paths.EndReturn || len(p.Results()) == 0 {
				continue
			}
			if o, _ := p.ErrorOutcome(); o == paths.Failure {
				continue
			}
			nT++
			r := p.Results()[0]
			if r.Op == "extract" && len(r.Args) == 1 {
				r = r.Args[0]
			}
			if r.Op != "call" || r.Name != "(did.DID).PubKey" || len(r.Args) != 1 || r.Args[0].String() != "call[did.Parse](arg0)#0" {
				okT = false
				dT += "ToPubKey returns " + r.String() + ", not Parse(text).PubKey(): the key of a non-canonical identifier can be handed out\n"
			}
		}
		x.C.Obl("C16.R4", "ToPubKey-through-PubKey", x.pos(tp), "ToPubKey(text) is Parse(text) followed by DID.PubKey()", okT && nT > 0, dedupLines(dT))
	}

	// ---- closed world for the key unmarshallers of the package (functions of type func([]byte) (PubKey, error),
	// function literals included): they refuse key material only because a library call refused it (its error is
	// propagated) or because elliptic.UnmarshalCompressed answered nil. A refusal of their own (a length bound, a
	// second whitelist) can refuse identifiers that FromPubKey produces for a valid key.
	{
		var fns []*ssa.Function
		var addF func(f *ssa.Function)
		addF = func(f *ssa.Function) {
			sig := f.Signature
			if sig.Params().Len() == 1 && sig.Results().Len() == 2 && sig.Params().At(0).Type().String() == "[]byte" &&
				strings.HasSuffix(sig.Results().At(0).Type().String(), "crypto.PubKey") && sig.Results().At(1).Type().String() == "error" && len(f.Blocks) > 0 {
				fns = append(fns, f)
			}
			for _, a := range f.AnonFuncs {
				addF(a)
			}
		}
		for _, f := range x.P.ModuleFuncs() {
			if x.P.IsLibrary(f) && x.P.PkgPathOf(f) == load.Module+"/did" && f.Parent() == nil {
				addF(f)
			}
		}
		sort.Slice(fns, func(i, j int) bool { return load.ShortName(fns[i]) < load.ShortName(fns[j]) })
		for _, f := range fns {
			bad, n := "", 0
			for _, p := range x.pathsQuiet(f) {
				if p.End != paths.EndReturn {
					continue
				}
				if o, _ := p.ErrorOutcome(); o == paths.Success {
					continue
				}
				rs := p.Results()
				// delegated to a library call: its own verdict
				if len(rs) == 2 && rs[1].Op == "extract" && len(rs[1].Args) == 1 && (rs[1].Args[0].Op == "call" || rs[1].Args[0].Op == "invoke") && !strings.HasPrefix(rs[1].Args[0].Name, "did.") && !strings.HasPrefix(rs[1].Args[0].Name, "fmt.") && !strings.HasPrefix(rs[1].Args[0].Name, "errors.") {
					n++
					// every fact on the way must be a library verdict too
				}
				n++
				for _, fc := range p.Facts {
					a := fc.Atom
					okF := false
					if xx := paths.NilCheckOf(a); xx != nil {
						if xx.Op == "extract" && len(xx.Args) == 1 && (xx.Args[0].Op == "call" || xx.Args[0].Op == "invoke") && !strings.HasPrefix(xx.Args[0].Name, "did.") {
							okF = true // error / nil result of a library call
						}
					}
					if !okF {
						bad += fmt.Sprintf("%s refuses (or may refuse) key material on the condition %s, which is not the verdict of a library call\n", load.ShortName(f), fc)
					}
				}
			}
			if n > 0 {
				x.C.Obl("C16.R4", "unmarshaller-refusals:"+load.ShortName(f), x.pos(f), "the unmarshaller refuses key material only when a library call refused it", bad == "", dedupLines(bad))
			}
		}
	}

	// ---- R4
	if len(keyTerms) > 0 {
		idiomA := true
		var vs2 []paths.VPath
		for _, v := range ssel {
			// on every success path: FromPubKey(the key returned on this path) succeeded and equals the receiver
			rederived := "call[did.FromPubKey](" + v.Results()[0].String() + ")"
			if !v.HasFact(eqs(rederived+"#1", "const(nil)"), true) || !v.HasFact(eqs(rederived+"#0", "recv"), true) {
				idiomA = false
				vs2 = append(vs2, v)
			}
		}
		// A length test for secp256k1 alone is NOT accepted as an alternative: the PKCS#1 RSA parser
		// (x509.ParsePKCS1PublicKey) tolerates trailing elements inside the SEQUENCE, which vanish when
		// the key is re-marshalled, so a padded RSA did:key would be a second identifier of the same
		// key (seeded change C16/1). Only the re-derivation idiom covers every unmarshaller.
		x.C.Obl("C16.R4", "canonical-identifier", x.pos(pub),
			"PubKey returns a key only if FromPubKey(key) succeeded and equals the receiver DID: one principal, one DID, for every key type", idiomA,
			"success path(s) without the canonical comparison:\n"+renderPaths(vs2, 2))
		lenient := false
		for _, fn := range pubKeyTable(x, pub) {
			if strings.Contains(fn, "UnmarshalSecp256k1PublicKey") {
				lenient = true
			}
		}
		x.C.Obl("C16.R4", "lenient-unmarshaller-present", x.pos(pub), "the table still contains the lenient crypto.UnmarshalSecp256k1PublicKey (so R4 is needed)", lenient, "")
	}

	fixedWidthCoordinates(x)

	// ---- R5: every function of package did that calls elliptic.UnmarshalCompressed rejects its nil result
	nSites := 0
	for _, g := range x.P.ModuleFuncs() {
		if x.P.PkgPathOf(g) != "github.com/ucan-wg/go-ucan/did" || len(g.Blocks) == 0 {
			continue
		}
		seen := map[string]bool{}
		for _, p := range x.pathsQuiet(g) {
			for _, c := range p.Calls() {
				ct := p.Term(c)
				if ct.Op != "call" || ct.Name != "crypto/elliptic.UnmarshalCompressed" || seen[ct.String()] {
					continue
				}
				seen[ct.String()] = true
				nSites++
				pt := ct.String()
				vs, err := x.E.ConsistentPaths(g, paths.WantSuccess, atoms(map[string]bool{eqs(pt+"#0", "const(nil)"): true}), 0)
				vs2, _ := x.E.ConsistentPaths(g, paths.WantSuccess, atoms(map[string]bool{eqs(pt+"#1", "const(nil)"): true}), 0)
				through := func(in []paths.VPath) []paths.VPath { // only the paths on which this call is made
					var out []paths.VPath
					for _, v := range in {
						made := false
						for _, c2 := range v.Calls() {
							if v.Term(c2).String() == pt {
								made = true
							}
						}
						if made {
							out = append(out, v)
						}
					}
					return out
				}
				vs, vs2 = through(vs), through(vs2)
				// at least the x coordinate must be checked (y is nil iff x is nil)
				x.C.Obl("C16.R5", "nil-point", x.posOf(c, g), "no key is returned when elliptic.UnmarshalCompressed returned a nil coordinate", err == nil && (len(vs) == 0 || len(vs2) == 0), renderPaths(vs, 2))
			}
		}
	}
	if nSites == 0 {
		x.C.Unresolved("C16.R5", "site:UnmarshalCompressed", "-", "no call of crypto/elliptic.UnmarshalCompressed found in package did")
	}
}

// fixedWidthCoordinates: no (*big.Int).Bytes() in package did (it drops leading zero bytes; a
// point / key encoding built from it has a variable layout); FillBytes or Marshal* must be used.
func fixedWidthCoordinates(x *Ctx) {
	bad, n := "", 0
	for _, f := range x.P.ModuleFuncs() {
		if x.P.PkgPathOf(f) != "github.com/ucan-wg/go-ucan/did" {
			continue
		}
		for _, b := range f.Blocks {
			for _, in := range b.Instrs {
				c, ok := in.(ssa.CallInstruction)
				if !ok {
					continue
				}
				g := paths.StaticCallee(c)
				if g == nil {
					continue
				}
				switch g.String() {
				case "(*math/big.Int).Bytes":
					bad += x.P.Pos(in.Pos()) + ": (*big.Int).Bytes() in " + paths.FuncName(f) + " drops leading zero bytes: coordinates must be written with FillBytes into a fixed-width buffer\n"
				case "(*math/big.Int).FillBytes":
					n++
				}
			}
		}
	}
	x.C.Obl("C16.R6", "fixed-width-coordinates", "did/crypto.go", "big integers of key material are serialised with FillBytes (fixed width), never with Bytes()", bad == "" && n >= 2, bad)
}

func isOneOf(t *paths.Term, ss ...string) bool {
	for _, s := range ss {
		if t.String() == s {
			return true
		}
	}
	return false
}

// didParseForm gives the rendering did.Parse uses for the text after the "did:key:" prefix and the atom
// that establishes the prefix: today's HasPrefix + slicing, or strings.CutPrefix.
func didParseForm(x *Ctx, parse *ssa.Function) (rest, prefixAtom string) {
	cut := `call[strings.CutPrefix](arg0,const("did:key:"))`
	for _, p := range x.pathsQuiet(parse) {
		for _, c := range p.Calls() {
			if ct := p.Term(c); ct.Op == "call" && ct.Name == "github.com/multiformats/go-multibase.Decode" && len(ct.Args) == 1 && ct.Args[0].String() == cut+"#0" {
				return cut + "#0", cut + "#1"
			}
		}
	}
	return "slice(arg0,const(8),_,_)", `call[strings.HasPrefix](arg0,const("did:key:"))`
}

// pubKeyTable reads the association multicodec -> unmarshaller of DID.PubKey: either the entries of the
// map literal indexed by the stored code, or the cases of a switch on the stored code (directly or in a
// helper spliced into PubKey's paths). The value is the rendering of the unmarshaller.
func pubKeyTable(x *Ctx, pub *ssa.Function) map[string]string {
	out := map[string]string{}
	// a map literal, in PubKey itself or in a helper spliced into its paths
	for _, p := range x.pathsQuiet(pub) {
		p.InstrsIn(func(in ssa.Instruction, c *paths.Ctx) {
			if mu, ok := in.(*ssa.MapUpdate); ok {
				if k, ok := mu.Key.(*ssa.Const); ok {
					out[k.Value.ExactString()] = c.Term(mu.Value).String()
				}
			}
		})
	}
	// or a package-level table indexed by the stored code
	if len(out) == 0 {
		for _, p := range x.pathsQuiet(pub) {
			for _, f := range p.Facts {
				f.Atom.Walk(func(t *paths.Term) {
					if t.Op == "lookup" && len(t.Args) == 2 && t.Args[1].String() == "recv.code" && t.Args[0].Op == "load" && t.Args[0].Args[0].Op == "global" {
						if g, ok := t.Args[0].Args[0].Val.(*ssa.Global); ok {
							for k, v := range globalMapLiteral(x, g) {
								out[k] = v
							}
						}
					}
				})
			}
		}
	}
	if len(out) > 0 {
		return out
	}
	sel, _, _ := x.E.Select(pub, paths.WantSuccess)
	for _, v := range sel {
		fnT, _ := unmarshallerCall(v.Results()[0])
		if fnT == nil {
			continue
		}
		for _, f := range v.Facts {
			if !f.Pol || f.Atom.Op != "eq" {
				continue
			}
			a, b := f.Atom.Args[0], f.Atom.Args[1]
			if a.Op == "const" && b.String() == "recv.code" {
				out[a.Name] = fnT.String()
			}
			if b.Op == "const" && a.String() == "recv.code" {
				out[b.Name] = fnT.String()
			}
		}
	}
	return out
}

// unmarshallerCall splits the key returned by PubKey into the unmarshaller applied and its argument.
func unmarshallerCall(r *paths.Term) (fnT, arg *paths.Term) {
	if r.Op != "extract" || len(r.Args) != 1 {
		return nil, nil
	}
	ct := r.Args[0]
	switch {
	case ct.Op == "dyncall" && len(ct.Args) == 2:
		return ct.Args[0], ct.Args[1]
	case ct.Op == "call" && len(ct.Args) >= 1:
		return ct, ct.Args[len(ct.Args)-1]
	}
	return nil, nil
}

func tableHas(f *ssa.Function, name string) bool {
	for _, b := range f.Blocks {
		for _, in := range b.Instrs {
			if mu, ok := in.(*ssa.MapUpdate); ok {
				if strings.Contains(mu.Value.String(), name) || strings.Contains(mu.Value.Name(), name) {
					return true
				}
				if ct, ok := mu.Value.(*ssa.ChangeType); ok && strings.Contains(ct.X.String(), name) {
					return true
				}
			}
		}
	}
	return false
}

// didCodeTables computes the multicodec tables of package did: codes FromPubKey can emit, codes
// Parse accepts, keys of PubKey's unmarshaller table; plus the layout verdict of FromPubKey.
func didCodeTables(x *Ctx, parse, pub, from, cfc *ssa.Function) (emitted, parsed, table map[string]bool, okLayoutF bool, dLayoutF string) {
	rest, _ := didParseForm(x, parse)
	decoded := "call[github.com/multiformats/go-multibase.Decode](" + rest + ")"
	codeRaw := "call[github.com/multiformats/go-varint.FromUvarint](" + decoded + "#1)#0"
	codeT := "conv[github.com/multiformats/go-multicodec.Code](" + codeRaw + ")"

	// ---- tables
	parsed = map[string]bool{}
	psel, _, _ := x.E.Select(parse, paths.WantSuccess)
	for _, v := range psel {
		for _, f := range v.Facts {
			if f.Pol && f.Atom.Op == "eq" {
				a, b := f.Atom.Args[0], f.Atom.Args[1]
				if a.Op == "const" && isOneOf(b, codeT, codeRaw) {
					parsed[a.Name] = true
				}
				if b.Op == "const" && isOneOf(a, codeT, codeRaw) {
					parsed[b.Name] = true
				}
			}
		}
	}
	for _, v := range psel {
		for _, f := range v.Facts {
			if g := containsWhitelist(f.Atom, codeT, codeRaw); g != nil && f.Pol {
				for _, k := range globalSliceLiteral(g) {
					parsed[k] = true
				}
			}
		}
	}
	table = map[string]bool{}
	for k := range pubKeyTable(x, pub) {
		table[k] = true
	}
	emitted = map[string]bool{}
	fsel, _, _ := x.E.Select(from, paths.WantSuccess)
	okLayoutF = len(fsel) > 0
	for _, v := range fsel {
		cell := paths.CellOf(v.Results()[0])
		if cell == nil {
			okLayoutF = false
			dLayoutF += "returns " + v.Results()[0].String() + "\n"
			continue
		}
		fs := v.FieldStores(cell)
		c := fs["code"]
		switch {
		case c == nil:
			okLayoutF = false
			dLayoutF += "code not set\n"
		case c.Op == "const":
			emitted[c.Name] = true
		case c.String() == "call[did.codeForCurve](arg0)#0":
			csel, _, _ := x.E.Select(cfc, paths.WantSuccess)
			for _, cv := range csel {
				if r := cv.Results()[0]; r.Op == "const" {
					emitted[r.Name] = true
				}
			}
		default:
			okLayoutF = false
			dLayoutF += "code is " + c.String() + "\n"
		}
		// bytes = string(append(ToUvarint(uint64(code)), key...)) with the same code term
		if c != nil {
			bts := fs["bytes"]
			wantPrefix := "conv[string](call[builtin.append](call[github.com/multiformats/go-varint.ToUvarint](conv[uint64](" + c.String() + ")),"
			wantPrefix2 := "conv[string](call[slices.Concat[[]byte byte]]([call[github.com/multiformats/go-varint.ToUvarint](conv[uint64](" + c.String() + ")),"
			if bts == nil || !(strings.HasPrefix(bts.String(), wantPrefix) || strings.HasPrefix(bts.String(), wantPrefix2)) {
				okLayoutF = false
				dLayoutF += fmt.Sprintf("bytes = %v does not start with the varint of the stored code %s\n", bts, c)
			}
		}
	}
	return
}

// flowsFrom tells whether term t is made from one of the given sub-terms, looking through records the path
// builds in local cells (a struct literal handed on by address).
func flowsFrom(p *paths.Path, t *paths.Term, depth int, needles ...string) bool {
	for _, n := range needles {
		if t.Contains(n) {
			return true
		}
	}
	if depth > 3 {
		return false
	}
	found := false
	t.Walk(func(s *paths.Term) {
		if found || s.Op != "alloc" {
			return
		}
		if cell := paths.CellOf(s); cell != nil {
			for _, fv := range p.FieldStores(cell) {
				if flowsFrom(p, fv, depth+1, needles...) {
					found = true
				}
			}
		}
	})
	return found
}

// globalMapLiteral reads the constant keys (and the rendering of the values) of a package-level map variable
// initialised by a map literal in the package initialiser.
func globalMapLiteral(x *Ctx, g *ssa.Global) map[string]string {
	out := map[string]string{}
	init := g.Pkg.Func("init")
	if init == nil {
		return out
	}
	// the map stored into g
	var m ssa.Value
	for _, b := range init.Blocks {
		for _, in := range b.Instrs {
			if st, ok := in.(*ssa.Store); ok && st.Addr == ssa.Value(g) {
				m = st.Val
			}
		}
	}
	if m == nil {
		return out
	}
	for _, b := range init.Blocks {
		for _, in := range b.Instrs {
			if mu, ok := in.(*ssa.MapUpdate); ok && mu.Map == m {
				if k, ok := mu.Key.(*ssa.Const); ok {
					out[k.Value.ExactString()] = paths.DetachedTerm(init, mu.Value).String()
				}
			}
		}
	}
	return out
}

// containsWhitelist matches slices.Contains(table, code) with table a package-level slice variable and code one
// of the given renderings; it returns the variable.
func containsWhitelist(t *paths.Term, codes ...string) *ssa.Global {
	if t == nil || t.Op != "call" || !strings.HasPrefix(t.Name, "slices.Contains[") || len(t.Args) != 2 || !isOneOf(t.Args[1], codes...) {
		return nil
	}
	a := t.Args[0]
	if a.Op != "load" || a.Args[0].Op != "global" {
		return nil
	}
	g, _ := a.Args[0].Val.(*ssa.Global)
	return g
}

// globalSliceLiteral reads the constant elements of a package-level slice variable initialised by a composite
// literal in the package initialiser.
func globalSliceLiteral(g *ssa.Global) []string {
	init := g.Pkg.Func("init")
	if init == nil {
		return nil
	}
	var sl *ssa.Slice
	for _, b := range init.Blocks {
		for _, in := range b.Instrs {
			if st, ok := in.(*ssa.Store); ok && st.Addr == ssa.Value(g) {
				sl, _ = st.Val.(*ssa.Slice)
			}
		}
	}
	if sl == nil {
		return nil
	}
	arr, ok := sl.X.(*ssa.Alloc)
	if !ok {
		return nil
	}
	var out []string
	for _, ref := range *arr.Referrers() {
		ia, ok := ref.(*ssa.IndexAddr)
		if !ok {
			continue
		}
		for _, r2 := range *ia.Referrers() {
			if st, ok := r2.(*ssa.Store); ok && st.Addr == ssa.Value(ia) {
				if c, ok := st.Val.(*ssa.Const); ok && c.Value != nil {
					out = append(out, c.Value.ExactString())
				} else {
					return nil
				}
			}
		}
	}
	return out
}
