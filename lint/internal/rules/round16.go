package rules

import (
	"fmt"
	"os"
	"path/filepath"
	"strings"

	"go/types"

	"golang.org/x/tools/go/ssa"

	"verif/lint/internal/load"
	"verif/lint/internal/paths"
)

// gettersLookUpTheirKey (C17.R2): what a Reader hands out for a CID is what is stored under that CID. On every
// success path of GetToken the token returned is lookup(reader, cid)#0 on a path that knows the key to be present;
// GetDelegation returns (an assertion of) that lookup or of GetToken(cid); GetInvocation takes no CID. A second way of
// finding a token (by digest, by prefix, the first of its type) answers for CIDs the container does not hold.
func gettersLookUpTheirKey(x *Ctx) {
	for _, name := range []string{"GetToken", "GetDelegation"} {
		f := x.fn("C17.R2", "("+ctnPkg+"Reader)."+name)
		if f == nil {
			continue
		}
		sel, unk, err := x.E.Select(f, paths.WantSuccess)
		if err != nil || len(unk) > 0 {
			x.C.Unresolved("C17.R2", "lookup-by-key:"+name, x.pos(f), fmt.Sprintf("success paths not decided: %v, %d undecided", err, len(unk)))
			continue
		}
		bad := ""
		for _, p := range sel {
			rs := p.Results()
			if len(rs) == 0 || rs[0] == nil {
				continue
			}
			r := rs[0].String()
			if rs[0].IsNil() {
				continue // reported by C09.P3 never-nil-nil
			}
			src := ""
			switch {
			case strings.Contains(r, "lookup(recv,arg0)#0"):
				src = "lookup(recv,arg0)"
			case strings.Contains(r, "GetToken](recv,arg0)#0"):
				src = ""
			default:
				bad += "a token is returned that is not the entry stored under the CID asked for: " + firstLines(r, 1) + "\n" + p.String() + "\n"
				continue
			}
			if src != "" && !p.HasFact(src+"#1", true) {
				bad += "the entry is returned on a path that does not know the CID to be present:\n" + p.String() + "\n"
			}
		}
		x.C.Obl("C17.R2", "lookup-by-key:"+name, x.pos(f), "the token handed out is the entry stored under the very CID asked for", bad == "" && len(sel) > 0, firstLines(bad, 10))
	}
}

// doorsStoreOnSuccess (C17.R3): a function that stores entries into a Reader (addToken today) stores the entry on
// every path on which token.FromSealed succeeded and the function itself succeeds: a token is not dropped
// silently (for being expired, of an unwanted type, a duplicate ...) - what the container holds is what is read.
func doorsStoreOnSuccess(x *Ctx) {
	readerT := load.Module + "/pkg/container.Reader"
	doors := readerDoors(x)
	for _, name := range sortedKeys(doors) {
		f := doors[name]
		sel, unk, err := x.E.Select(f, paths.WantSuccess)
		if err != nil || len(unk) > 0 {
			x.C.Unresolved("C17.R3", "stores-on-success:"+name, x.pos(f), fmt.Sprintf("success paths not decided: %v, %d undecided", err, len(unk)))
			continue
		}
		n, bad := 0, ""
		for _, p := range sel {
			if p.End != paths.EndReturn {
				continue
			}
			read := false
			for _, c := range p.Calls() {
				if ct := p.Term(c); ct != nil && ct.Op == "call" && ct.Name == "token.FromSealed" {
					read = true
				}
			}
			if !read {
				continue
			}
			n++
			stored := false
			p.InstrsIn(func(in ssa.Instruction, c *paths.Ctx) {
				if mu, ok := in.(*ssa.MapUpdate); ok && mu.Map.Type().String() == readerT {
					stored = true
				}
			})
			if !stored {
				bad += "the function succeeds after reading a token without storing it:\n" + p.String() + "\n"
			}
		}
		x.C.Obl("C17.R3", "stores-on-success:"+name, x.pos(f), "every token read is stored: no path succeeds after token.FromSealed without the entry being put into the Reader", bad == "" && n > 0, firstLines(bad, 10))
	}
	// and reading does not depend on the time of day
	n, bad := 0, ""
	for _, root := range []string{"FromCbor", "FromCborReader", "FromCborBase64", "FromCborBase64Reader", "FromCar", "FromCarReader", "FromCarBase64", "FromCarBase64Reader"} {
		f := x.P.Func(ctnPkg + root)
		if f == nil {
			continue
		}
		for g := range x.P.ReachFrom(f) {
			n++
			for _, b := range g.Blocks {
				for _, in := range b.Instrs {
					if c, ok := in.(ssa.CallInstruction); ok {
						if h := c.Common().StaticCallee(); h != nil && h.Pkg != nil && h.Pkg.Pkg.Path() == "time" {
							switch h.Name() {
							case "Now", "Since", "Until":
								bad += fmt.Sprintf("%s: %s reads the clock (time.%s) on the reading path\n", x.P.Pos(in.Pos()), load.ShortName(g), h.Name())
							}
						}
					}
				}
			}
		}
	}
	x.C.Obl("C17.R3", "no-clock-on-reading", "-", "no function reachable from the container readers reads the clock: what a container yields depends on its bytes only", bad == "" && n > 0, dedupLines(bad))
}

func sortedKeys(m map[string]*ssa.Function) []string {
	var ks []string
	for k := range m {
		ks = append(ks, k)
	}
	for i := range ks {
		for j := i + 1; j < len(ks); j++ {
			if ks[j] < ks[i] {
				ks[i], ks[j] = ks[j], ks[i]
			}
		}
	}
	return ks
}

// optionalModelPointers (C09.P3): a field that the schema lets a payload leave out (optional / nullable) arrives
// as a nil pointer in the payload model. Where the model field points to a struct of the module with methods
// (args.Args, meta.Meta), every success path of tokenFromModel carries a nil test of that field: a method called on
// it unconditionally dereferences nil for a well-signed payload without the field.
func optionalModelPointers(x *Ctx) {
	for _, pk := range []string{"token/delegation", "token/invocation"} {
		dec := x.fn("C09.P3", pk+".tokenFromModel")
		if dec == nil {
			continue
		}
		name := filepath.Base(pk)
		src, rerr := os.ReadFile(filepath.Join(x.P.Dir, pk, name+".ipldsch"))
		if rerr != nil {
			x.C.Unresolved("C09.P3", "optional-model-pointer:"+pk, "-", rerr.Error())
			continue
		}
		sch := parseSchema(string(src))
		sp := x.P.SSA[load.Module+"/"+pk]
		if sp == nil {
			continue
		}
		tn, ok := sp.Pkg.Scope().Lookup("tokenPayloadModel").(*types.TypeName)
		if !ok {
			x.C.Unresolved("C09.P3", "optional-model-pointer:"+pk, "-", "type tokenPayloadModel not found")
			continue
		}
		st, ok := tn.Type().Underlying().(*types.Struct)
		if !ok {
			continue
		}
		sel, unk, err := x.E.Select(dec, paths.WantSuccess)
		if err != nil || len(unk) > 0 || len(sel) == 0 {
			x.C.Unresolved("C09.P3", "optional-model-pointer:"+pk, x.pos(dec), fmt.Sprintf("success paths of tokenFromModel not decided: %v, %d undecided", err, len(unk)))
			continue
		}
		n, bad := 0, ""
		for i := 0; i < st.NumFields(); i++ {
			fld := st.Field(i)
			sf, has := sch[strings.ToLower(fld.Name())]
			if !has || !(sf.Optional || sf.Nullable) {
				continue
			}
			pt, isPtr := fld.Type().(*types.Pointer)
			if !isPtr {
				continue
			}
			nt, isNamed := pt.Elem().(*types.Named)
			if !isNamed || nt.Obj().Pkg() == nil || !strings.HasPrefix(nt.Obj().Pkg().Path(), load.Module) {
				continue
			}
			if _, isStruct := nt.Underlying().(*types.Struct); !isStruct {
				continue
			}
			n++
			for _, p := range sel {
				tested := false
				for _, fc := range p.AllFacts() {
					if xx := paths.NilCheckOf(fc.Atom); xx != nil && xx.String() == "arg0."+fld.Name() {
						tested = true
					}
				}
				if !tested {
					bad += fmt.Sprintf("schema field %s may be left out, but a success path of tokenFromModel never tests m.%s for nil:\n%s\n", strings.ToLower(fld.Name()), fld.Name(), p.String())
					break
				}
			}
		}
		x.C.Obl("C09.P3", "optional-model-pointer:"+pk, x.pos(dec), fmt.Sprintf("each of the %d optional / nullable schema fields bound to a pointer to a struct of the module is tested for nil on every success path of tokenFromModel", n), bad == "", firstLines(bad, 14))
	}
}

// optionsPassValues (C10.R4): the options and builders of the token packages hand the caller's value to Args.Add /
// Meta.Add / Meta.AddEncrypted / literal.Any as it is (reached through assertions, conversions and loads only): a
// convenience conversion in between (Stringer values to their text, ...) stores something else than what was
// supplied.
func optionsPassValues(x *Ctx) {
	sinks := map[string]int{ // callee -> index of the value argument (receiver counted)
		"(*pkg/args.Args).Add": 2, "(*pkg/meta.Meta).Add": 2, "(*pkg/meta.Meta).AddEncrypted": 2, "pkg/policy/literal.Any": 0,
	}
	n, bad := 0, ""
	for _, f := range x.P.ModuleFuncs() {
		if !x.P.IsLibrary(f) || len(f.Blocks) == 0 {
			continue
		}
		pp := x.P.PkgPathOf(f)
		if !strings.HasPrefix(pp, load.Module+"/token") {
			continue
		}
		for _, b := range f.Blocks {
			for _, in := range b.Instrs {
				c, ok := in.(ssa.CallInstruction)
				if !ok {
					continue
				}
				h := c.Common().StaticCallee()
				if h == nil {
					continue
				}
				idx, isSink := sinks[load.ShortName(h)]
				if !isSink || idx >= len(c.Common().Args) {
					continue
				}
				n++
				if why := impureStep(x, c.Common().Args[idx], map[ssa.Value]bool{}, 0); why != "" {
					bad += fmt.Sprintf("%s: %s hands %s a value that is not the caller's own: %s\n", x.P.Pos(in.Pos()), load.ShortName(f), load.ShortName(h), why)
				}
			}
		}
	}
	x.C.Obl("C10.R4", "option-passes-value", "-", fmt.Sprintf("each of the %d calls of Args.Add / Meta.Add / Meta.AddEncrypted / literal.Any in the token packages receives the caller's value unchanged", n), bad == "" && n > 0, dedupLines(bad))
}
