package rules

import (
	"fmt"
	"go/constant"
	"go/token"
	"go/types"
	"os"
	"path/filepath"
	"strings"

	"golang.org/x/tools/go/ssa"

	"verif/lint/internal/load"
	"verif/lint/internal/paths"
)

// gettersLookUpTheirKey (C17.R2): what a Reader hands out for a CID is what is stored under that CID. On every
// success path of GetToken the token returned is lookup(reader, cid)#0 on a path that knows the key to be present;
// GetDelegation returns (an assertion of) that lookup or of GetToken(cid); GetInvocation takes no CID. A second way of
// finding a token (by digest, by prefix, the first of its type) answers for CIDs the container does not hold.
func gettersLookUpTheirKey(x *Ctx) {
	for _, name := range []string{"GetToken", "GetDelegation"} {
		f := x.fn("C17.R2", "("+ctnPkg+"Reader)."+name)
		if f == nil {
			continue
		}
		sel, unk, err := x.E.Select(f, paths.WantSuccess)
		if err != nil || len(unk) > 0 {
			x.C.Unresolved("C17.R2", "lookup-by-key:"+name, x.pos(f), fmt.Sprintf("success paths not decided: %v, %d undecided", err, len(unk)))
			continue
		}
		bad := ""
		for _, p := range sel {
			rs := p.Results()
			if len(rs) == 0 || rs[0] == nil {
				continue
			}
			r := rs[0].String()
			if rs[0].IsNil() {
				continue // reported by C09.P3 never-nil-nil
			}
			src := ""
			switch {
			case strings.Contains(r, "lookup(recv,arg0)#0"):
				src = "lookup(recv,arg0)"
			case strings.Contains(r, "GetToken](recv,arg0)#0"):
				src = ""
			default:
				bad += "a token is returned that is not the entry stored under the CID asked for: " + firstLines(r, 1) + "\n" + p.String() + "\n"
				continue
			}
			if src != "" && !p.HasFact(src+"#1", true) {
				bad += "the entry is returned on a path that does not know the CID to be present:\n" + p.String() + "\n"
			}
		}
		x.C.Obl("C17.R2", "lookup-by-key:"+name, x.pos(f), "the token handed out is the entry stored under the very CID asked for", bad == "" && len(sel) > 0, firstLines(bad, 10))
	}
}

// doorsStoreOnSuccess (C17.R3): a function that stores entries into a Reader (addToken today) stores the entry on
// every path on which token.FromSealed succeeded and the function itself succeeds: a token is not dropped
// silently (for being expired, of an unwanted type, a duplicate ...) - what the container holds is what is read.
func doorsStoreOnSuccess(x *Ctx) {
	readerT := load.Module + "/pkg/container.Reader"
	doors := readerDoors(x)
	for _, name := range sortedKeys(doors) {
		f := doors[name]
		sel, unk, err := x.E.Select(f, paths.WantSuccess)
		if err != nil || len(unk) > 0 {
			x.C.Unresolved("C17.R3", "stores-on-success:"+name, x.pos(f), fmt.Sprintf("success paths not decided: %v, %d undecided", err, len(unk)))
			continue
		}
		n, bad := 0, ""
		_ = sel
		for _, p := range x.pathsQuiet(f) {
			if p.End == paths.EndPanic {
				continue
			}
			// an iteration (or the whole function) in which token.FromSealed is known to have succeeded
			read := false
			for _, c := range p.Calls() {
				if ct := p.Term(c); ct != nil && ct.Op == "call" && ct.Name == "token.FromSealed" && p.HasFact(eqs(ct.String()+"#2", "const(nil)"), true) {
					read = true
				}
			}
			if !read {
				continue
			}
			if p.End == paths.EndReturn {
				// leaving with an error (or, for a loop body run by an iterator, with "stop") is not a success
				if rs := p.Results(); len(rs) > 0 && rs[len(rs)-1] != nil && !rs[len(rs)-1].IsNil() && rs[len(rs)-1].String() != "const(true)" && !p.HasFact(eqs(rs[len(rs)-1].String(), "const(nil)"), true) {
					continue
				}
			}
			n++
			stored := false
			p.InstrsIn(func(in ssa.Instruction, c *paths.Ctx) {
				if mu, ok := in.(*ssa.MapUpdate); ok && mu.Map.Type().String() == readerT {
					stored = true
				}
			})
			if !stored {
				bad += "the function succeeds after reading a token without storing it:\n" + p.String() + "\n"
			}
		}
		x.C.Obl("C17.R3", "stores-on-success:"+name, x.pos(f), "every token read is stored: no path succeeds after token.FromSealed without the entry being put into the Reader", bad == "" && n > 0, firstLines(bad, 10))
	}
	// and reading does not depend on the time of day
	n, bad := 0, ""
	for _, root := range []string{"FromCbor", "FromCborReader", "FromCborBase64", "FromCborBase64Reader", "FromCar", "FromCarReader", "FromCarBase64", "FromCarBase64Reader"} {
		f := x.P.Func(ctnPkg + root)
		if f == nil {
			continue
		}
		for g := range x.P.ReachFrom(f) {
			n++
			for _, b := range g.Blocks {
				for _, in := range b.Instrs {
					if c, ok := in.(ssa.CallInstruction); ok {
						if h := c.Common().StaticCallee(); h != nil && h.Pkg != nil && h.Pkg.Pkg.Path() == "time" {
							switch h.Name() {
							case "Now", "Since", "Until":
								bad += fmt.Sprintf("%s: %s reads the clock (time.%s) on the reading path\n", x.P.Pos(in.Pos()), load.ShortName(g), h.Name())
							}
						}
					}
				}
			}
		}
	}
	x.C.Obl("C17.R3", "no-clock-on-reading", "-", "no function reachable from the container readers reads the clock: what a container yields depends on its bytes only", bad == "" && n > 0, dedupLines(bad))
}

func sortedKeys(m map[string]*ssa.Function) []string {
	var ks []string
	for k := range m {
		ks = append(ks, k)
	}
	for i := range ks {
		for j := i + 1; j < len(ks); j++ {
			if ks[j] < ks[i] {
				ks[i], ks[j] = ks[j], ks[i]
			}
		}
	}
	return ks
}

// optionalModelPointers (C09.P3): a field that the schema lets a payload leave out (optional / nullable) arrives
// as a nil pointer in the payload model. Where the model field points to a struct of the module with methods
// (args.Args, meta.Meta), every success path of tokenFromModel carries a nil test of that field: a method called on
// it unconditionally dereferences nil for a well-signed payload without the field.
func optionalModelPointers(x *Ctx) {
	for _, pk := range []string{"token/delegation", "token/invocation"} {
		dec := x.fn("C09.P3", pk+".tokenFromModel")
		if dec == nil {
			continue
		}
		name := filepath.Base(pk)
		src, rerr := os.ReadFile(filepath.Join(x.P.Dir, pk, name+".ipldsch"))
		if rerr != nil {
			x.C.Unresolved("C09.P3", "optional-model-pointer:"+pk, "-", rerr.Error())
			continue
		}
		sch := parseSchema(string(src))
		sp := x.P.SSA[load.Module+"/"+pk]
		if sp == nil {
			continue
		}
		tn, ok := sp.Pkg.Scope().Lookup("tokenPayloadModel").(*types.TypeName)
		if !ok {
			x.C.Unresolved("C09.P3", "optional-model-pointer:"+pk, "-", "type tokenPayloadModel not found")
			continue
		}
		st, ok := tn.Type().Underlying().(*types.Struct)
		if !ok {
			continue
		}
		sel, unk, err := x.E.Select(dec, paths.WantSuccess)
		if err != nil || len(unk) > 0 || len(sel) == 0 {
			x.C.Unresolved("C09.P3", "optional-model-pointer:"+pk, x.pos(dec), fmt.Sprintf("success paths of tokenFromModel not decided: %v, %d undecided", err, len(unk)))
			continue
		}
		n, bad := 0, ""
		for i := 0; i < st.NumFields(); i++ {
			fld := st.Field(i)
			sf, has := sch[strings.ToLower(fld.Name())]
			if !has || !(sf.Optional || sf.Nullable) {
				continue
			}
			pt, isPtr := fld.Type().(*types.Pointer)
			if !isPtr {
				continue
			}
			nt, isNamed := pt.Elem().(*types.Named)
			if !isNamed || nt.Obj().Pkg() == nil || !strings.HasPrefix(nt.Obj().Pkg().Path(), load.Module) {
				continue
			}
			if _, isStruct := nt.Underlying().(*types.Struct); !isStruct {
				continue
			}
			n++
			for _, p := range sel {
				tested := false
				for _, fc := range p.AllFacts() {
					if xx := paths.NilCheckOf(fc.Atom); xx != nil && xx.String() == "arg0."+fld.Name() {
						tested = true
					}
				}
				if !tested {
					bad += fmt.Sprintf("schema field %s may be left out, but a success path of tokenFromModel never tests m.%s for nil:\n%s\n", strings.ToLower(fld.Name()), fld.Name(), p.String())
					break
				}
			}
		}
		x.C.Obl("C09.P3", "optional-model-pointer:"+pk, x.pos(dec), fmt.Sprintf("each of the %d optional / nullable schema fields bound to a pointer to a struct of the module is tested for nil on every success path of tokenFromModel", n), bad == "", firstLines(bad, 14))
	}
}

// optionsPassValues (C10.R4): the options and builders of the token packages hand the caller's value to Args.Add /
// Meta.Add / Meta.AddEncrypted / literal.Any as it is (reached through assertions, conversions and loads only): a
// convenience conversion in between (Stringer values to their text, ...) stores something else than what was
// supplied.
func optionsPassValues(x *Ctx) {
	sinks := map[string]int{ // callee -> index of the value argument (receiver counted)
		"(*pkg/args.Args).Add": 2, "(*pkg/meta.Meta).Add": 2, "(*pkg/meta.Meta).AddEncrypted": 2, "pkg/policy/literal.Any": 0,
	}
	n, bad := 0, ""
	for _, f := range x.P.ModuleFuncs() {
		if !x.P.IsLibrary(f) || len(f.Blocks) == 0 {
			continue
		}
		pp := x.P.PkgPathOf(f)
		if !strings.HasPrefix(pp, load.Module+"/token") {
			continue
		}
		for _, b := range f.Blocks {
			for _, in := range b.Instrs {
				c, ok := in.(ssa.CallInstruction)
				if !ok {
					continue
				}
				h := c.Common().StaticCallee()
				if h == nil {
					continue
				}
				idx, isSink := sinks[load.ShortName(h)]
				if !isSink || idx >= len(c.Common().Args) {
					continue
				}
				n++
				if why := impureStep(x, c.Common().Args[idx], map[ssa.Value]bool{}, 0); why != "" {
					bad += fmt.Sprintf("%s: %s hands %s a value that is not the caller's own: %s\n", x.P.Pos(in.Pos()), load.ShortName(f), load.ShortName(h), why)
				}
			}
		}
	}
	x.C.Obl("C10.R4", "option-passes-value", "-", fmt.Sprintf("each of the %d calls of Args.Add / Meta.Add / Meta.AddEncrypted / literal.Any in the token packages receives the caller's value unchanged", n), bad == "" && n > 0, dedupLines(bad))
}

// listsExcludeBytes (C10.R4): a slice or array of bytes is a byte string, whatever its static type (a named byte
// slice, a []byte nested in a map or list). In anyAssemble every path that answers with qp.List knows the element
// kind of the value not to be reflect.Uint8 (a type assertion to []byte in place of the kind test lets the other
// byte slices through as lists of integers).
func listsExcludeBytes(x *Ctx) {
	f := x.fn("C10.R4", "pkg/policy/literal.anyAssemble")
	if f == nil {
		return
	}
	n, bad := 0, ""
	for _, p := range x.paths("C10.R4", f) {
		if p.End != paths.EndReturn || len(p.Results()) != 1 || p.Results()[0] == nil {
			continue
		}
		r := p.Results()[0]
		if r.Op != "call" || !strings.HasSuffix(r.Name, "fluent/qp.List") {
			continue
		}
		n++
		known := false
		for _, fc := range p.Facts {
			s := fc.Atom.String()
			if !fc.Pol && fc.Atom.Op == "eq" && strings.Contains(s, "const(8)") && strings.Contains(s, "reflect.Type.Elem") && strings.Contains(s, "Kind]") {
				known = true
			}
		}
		if !known {
			bad += "a list is assembled on a path that does not know the element kind to differ from reflect.Uint8:\n" + p.String() + "\n"
		}
	}
	x.C.Obl("C10.R4", "lists-exclude-bytes:anyAssemble", x.pos(f), "a sequence is assembled as a list only where its elements are known not to be bytes", bad == "" && n > 0, firstLines(bad, 12))
}

// repeatCounts lists the calls of strings.Repeat / bytes.Repeat (which panic on a negative count) whose count is
// not known to be non-negative: not a constant >= 0, not a len / cap / max(0, ...) / a rune or byte count, and not
// under a dominating test of the count against zero.
func repeatCounts(fns []*ssa.Function) (n int, flagged []string) {
	nonNeg := func(v ssa.Value) bool {
		for i := 0; i < 4; i++ {
			if c, ok := v.(*ssa.Convert); ok {
				v = c.X
				continue
			}
			break
		}
		switch t := v.(type) {
		case *ssa.Const:
			if t.Value != nil {
				if i, ok := constantInt64(t); ok && i >= 0 {
					return true
				}
			}
		case *ssa.Call:
			if b, ok := t.Call.Value.(*ssa.Builtin); ok {
				switch b.Name() {
				case "len", "cap":
					return true
				case "max":
					for _, a := range t.Call.Args {
						if c, ok := a.(*ssa.Const); ok {
							if i, ok := constantInt64(c); ok && i >= 0 {
								return true
							}
						}
					}
				}
			}
			if h := t.Call.StaticCallee(); h != nil && h.Pkg != nil && h.Pkg.Pkg.Path() == "unicode/utf8" && strings.HasPrefix(h.Name(), "RuneCount") {
				return true
			}
		}
		return false
	}
	guarded := func(in ssa.Instruction, v ssa.Value) bool {
		b := in.Block()
		for d := b.Idom(); d != nil; b, d = d, d.Idom() {
			if len(d.Instrs) == 0 {
				continue
			}
			iff, ok := d.Instrs[len(d.Instrs)-1].(*ssa.If)
			if !ok {
				continue
			}
			bo, ok := iff.Cond.(*ssa.BinOp)
			if !ok {
				continue
			}
			taken := -1
			for i, sc := range d.Succs {
				if sc == b && len(sc.Preds) == 1 {
					taken = i
				}
			}
			if taken < 0 {
				continue
			}
			x, y, op := bo.X, bo.Y, bo.Op
			if x != v && y == v {
				// mirror: c OP v  ==  v OP' c
				x, y = y, x
				switch op {
				case token.LSS:
					op = token.GTR
				case token.LEQ:
					op = token.GEQ
				case token.GTR:
					op = token.LSS
				case token.GEQ:
					op = token.LEQ
				}
			}
			if x != v {
				continue
			}
			c, ok := y.(*ssa.Const)
			if !ok {
				continue
			}
			k, ok := constantInt64(c)
			if !ok {
				continue
			}
			switch {
			case taken == 0 && (op == token.GTR && k >= -1 || op == token.GEQ && k >= 0):
				return true
			case taken == 1 && (op == token.LSS && k >= 0 || op == token.LEQ && k >= -1):
				return true
			}
		}
		return false
	}
	for _, f := range fns {
		for _, b := range f.Blocks {
			for _, in := range b.Instrs {
				c, ok := in.(*ssa.Call)
				if !ok {
					continue
				}
				h := c.Call.StaticCallee()
				if h == nil || h.Pkg == nil || h.Name() != "Repeat" || len(c.Call.Args) != 2 {
					continue
				}
				if pp := h.Pkg.Pkg.Path(); pp != "strings" && pp != "bytes" {
					continue
				}
				n++
				if v := c.Call.Args[1]; !nonNeg(v) && !guarded(in, v) {
					flagged = append(flagged, load.ShortName(f)+"@"+fmt.Sprint(int(c.Pos())))
				}
			}
		}
	}
	return
}

func constantInt64(c *ssa.Const) (int64, bool) {
	if c == nil || c.Value == nil {
		return 0, false
	}
	if c.Value.Kind() != constant.Int {
		return 0, false
	}
	return constant.Int64Val(c.Value)
}

// noNegativeRepeats (C09.P5): see repeatCounts; with the canary lint/testdata/canary/repeat (exactly Pad is flagged).
func noNegativeRepeats(x *Ctx) {
	var fns []*ssa.Function
	for _, f := range x.P.ModuleFuncs() {
		if x.P.IsLibrary(f) && len(f.Blocks) > 0 {
			fns = append(fns, f)
		}
	}
	n, flagged := repeatCounts(fns)
	bad := ""
	for _, s := range flagged {
		i := strings.LastIndex(s, "@")
		var pos int
		fmt.Sscan(s[i+1:], &pos)
		bad += fmt.Sprintf("%s: %s repeats a string a number of times that is not known to be non-negative: strings.Repeat panics on a negative count\n", x.P.Pos(token.Pos(pos)), s[:i])
	}
	x.C.Obl("C09.P5", "repeat-counts", "-", fmt.Sprintf("each of the %d calls of strings.Repeat / bytes.Repeat in %d library functions has a count known not to be negative", n, len(fns)), bad == "" && len(fns) > 0, dedupLines(bad))
	if canaryProg == nil {
		cp, err := load.Load(load.Options{Dir: filepath.Join(x.VerifDir, "lint", "testdata", "canary"), Module: "canary"})
		if err != nil {
			x.C.Unresolved("C09.P5", "repeat-counts-canary-load", "-", err.Error())
			return
		}
		canaryProg = cp
	}
	got := map[string]bool{}
	_, cf := repeatCounts(canaryProg.ModuleFuncs())
	for _, s := range cf {
		nm := s[:strings.LastIndex(s, "@")]
		got[nm[strings.LastIndex(nm, ".")+1:]] = true
	}
	x.C.Obl("C09.P5", "repeat-counts:canary", "lint/testdata/canary/repeat/repeat.go", "the seeded width-minus-byte-length count is flagged; a guarded, a constant, a len and a max(0, ...) count are not", len(got) == 1 && got["Pad"], fmt.Sprint(got))
}

// noBreakOut: each loop of the function named (and of new helpers its code moved into) is left only by its loop test
// or by a return: no break hands control to the code after the loop before every element was looked at. (A check
// that runs once per link of a chain and stops early on some condition never sees the links beyond.)
func noBreakOut(x *Ctx, rule, name string) {
	root := x.fn(rule, name)
	if root == nil {
		return
	}
	fns := []*ssa.Function{root}
	for g := range x.P.ReachFrom(root) {
		if g != root && x.P.IsNewHelper(g) && len(g.Blocks) > 0 {
			// only the helpers the code of root moved into: those whose instructions appear on root's own paths
			owned := false
			for _, o := range x.P.PathOwners(g) {
				if o == root {
					owned = true
				}
			}
			if owned {
				fns = append(fns, g)
			}
		}
	}
	for i := range fns {
		for j := i + 1; j < len(fns); j++ {
			if load.ShortName(fns[j]) < load.ShortName(fns[i]) {
				fns[i], fns[j] = fns[j], fns[i]
			}
		}
	}
	n, bad := 0, ""
	for _, f := range fns {
		for _, l := range paths.Info(f).Loops {
			n++
			var exit *ssa.BasicBlock
			for _, s := range l.Header.Succs {
				if !l.Body[s] {
					exit = s
				}
			}
			if exit == nil {
				continue
			}
			for _, pr := range exit.Preds {
				if pr != l.Header && l.Body[pr] && len(pr.Instrs) > 0 {
					bad += fmt.Sprintf("%s: %s leaves a loop over the chain through a break: the elements after it are not looked at\n", x.P.Pos(pr.Instrs[len(pr.Instrs)-1].Pos()), load.ShortName(f))
				}
			}
		}
	}
	short := name[strings.LastIndex(name, ".")+1:]
	x.C.Obl(rule, "no-break-out:"+short, x.pos(root), fmt.Sprintf("each of the %d loops is left only by its loop test or by a return", n), bad == "" && n >= 1, dedupLines(bad))
}

// payloadVerbatim (C07.R1): the envelope carries the payload node as the token's model renders it. In
// envelope.ToIPLD (its literals and new helpers) the map entry keyed by the token's Tag() is qp.Node(payload): the
// node is not rebuilt on the way in (a copy that "normalises" numbers or keys signs and seals something else than
// the token holds).
func payloadVerbatim(x *Ctx) {
	f := x.fn("C07.R1", envPkg+"ToIPLD")
	if f == nil {
		return
	}
	fns := []*ssa.Function{f}
	for g := range x.P.ReachFrom(f) {
		if g != f && x.P.IsNewHelper(g) && len(g.Blocks) > 0 {
			fns = append(fns, g)
		}
	}
	for i := 0; i < len(fns); i++ {
		fns = append(fns, fns[i].AnonFuncs...)
	}
	n, bad := 0, ""
	for _, g := range fns {
		for _, b := range g.Blocks {
			for _, in := range b.Instrs {
				c, ok := in.(*ssa.Call)
				if !ok {
					continue
				}
				h := c.Call.StaticCallee()
				if h == nil || h.Pkg == nil || h.Pkg.Pkg.Path() != "github.com/ipld/go-ipld-prime/fluent/qp" || h.Name() != "MapEntry" || len(c.Call.Args) != 3 {
					continue
				}
				kc, ok := c.Call.Args[1].(*ssa.Call)
				if !ok || !kc.Call.IsInvoke() || kc.Call.Method.Name() != "Tag" {
					continue
				}
				n++
				vc, ok := c.Call.Args[2].(*ssa.Call)
				if ok {
					if vh := vc.Call.StaticCallee(); vh != nil && vh.Pkg != nil && vh.Pkg.Pkg.Path() == "github.com/ipld/go-ipld-prime/fluent/qp" && vh.Name() == "Node" {
						continue
					}
				}
				bad += fmt.Sprintf("%s: the payload entry of the envelope is not qp.Node(payload): the payload is rebuilt before it is signed\n", x.P.Pos(in.Pos()))
			}
		}
	}
	x.C.Obl("C07.R1", "payload-verbatim:ToIPLD", x.pos(f), "the envelope's payload entry is the payload node itself", bad == "" && n > 0, dedupLines(bad))
}

// containersKeepEveryEntry (C10.R4): literal.Any's assembling loops (anyAssemble and its literals, literal.Map,
// literal.List) emit one entry per element: one MapEntry / ListEntry in each loop, dominating every back edge.
func containersKeepEveryEntry(x *Ctx) {
	for _, name := range []string{"pkg/policy/literal.anyAssemble"} {
		f := x.fn("C10.R4", name)
		if f == nil {
			continue
		}
		totalLoop(x, "C10.R4", "every-entry:"+name[strings.LastIndex(name, ".")+1:], f, "a map or list value is assembled with one entry per element of the caller's value: no element is skipped",
			func(in ssa.Instruction) (ssa.Value, bool) {
				if c, ok := in.(*ssa.Call); ok {
					if h := c.Call.StaticCallee(); h != nil && h.Pkg != nil && h.Pkg.Pkg.Path() == "github.com/ipld/go-ipld-prime/fluent/qp" && (h.Name() == "MapEntry" || h.Name() == "ListEntry") {
						return c.Call.Args[len(c.Call.Args)-1], true
					}
				}
				return nil, false
			}, nil)
	}
}

// mapKeysAreStrings (C10.R4): reflect.Value.String() of a key that is not of kind string answers "<int Value>" and
// the like instead of panicking. In anyAssemble every path that answers with qp.Map knows the key kind of the
// value's type to be reflect.String.
func mapKeysAreStrings(x *Ctx) {
	f := x.fn("C10.R4", "pkg/policy/literal.anyAssemble")
	if f == nil {
		return
	}
	n, bad := 0, ""
	for _, p := range x.paths("C10.R4", f) {
		if p.End != paths.EndReturn || len(p.Results()) != 1 || p.Results()[0] == nil {
			continue
		}
		r := p.Results()[0]
		if r.Op != "call" || !strings.HasSuffix(r.Name, "fluent/qp.Map") {
			continue
		}
		n++
		known := false
		for _, fc := range p.Facts {
			s := fc.Atom.String()
			if fc.Pol && fc.Atom.Op == "eq" && strings.Contains(s, "const(24)") && strings.Contains(s, "reflect.Type.Key") && strings.Contains(s, "Kind]") {
				known = true
			}
		}
		if !known {
			bad += "a map is assembled on a path that does not know its keys to be of kind string:\n" + p.String() + "\n"
		}
	}
	x.C.Obl("C10.R4", "map-keys-are-strings:anyAssemble", x.pos(f), "a map value is assembled only where the keys of its type are known to be strings", bad == "" && n > 0, firstLines(bad, 12))
}

// pointValidated (C16.R6): an ECDSA-typed secp256k1 key becomes a secp256k1 key only through the parser that checks
// the point (on the curve, coordinates in range): every success path of coerceECDSAToSecp256k1 carries the success
// of secp256k1.ParsePubKey and returns the key it parsed.
func pointValidated(x *Ctx) {
	f := x.fn("C16.R6", "did.coerceECDSAToSecp256k1")
	if f == nil {
		return
	}
	sel, unk, err := x.E.Select(f, paths.WantSuccess)
	if err != nil || len(unk) > 0 || len(sel) == 0 {
		x.C.Unresolved("C16.R6", "point-validated", x.pos(f), fmt.Sprintf("success paths not decided: %v, %d undecided", err, len(unk)))
		return
	}
	bad := ""
	for _, v := range sel {
		ok := false
		for _, fc := range v.AllFacts() {
			if sub := paths.NilCheckOf(fc.Atom); sub != nil && fc.Pol && strings.Contains(sub.String(), ".ParsePubKey](") && strings.HasSuffix(sub.String(), "#1") {
				ok = true
			}
		}
		if !ok {
			bad += "a key is handed out on a path that does not know secp256k1.ParsePubKey to have accepted the point:\n" + v.Path.String() + "\n"
		}
	}
	x.C.Obl("C16.R6", "point-validated", x.pos(f), "the coerced key went through secp256k1.ParsePubKey (on-curve and range check)", bad == "", firstLines(bad, 10))
}

// noRepeatedRendering (C09.T2): a function that can reach itself through the call graph does not call the same
// method on the same value twice (s.String() evaluated twice per level of a nested statement doubles the work at
// every level: 2^depth for a policy a few hundred bytes long).
func noRepeatedRendering(x *Ctx) {
	n, bad := 0, ""
	for _, f := range x.P.ModuleFuncs() {
		if !x.P.IsLibrary(f) || len(f.Blocks) == 0 {
			continue
		}
		type key struct {
			recv ssa.Value
			name string
		}
		seen := map[key]token.Pos{}
		var dups []key
		for _, b := range f.Blocks {
			for _, in := range b.Instrs {
				c, ok := in.(*ssa.Call)
				if !ok || !c.Call.IsInvoke() || len(c.Call.Args) != 0 {
					continue
				}
				k := key{c.Call.Value, c.Call.Method.Name()}
				if _, had := seen[k]; had {
					dups = append(dups, k)
				} else {
					seen[k] = c.Pos()
				}
			}
		}
		if len(dups) == 0 {
			continue
		}
		n++
		for _, k := range dups {
			// only where the recursion goes through this very call: a method of the module with that name can reach f
			through := false
			for _, h := range x.P.ModuleFuncs() {
				if h.Name() == k.name && h.Signature.Recv() != nil && x.P.IsLibrary(h) && (h == f || x.P.ReachFrom(h)[f]) {
					through = true
					break
				}
			}
			if !through {
				continue
			}
			bad += fmt.Sprintf("%s: %s calls %s() twice on the same value and can reach itself again: the work doubles with every level of nesting\n", x.P.Pos(seen[k]), load.ShortName(f), k.name)
		}
	}
	x.C.Obl("C09.T2", "no-repeated-rendering", "-", "no function that takes part in a recursion invokes the same parameterless method twice on the same value", bad == "", dedupLines(bad))
	_ = n
}

// keyMemoryUntouched (C19.R7): the crypto helpers do not write into the caller's key or ciphertext: no append whose
// destination is (a slice of) a parameter - with spare capacity behind the key, append writes into the memory next
// to it (another key cut from the same material).
func keyMemoryUntouched(x *Ctx) {
	n, bad := 0, ""
	for _, f := range x.P.ModuleFuncs() {
		if !x.P.IsLibrary(f) || len(f.Blocks) == 0 || !strings.HasSuffix(x.P.PkgPathOf(f), "/pkg/meta/internal/crypto") {
			continue
		}
		n++
		for _, b := range f.Blocks {
			for _, in := range b.Instrs {
				c, ok := in.(*ssa.Call)
				if !ok {
					continue
				}
				bi, ok := c.Call.Value.(*ssa.Builtin)
				if !ok || bi.Name() != "append" || len(c.Call.Args) == 0 {
					continue
				}
				v := c.Call.Args[0]
				for i := 0; i < 6; i++ {
					if s, ok := v.(*ssa.Slice); ok {
						if s.Max != nil {
							v = nil // a full slice expression caps the capacity: append copies
							break
						}
						v = s.X
						continue
					}
					break
				}
				if p, ok := v.(*ssa.Parameter); ok {
					bad += fmt.Sprintf("%s: %s appends to its parameter %s: with spare capacity the bytes go into the caller's memory behind it\n", x.P.Pos(in.Pos()), load.ShortName(f), p.Name())
				}
			}
		}
	}
	x.C.Obl("C19.R7", "key-memory-untouched", "-", fmt.Sprintf("none of the %d functions of the crypto package appends to a slice it was given", n), bad == "" && n > 0, dedupLines(bad))
}
