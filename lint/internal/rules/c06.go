package rules

import (
	"fmt"
	"go/types"
	"os"
	"path/filepath"
	"sort"
	"strings"

	"golang.org/x/tools/go/ssa"

	"verif/lint/internal/load"
	"verif/lint/internal/paths"
	"verif/lint/internal/report"
)

const envPkg = "token/internal/envelope."
const (
	dmNode  = "github.com/ipld/go-ipld-prime/datamodel.Node."
	ipldEnc = "github.com/ipld/go-ipld-prime.Encode"
)

func init() {
	register(&Property{
		Meta: report.Meta{
			Property:    "C06",
			Explanation: "Must-pass-through facts with operand identity in the generic envelope.FromIPLD[T] (all acyclic paths): a token is returned only if PubKey.Verify(data, signature) returned (true, nil) where the key is DID.PubKey(did.Parse(the \"iss\" string of info.tokenPayloadNode)), data is ipld.Encode(info.sigPayloadNode, dagcbor.Encode), the signature is info.Signature and info = Inspect(node); the envelope header equals varsig.Encode(key.Type()); info.Tag equals T.Tag(); and the value returned is unwrapped from a builder into which exactly info.tokenPayloadNode was assigned. Inspect takes the signature from element 0 and the signed map from element 1, accepts only the keys \"h\" and \"ucan/*\", requires exactly two entries with both found, and takes tokenPayloadNode from the iteration of that signed map. No bypass: every exported decoder of token/delegation/invocation returning a token passes through envelope.FromIPLD; tokenFromModel is only called on its dereferenced result; Token structs are only allocated in New and tokenFromModel. The varsig header table is constant-folded: headers are pairwise distinct and cover the key types FromPubKey accepts. (R5) the header table is read off varsig.Encode: a lookup in a package-level map built by a map literal, or one success path per key type returning a package-level header value; all headers are built by one helper from pairwise distinct constant segment lists.",
			Assumptions: []string{"libp2p PubKey.Verify is a correct signature verification", "dagcbor.Encode is deterministic", "bindnode builds the typed value from exactly the assigned node"},
			Trusted:     []string{"go-libp2p/core/crypto", "go-ipld-prime (dagcbor, bindnode)", "golang.org/x/tools/go/ssa v0.29.0"},
			NotDecided:  []string{"that no byte of the input escapes the re-encoding (codec property)", "signature scheme strength"},
		},
		Run: runC06,
	})
}

func runC06(x *Ctx) {
	x.C.Rule("C06.R1", "FromIPLD returns only after Verify(true,nil) over the re-encoded signed payload with the issuer's key; header, tag and payload identity", 8)
	x.C.Rule("C06.R2", "Inspect: signature, signed map, allowed keys, exactly two entries, payload taken from the signed map", 7)
	x.C.Rule("C06.R3", "no decoder bypasses envelope.FromIPLD; who-may-construct tokens", 30)
	x.C.Rule("C06.R4", "the wire name \"iss\" is the schema/model field parsed into the token's issuer", 4)
	x.C.Rule("C06.R5", "varsig header table: distinct headers covering all supported key types", 2)

	f := x.fn("C06.R1", envPkg+"FromIPLD")
	if f != nil {
		info := "call[" + envPkg + "Inspect](arg0)#0"
		issStr := "invoke[" + dmNode + "AsString](invoke[" + dmNode + "LookupByString](" + info + `.tokenPayloadNode,const("iss"))#0)#0`
		key := "call[(did.DID).PubKey](call[did.Parse](" + issStr + ")#0)#0"
		data := "call[" + ipldEnc + "](" + info + ".sigPayloadNode,conv[github.com/ipld/go-ipld-prime.Encoder](func(github.com/ipld/go-ipld-prime/codec/dagcbor.Encode)))#0"
		verify := "invoke[github.com/libp2p/go-libp2p/core/crypto.PubKey.Verify](" + key + "," + data + "," + info + ".Signature)"
		x.noPath("C06.R1", "verify-ok", f, paths.WantSuccess, atoms(map[string]bool{verify + "#0": false}), 0,
			"no token is returned unless Verify(Encode(info.sigPayloadNode, dagcbor), info.Signature) by the key of the payload's iss DID returned true")
		x.noPath("C06.R1", "verify-err", f, paths.WantSuccess, atoms(map[string]bool{eqs("const(nil)", verify+"#1"): false}), 0,
			"no token is returned unless that Verify call returned a nil error")
		hdr := eqs("conv[string]("+info+".VarsigHeader)", "conv[string](call[token/internal/varsig.Encode](invoke[github.com/libp2p/go-libp2p/core/crypto.PubKey.Type]("+key+"))#0)")
		x.noPath("C06.R1", "header-matches-key", f, paths.WantSuccess, atoms(map[string]bool{hdr: false}), 0,
			"no token is returned unless the envelope's varsig header equals varsig.Encode(issuer key type)")
		x.noPath("C06.R1", "tag-matches-type", f, paths.WantSuccess, func(t *paths.Term) (bool, bool) {
			if a, b, ok := eqOperands(t); ok {
				if (a.String() == info+".Tag" && b.Op == "invoke" && b.Name == "T.Tag") || (b.String() == info+".Tag" && a.Op == "invoke" && a.Name == "T.Tag") {
					return false, true
				}
			}
			return false, false
		}, 0, "no token is returned unless info.Tag equals the Tag() of the requested token type")
		x.noPath("C06.R1", "inspect-ok", f, paths.WantSuccess, paths.CallFails(callee(envPkg+"Inspect")), 0, "no token is returned unless Inspect succeeded")
		for _, c := range []string{"did.Parse", "(did.DID).PubKey", "token/internal/varsig.Encode", ipldEnc} {
			x.noPath("C06.R1", "checked:"+c, f, paths.WantSuccess, paths.CallFails(callee(c)), 0, "no token is returned unless "+c+" succeeded")
		}
		// payload identity
		sel, _, _ := x.E.Select(f, paths.WantSuccess)
		ok := len(sel) > 0
		detail := ""
		for _, v := range sel {
			r := v.Results()[0]
			rs := r.String()
			if !strings.HasPrefix(rs, "typeassert[T](call[github.com/ipld/go-ipld-prime/node/bindnode.Unwrap](invoke[github.com/ipld/go-ipld-prime/datamodel.NodeBuilder.Build](") || !strings.HasSuffix(rs, "#0") {
				ok = false
				detail += "returns " + rs + "\n"
				continue
			}
			// the builder: Build(NB); AssignNode(NB, info.tokenPayloadNode) succeeded; Unwrap != nil; assertion ok
			nb := r.Args[0].Args[0].Args[0].Args[0].String()
			assign := "invoke[github.com/ipld/go-ipld-prime/datamodel.NodeBuilder.AssignNode](" + nb + "," + info + ".tokenPayloadNode)"
			if !v.HasFact(eqs("const(nil)", assign), true) {
				ok = false
				detail += "the builder of the returned value was not assigned info.tokenPayloadNode with the error checked\n"
			}
			unwrap := r.Args[0].Args[0].String()
			if !v.HasFact(eqs("const(nil)", unwrap), false) {
				ok = false
				detail += "bindnode.Unwrap result not checked for nil\n"
			}
			if !v.HasFact(r.Args[0].String()+"#1", true) {
				ok = false
				detail += "type assertion result not checked\n"
			}
		}
		x.C.Obl("C06.R1", "payload-identity", x.pos(f), "the value returned is unwrapped from a builder to which exactly info.tokenPayloadNode (the verified map's entry) was assigned", ok, detail)
	}

	if g := x.fn("C06.R2", envPkg+"Inspect"); g != nil {
		inspectRules(x, g)
	}
	noBypass(x)
	issuerAgreement(x)
	varsigTable(x)
}

func inspectRules(x *Ctx, g *ssa.Function) {
	sig := "invoke[" + dmNode + "LookupByIndex](arg0,const(1))#0"
	it := "invoke[" + dmNode + "MapIterator](" + sig + ")"
	next := "invoke[github.com/ipld/go-ipld-prime/datamodel.MapIterator.Next](" + it + ")"
	keyS := "invoke[" + dmNode + "AsString](" + next + "#0)#0"
	kMap, _ := x.kindConst("Kind_Map")
	x.noPath("C06.R2", "signed-part-is-map", g, paths.WantSuccess, atoms(map[string]bool{eqs(fmt.Sprintf("const(%d)", kMap), "invoke["+dmNode+"Kind]("+sig+")"): false}), 0,
		"Inspect fails unless element 1 of the envelope is a map")
	ls := loopsIn(g)
	if len(ls) != 1 {
		x.C.Unresolved("C06.R2", "loop:Inspect", x.pos(g), fmt.Sprintf("expected one loop over the signed map, found %d", len(ls)))
		return
	}
	l := ls[0].L
	isH, isTag := eqs(`const("h")`, keyS), "call[strings.HasPrefix]("+keyS+`,const("ucan/"))`
	x.mustBlock("C06.R2", "allowed-keys", g, l, atoms(map[string]bool{isH: false, isTag: false}), 0,
		"an entry of the signed map whose key is neither \"h\" nor prefixed \"ucan/\" makes Inspect fail")
	// success paths: count == 2, both found; result fields
	sel, _, err := x.E.Select(g, paths.WantSuccess)
	if err != nil || len(sel) == 0 {
		x.C.Unresolved("C06.R2", "success:Inspect", x.pos(g), "no classifiable success path")
		return
	}
	// loop-carried values: counter (int, compared with 2) and the two found flags
	var counter, fh, ft string
	for _, phi := range l.HeaderPhis() {
		t := paths.DetachedTerm(g, phi)
		lps, _ := x.E.LatchPaths(g, l, nil, 0)
		for _, lp := range lps {
			nv := lp.LatchValue(phi)
			if nv == nil {
				continue
			}
			if nv.String() == "add("+t.String()+",const(1))" {
				counter = t.String()
			}
			if nv.IsConst("true") && lp.HasFact(isH, true) {
				fh = t.String()
			}
			if nv.IsConst("true") && lp.HasFact(isTag, true) {
				ft = t.String()
			}
		}
	}
	if counter == "" || fh == "" || ft == "" {
		x.C.Unresolved("C06.R2", "state:Inspect", x.pos(g), fmt.Sprintf("cannot identify the entry counter and the two found flags among the loop-carried values (counter=%q header=%q payload=%q)", counter, fh, ft))
		return
	}
	x.noPath("C06.R2", "exactly-two-entries", g, paths.WantSuccess, paths.Both(paths.ValueIs(counter, 1), paths.ValueIs(counter, 3)), 0, "placeholder")
	// replace the placeholder obligation text with precise ones
	x.C.Obls = x.C.Obls[:len(x.C.Obls)-1]
	for _, n := range []int64{0, 1, 3} {
		x.noPath("C06.R2", fmt.Sprintf("entries=%d", n), g, paths.WantSuccess, paths.ValueIs(counter, n), 0, fmt.Sprintf("Inspect fails when the signed map has %d entries", n))
	}
	x.noPath("C06.R2", "header-found", g, paths.WantSuccess, atoms(map[string]bool{fh: false}), 0, "Inspect fails unless the \"h\" entry was found")
	x.noPath("C06.R2", "payload-found", g, paths.WantSuccess, atoms(map[string]bool{ft: false}), 0, "Inspect fails unless a \"ucan/*\" entry was found")
	// result fields
	ok := true
	detail := ""
	for _, v := range sel {
		cell := paths.CellOf(v.Results()[0])
		if cell == nil {
			ok = false
			detail += "returns " + v.Results()[0].String() + "\n"
			continue
		}
		fs := v.FieldStores(cell)
		want := map[string]string{
			"Signature":      "invoke[" + dmNode + "AsBytes](invoke[" + dmNode + "LookupByIndex](arg0,const(0))#0)#0",
			"sigPayloadNode": sig,
		}
		for fld, w := range want {
			if fs[fld] == nil || fs[fld].String() != w {
				ok = false
				detail += fmt.Sprintf("field %s = %v, want %s\n", fld, fs[fld], w)
			}
		}
	}
	// in-loop stores of tokenPayloadNode / VarsigHeader / Tag
	lps, _ := x.E.LatchPaths(g, l, nil, 0)
	nTag := 0
	for _, lp := range lps {
		lp.Instrs(func(in ssa.Instruction) {
			st, isSt := in.(*ssa.Store)
			if !isSt {
				return
			}
			at := lp.Term(st.Addr)
			if at.Op != "fieldaddr" {
				return
			}
			val := lp.Term(st.Val).String()
			switch at.Name {
			case "tokenPayloadNode":
				nTag++
				if val != next+"#1" || !lp.HasFact(isTag, true) {
					ok = false
					detail += "tokenPayloadNode is assigned " + val + "\n"
				}
			case "Tag":
				if val != keyS {
					ok = false
					detail += "Tag is assigned " + val + "\n"
				}
			case "VarsigHeader":
				if val != "invoke["+dmNode+"AsBytes]("+next+"#1)#0" || !lp.HasFact(isH, true) {
					ok = false
					detail += "VarsigHeader is assigned " + val + "\n"
				}
			}
		})
	}
	x.C.Obl("C06.R2", "fields", x.pos(g), "Signature = bytes of element 0; sigPayloadNode = element 1; tokenPayloadNode / Tag / VarsigHeader come from the iteration of that same signed map", ok && nTag == 1, detail)
}

// decoderEntries lists exported functions returning a token from bytes / reader / node.
func decoderEntries(x *Ctx) []*ssa.Function {
	var out []*ssa.Function
	for _, f := range x.P.ExportedAPI() {
		pp := x.P.PkgPathOf(f)
		rel := strings.TrimPrefix(pp, load.Module+"/")
		if rel != "token" && rel != "token/delegation" && rel != "token/invocation" {
			continue
		}
		sig := f.Signature
		if sig.Recv() != nil {
			continue
		}
		retTok := false
		for i := 0; i < sig.Results().Len(); i++ {
			s := sig.Results().At(i).Type().String()
			if strings.HasSuffix(s, "token/delegation.Token") || strings.HasSuffix(s, "token/invocation.Token") || strings.HasSuffix(s, "go-ucan/token.Token") {
				retTok = true
			}
		}
		inData := false
		for i := 0; i < sig.Params().Len(); i++ {
			s := sig.Params().At(i).Type().String()
			if s == "[]byte" || s == "io.Reader" || strings.HasSuffix(s, "datamodel.Node") {
				inData = true
			}
		}
		if retTok && inData {
			out = append(out, f)
		}
	}
	return out
}

func noBypass(x *Ctx) {
	isFromIPLD := func(n string, _ *paths.Term) bool {
		return strings.HasPrefix(n, envPkg+"FromIPLD")
	}
	entries := decoderEntries(x)
	for _, f := range entries {
		x.noPath("C06.R3", "via-FromIPLD:"+load.ShortName(f), f, paths.WantSuccess, paths.CallFails(isFromIPLD), 8,
			"no success path of this decoder on which envelope.FromIPLD is not called or its failure is ignored")
	}
	x.C.Extra["decoder_entry_points"] = len(entries)
	// instances of FromIPLD are the generic body (the instance delegates to / is instantiated from the origin)
	gen := x.P.Func(envPkg + "FromIPLD")
	for _, inst := range []string{envPkg + "FromIPLD[*token/delegation.tokenPayloadModel]", envPkg + "FromIPLD[*token/invocation.tokenPayloadModel]"} {
		fi := x.fn("C06.R3", inst)
		if fi == nil {
			continue
		}
		x.C.Obl("C06.R3", "instance-of:"+inst, x.pos(fi), "the instantiated function's origin is the generic envelope.FromIPLD analysed by R1", fi.Origin() == gen && gen != nil, "")
	}
	// tokenFromModel callers
	for _, pk := range []string{"token/delegation", "token/invocation"} {
		tfm := x.fn("C06.R3", pk+".tokenFromModel")
		if tfm == nil {
			continue
		}
		bad, n := "", 0
		for _, f := range x.P.ModuleFuncs() {
			for _, p := range x.callSitesOf(f, tfm) {
				n++
				arg := p.arg0
				var ct *paths.Term
				if arg.Op == "load" {
					ct, _ = paths.CallOf(arg.Args[0])
				}
				okArg := arg.Op == "load" && ct != nil && strings.HasPrefix(ct.Name, envPkg+"From") && strings.HasSuffix(arg.Args[0].String(), "#0")
				if !okArg || !p.path.HasFact(eqs(ct.String()+"#1", "const(nil)"), true) {
					bad += p.pos + ": tokenFromModel is called on " + arg.String() + " in " + load.ShortName(f) + "\n"
				}
			}
		}
		x.C.Obl("C06.R3", "tokenFromModel-callers:"+pk, x.pos(tfm), "tokenFromModel is only called on the dereferenced, error-checked result of envelope.From*", bad == "" && n >= 1, bad)
		// who may construct
		tokT := load.Module + "/" + pk + ".Token"
		var sites []string
		for _, f := range x.P.ModuleFuncs() {
			if !x.P.IsLibrary(f) {
				continue
			}
			for _, b := range f.Blocks {
				for _, in := range b.Instrs {
					if a, ok := in.(*ssa.Alloc); ok && a.Type().(*types.Pointer).Elem().String() == tokT {
						sites = append(sites, load.ShortName(f))
					}
				}
			}
		}
		sort.Strings(sites)
		want := []string{pk + ".New", pk + ".tokenFromModel"}
		x.C.Obl("C06.R3", "who-constructs:"+pk, x.pos(tfm), "Token values are allocated only in New and tokenFromModel", strings.Join(sites, ",") == strings.Join(want, ","), "allocation sites: "+strings.Join(sites, ","))
	}
}

type callSite struct {
	path *paths.Path
	arg0 *paths.Term
	pos  string
}

// callSitesOf returns one entry per (path, call) of f calling g.
func (x *Ctx) callSitesOf(f, g *ssa.Function) []callSite {
	var out []callSite
	if paths.Inlineable != nil && paths.Inlineable(f) && !paths.TrivialWrapper(f) {
		return nil // a helper that is spliced into its callers: its call sites are seen on their paths
	}
	seen := map[string]bool{}
	for _, p := range x.pathsQuiet(f) {
		for _, c := range p.Calls() {
			if paths.StaticCallee(c) == g {
				ct := p.Term(c)
				if seen[x.P.Pos(c.Pos())+ct.String()] {
					continue
				}
				seen[x.P.Pos(c.Pos())+ct.String()] = true
				var a0 *paths.Term
				if len(ct.Args) > 0 {
					a0 = ct.Args[0]
				}
				out = append(out, callSite{path: p, arg0: a0, pos: x.P.Pos(c.Pos())})
			}
		}
	}
	return out
}

func issuerAgreement(x *Ctx) {
	for _, pk := range []string{"token/delegation", "token/invocation"} {
		name := filepath.Base(pk)
		sch, err := os.ReadFile(filepath.Join(x.P.Dir, pk, name+".ipldsch"))
		if err != nil {
			x.C.Unresolved("C06.R4", "schema:"+pk, "-", err.Error())
			continue
		}
		fields := parseSchema(string(sch))
		_, hasIss := fields["iss"]
		model := x.structFields("C06.R4", pk, "tokenPayloadModel")
		hasModel := false
		for _, m := range model {
			if m == "Iss" {
				hasModel = true
			}
		}
		x.C.Obl("C06.R4", "schema-model:"+pk, pk+"/"+name+".ipldsch", "the schema has a field iss and the payload model a field Iss bound to it", hasIss && hasModel, fmt.Sprint(fields))
		tfm := x.fn("C06.R4", pk+".tokenFromModel")
		if tfm == nil {
			continue
		}
		sel, _, _ := x.E.Select(tfm, paths.WantSuccess)
		ok := len(sel) > 0
		detail := ""
		for _, v := range sel {
			cell := paths.CellOf(v.Results()[0])
			if cell == nil {
				ok = false
				continue
			}
			fs := v.FieldStores(cell)
			if fs["issuer"] == nil || fs["issuer"].String() != "call[did.Parse](arg0.Iss)#0" {
				ok = false
				detail += fmt.Sprintf("issuer = %v\n", fs["issuer"])
			}
		}
		x.C.Obl("C06.R4", "issuer-from-iss:"+pk, x.pos(tfm), "the token's issuer is did.Parse of the model field Iss (the field whose key was used to verify)", ok, detail)
	}
}

// schemaField describes one field of the Payload struct of an .ipldsch file.
type schemaField struct {
	Type     string
	Optional bool
	Nullable bool
	Index    int
}

// parseSchema extracts the fields of `type Payload struct { ... }`.
func parseSchema(src string) map[string]schemaField {
	out := map[string]schemaField{}
	in := false
	idx := 0
	for _, line := range strings.Split(src, "\n") {
		line = strings.TrimSpace(line)
		if i := strings.Index(line, "#"); i >= 0 {
			line = strings.TrimSpace(line[:i])
		}
		if strings.HasPrefix(line, "type Payload struct") {
			in = true
			continue
		}
		if !in || line == "" {
			continue
		}
		if line == "}" {
			break
		}
		parts := strings.Fields(line)
		if len(parts) < 2 {
			continue
		}
		f := schemaField{Index: idx}
		idx++
		rest := parts[1:]
		for len(rest) > 0 && (rest[0] == "optional" || rest[0] == "nullable") {
			if rest[0] == "optional" {
				f.Optional = true
			} else {
				f.Nullable = true
			}
			rest = rest[1:]
		}
		f.Type = strings.Join(rest, " ")
		out[parts[0]] = f
	}
	return out
}

func varsigTable(x *Ctx) {
	f := x.fn("C06.R5", "token/internal/varsig.Encode")
	if f == nil {
		return
	}
	// key type constant -> description of the header value: the helper that builds it and its constant
	// segments ("header(52,4613,...)"), or a string constant. The table is read off Encode: a lookup in a
	// package-level map (built by a map literal, in the initialiser or in the function that returns it), or one
	// path per key type returning a package-level variable / a call / a constant.
	headers := map[string]string{}
	bad := ""
	describe := func(v ssa.Value) string {
		for {
			if c, ok := v.(*ssa.Convert); ok {
				v = c.X
				continue
			}
			if c, ok := v.(*ssa.ChangeType); ok {
				v = c.X
				continue
			}
			break
		}
		switch t := v.(type) {
		case *ssa.Const:
			if t.Value != nil {
				return "const:" + t.Value.ExactString()
			}
		case *ssa.Call:
			h := paths.StaticCallee(t)
			if h == nil || !x.P.InModule(h) {
				return ""
			}
			var parts []string
			for _, a := range t.Call.Args {
				switch at := a.(type) {
				case *ssa.Const:
					parts = append(parts, at.Value.ExactString())
				case *ssa.Slice:
					arr, okA := at.X.(*ssa.Alloc)
					if !okA {
						return ""
					}
					n := arrLen(arr)
					vals := make([]string, n)
					got := 0
					for _, ref := range *arr.Referrers() {
						ia, ok := ref.(*ssa.IndexAddr)
						if !ok {
							continue
						}
						idx, _ := ia.Index.(*ssa.Const)
						for _, r2 := range *ia.Referrers() {
							if st, ok := r2.(*ssa.Store); ok {
								if c, ok := st.Val.(*ssa.Const); ok && idx != nil {
									vals[idx.Int64()] = c.Value.ExactString()
									got++
								}
							}
						}
					}
					if int64(got) != n {
						return ""
					}
					parts = append(parts, vals...)
				default:
					return ""
				}
			}
			return paths.FuncName(h) + "(" + strings.Join(parts, ",") + ")"
		}
		return ""
	}
	initStore := func(g *ssa.Global) ssa.Value {
		var v ssa.Value
		if init := g.Pkg.Func("init"); init != nil {
			for _, b := range init.Blocks {
				for _, in := range b.Instrs {
					if st, ok := in.(*ssa.Store); ok && st.Addr == ssa.Value(g) {
						v = st.Val
					}
				}
			}
		}
		return v
	}
	mapEntries := func(g *ssa.Global) {
		m := initStore(g)
		if m == nil {
			bad += "the header table " + g.Name() + " is not initialised by the package initialiser\n"
			return
		}
		fn := g.Pkg.Func("init")
		if c, ok := m.(*ssa.Call); ok {
			if h := paths.StaticCallee(c); h != nil && len(h.Blocks) > 0 {
				fn = h
			}
		}
		for _, b := range fn.Blocks {
			for _, in := range b.Instrs {
				mu, ok := in.(*ssa.MapUpdate)
				if !ok {
					continue
				}
				k, isC := mu.Key.(*ssa.Const)
				d := describe(mu.Value)
				if !isC || d == "" {
					bad += "map entry not of the form KeyType: <helper>(consts...) or a constant\n"
					continue
				}
				headers[k.Value.ExactString()] = d
			}
		}
	}
	for _, p := range x.pathsQuiet(f) {
		if o, _ := p.ErrorOutcome(); o != paths.Success || len(p.Results()) == 0 {
			continue
		}
		r := p.Results()[0]
		for r != nil && r.Op == "conv" && len(r.Args) == 1 {
			r = r.Args[0]
		}
		// table lookup
		if r.Op == "extract" && len(r.Args) == 1 && r.Args[0].Op == "lookup" && len(r.Args[0].Args) == 2 && r.Args[0].Args[1].String() == "arg0" {
			mt := r.Args[0].Args[0]
			if mt.Op == "load" && mt.Args[0].Op == "global" {
				if g, ok := mt.Args[0].Val.(*ssa.Global); ok {
					mapEntries(g)
					continue
				}
			}
			bad += "Encode looks the header up in " + mt.String() + ": not a package-level map\n"
			continue
		}
		// one path per key type
		key := ""
		for _, fc := range p.Facts {
			if fc.Pol && fc.Atom.Op == "eq" && len(fc.Atom.Args) == 2 {
				a, b := fc.Atom.Args[0], fc.Atom.Args[1]
				if a.Op == "const" {
					a, b = b, a
				}
				if a.String() == "arg0" && b.Op == "const" {
					key = b.Name
				}
			}
		}
		if key == "" {
			bad += "a success path of Encode is not selected by the key type: returns " + r.String() + "\n"
			continue
		}
		var v ssa.Value = r.Val
		if r.Op == "load" && r.Args[0].Op == "global" {
			if g, ok := r.Args[0].Val.(*ssa.Global); ok {
				v = initStore(g)
			}
		}
		d := ""
		if v != nil {
			d = describe(v)
		}
		if d == "" {
			bad += "the header of key type " + key + " is " + r.String() + ": not a constant, nor a helper applied to constants (directly or through a package-level variable)\n"
			continue
		}
		headers[key] = d
	}
	// all built the same way
	helper := ""
	for _, d := range headers {
		h := d
		if i := strings.Index(d, "("); i >= 0 && !strings.HasPrefix(d, "const:") {
			h = d[:i]
		} else {
			h = "const"
		}
		if helper != "" && helper != h {
			bad += "headers are built in different ways (" + helper + ", " + h + "): distinct segment lists do not imply distinct headers\n"
		}
		helper = h
	}
	seen := map[string]string{}
	for k, h := range headers {
		if o, dup := seen[h]; dup {
			bad += fmt.Sprintf("key types %s and %s share the header %s\n", o, k, h)
		}
		seen[h] = k
	}
	x.C.Obl("C06.R5", "headers-distinct", x.pos(f), fmt.Sprintf("the %d varsig headers Encode can return are built by one helper from pairwise distinct constant segment lists", len(headers)), bad == "" && len(headers) >= 4, bad+fmt.Sprint(headers))
	// key types accepted by did.FromPubKey
	fp := x.fn("C06.R5", "did.FromPubKey")
	if fp == nil {
		return
	}
	types_ := map[string]bool{}
	for _, p := range x.pathsQuiet(fp) {
		for _, fc := range p.Facts {
			if fc.Pol && fc.Atom.Op == "eq" && strings.Contains(fc.Atom.String(), "PubKey.Type](arg0)") {
				for _, a := range fc.Atom.Args {
					if a.Op == "const" {
						types_[a.Name] = true
					}
				}
			}
		}
	}
	missing := ""
	for t := range types_ {
		if _, ok := headers[t]; !ok {
			missing += "key type " + t + " accepted by did.FromPubKey has no varsig header\n"
		}
	}
	x.C.Obl("C06.R5", "covers-key-types", x.pos(fp), fmt.Sprintf("every key type did.FromPubKey accepts (%d) has a varsig header", len(types_)), missing == "" && len(types_) >= 4, missing)
}
