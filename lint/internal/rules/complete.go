package rules

import (
	"fmt"
	"go/types"
	"strings"

	"golang.org/x/tools/go/ssa"

	"verif/lint/internal/load"
	"verif/lint/internal/paths"
)

// containerComplete: the node built from a key/value container (Args.ToIPLD) is what the policies are matched
// against and what is sealed into the token. It must carry every key of the container: each map entry is
// assembled in a full range loop over a list that is a permutation of recv.Keys (the list itself, a full copy,
// a sorted collection of it), the key of the entry is the element of that iteration, and no path through the
// loop body skips the entry or leaves the loop early. Decided on the SSA form of the function, its function
// literals and new helpers; an unrecognised way of building the list is reported (with the construct).
func containerComplete(x *Ctx, rule, short string) {
	f := x.fn(rule, short)
	if f == nil {
		return
	}
	isContainer := func(t types.Type) bool {
		if p, ok := t.Underlying().(*types.Pointer); ok {
			t = p.Elem()
		}
		s := t.String()
		return s == load.Module+"/pkg/args.Args" || s == load.Module+"/pkg/meta.Meta"
	}
	cc := &completeCtx{x: x, isContainer: isContainer, seen: map[ssa.Value]bool{}, param: map[*ssa.Parameter]ssa.Value{}, parent: map[*ssa.Function]*ssa.Function{}}
	// the functions whose code belongs to f: literals, new helpers (with their parameters bound at the call)
	var fns []*ssa.Function
	var add func(g *ssa.Function, depth int)
	add = func(g *ssa.Function, depth int) {
		for _, h := range fns {
			if h == g {
				return
			}
		}
		fns = append(fns, g)
		for _, a := range g.AnonFuncs {
			add(a, depth)
		}
		if depth >= paths.MaxInlineDepth {
			return
		}
		for _, b := range g.Blocks {
			for _, in := range b.Instrs {
				c, ok := in.(*ssa.Call)
				if !ok {
					continue
				}
				h := c.Call.StaticCallee()
				if h == nil || len(h.Blocks) == 0 || !x.P.IsNewHelper(h) {
					continue
				}
				if o := h.Origin(); o != nil {
					continue
				}
				for i, p := range h.Params {
					if i < len(c.Call.Args) {
						if _, dup := cc.param[p]; dup {
							cc.param[p] = nil // two call sites: not bound
						} else {
							cc.param[p] = c.Call.Args[i]
							cc.parent[h] = g
						}
					}
				}
				add(h, depth+1)
			}
		}
	}
	add(f, 0)

	sites, bad := 0, ""
	for _, g := range fns {
		for _, b := range g.Blocks {
			for _, in := range b.Instrs {
				key := assembledKey(in)
				if key == nil {
					continue
				}
				sites++
				pos := x.P.Pos(in.Pos())
				l := paths.Info(g).InnermostLoop(b)
				if l == nil {
					bad += fmt.Sprintf("%s: a map entry is assembled outside a loop over the container's keys\n", pos)
					continue
				}
				if l.IV == nil || l.Start != 0 || l.Bound == nil {
					bad += fmt.Sprintf("%s: the loop assembling the entries is not a full range loop (for ... := range list)\n", pos)
					continue
				}
				list := lenArg(l.Bound)
				if list == nil {
					bad += fmt.Sprintf("%s: the loop assembling the entries is not bounded by the length of a list\n", pos)
					continue
				}
				if why := fullBody(l, b); why != "" {
					bad += fmt.Sprintf("%s: %s: a key of the container would be missing from the node\n", pos, why)
				}
				if !elementOf(key, list) {
					bad += fmt.Sprintf("%s: the key of the entry is not the element of the list the loop ranges over\n", pos)
				}
				if ok, why := cc.covers(list, g); !ok {
					bad += fmt.Sprintf("%s: the list the entries are assembled from is not shown to hold every key of the container: %s\n", pos, why)
				}
			}
		}
	}
	if sites == 0 {
		bad += "no map entry is assembled (qp.MapEntry / AssembleEntry / AssembleKey) in the function, its literals or helpers\n"
	}
	x.C.Obl(rule, "complete:"+short, x.pos(f), "every key of the container is assembled into the node: full range loop over a permutation of recv.Keys, no path through the body skips the entry", bad == "", dedupLines(bad))
}

type completeCtx struct {
	x           *Ctx
	isContainer func(types.Type) bool
	seen        map[ssa.Value]bool
	param       map[*ssa.Parameter]ssa.Value
	parent      map[*ssa.Function]*ssa.Function
}

// assembledKey returns the key operand when in assembles a map entry.
func assembledKey(in ssa.Instruction) ssa.Value {
	c, ok := in.(ssa.CallInstruction)
	if !ok {
		return nil
	}
	cm := c.Common()
	if cm.IsInvoke() {
		if cm.Method.Name() == "AssembleEntry" && len(cm.Args) == 1 {
			return cm.Args[0]
		}
		return nil
	}
	if h := cm.StaticCallee(); h != nil && h.Pkg != nil && h.Pkg.Pkg.Path() == "github.com/ipld/go-ipld-prime/fluent/qp" && h.Name() == "MapEntry" && len(cm.Args) == 3 {
		return cm.Args[1]
	}
	return nil
}

func stripConvV(v ssa.Value) ssa.Value {
	for {
		switch c := v.(type) {
		case *ssa.ChangeType:
			v = c.X
		case *ssa.Convert:
			v = c.X
		default:
			return v
		}
	}
}

// lenArg returns X when v is len(X) (possibly converted).
func lenArg(v ssa.Value) ssa.Value {
	c, ok := stripConvV(v).(*ssa.Call)
	if !ok {
		return nil
	}
	if b, ok := c.Call.Value.(*ssa.Builtin); ok && b.Name() == "len" && len(c.Call.Args) == 1 {
		return c.Call.Args[0]
	}
	return nil
}

// sameCell: two values denote the same list (the same SSA value, or loads of the same variable).
func sameCell(a, b ssa.Value) bool {
	a, b = stripConvV(a), stripConvV(b)
	if a == b {
		return true
	}
	ua, ok1 := a.(*ssa.UnOp)
	ub, ok2 := b.(*ssa.UnOp)
	return ok1 && ok2 && ua.X == ub.X
}

// elementOf: key is list[i] (value or loaded through its address).
func elementOf(key, list ssa.Value) bool {
	key = stripConvV(key)
	switch k := key.(type) {
	case *ssa.UnOp:
		if ia, ok := k.X.(*ssa.IndexAddr); ok {
			return sameCell(ia.X, list)
		}
	case *ssa.Index:
		return sameCell(k.X, list)
	}
	return false
}

// fullBody: the block of the entry lies on every trip through the loop body, and the loop is left only
// through its header.
func fullBody(l *paths.Loop, site *ssa.BasicBlock) string {
	for _, u := range l.Latches {
		if !site.Dominates(u) && site != u {
			return "the loop body has a path to the next iteration that does not assemble the entry"
		}
	}
	for b := range l.Body {
		if b == l.Header {
			continue
		}
		for _, in := range b.Instrs {
			if _, ok := in.(*ssa.Return); ok {
				return "the loop body can return before the last key"
			}
		}
		for _, s := range b.Succs {
			if !l.Body[s] {
				return "the loop can be left before the last key"
			}
		}
	}
	return ""
}

// covers: v holds every key of the container (a permutation of recv.Keys).
func (cc *completeCtx) covers(v ssa.Value, fn *ssa.Function) (bool, string) {
	v = stripConvV(v)
	if cc.seen[v] {
		return false, "cyclic definition"
	}
	cc.seen[v] = true
	defer delete(cc.seen, v)
	pos := func() string {
		if v.Pos().IsValid() {
			return cc.x.P.Pos(v.Pos())
		}
		return cc.x.P.FuncPos(fn)
	}
	switch t := v.(type) {
	case *ssa.Parameter:
		if a := cc.param[t]; a != nil {
			return cc.covers(a, cc.parent[fn])
		}
		return false, fmt.Sprintf("%s: parameter %s of %s is not bound at a single call", pos(), t.Name(), load.ShortName(fn))
	case *ssa.UnOp:
		switch a := t.X.(type) {
		case *ssa.FieldAddr:
			if cc.isContainer(a.X.Type()) {
				fld := a.X.Type().Underlying().(*types.Pointer).Elem().Underlying().(*types.Struct).Field(a.Field)
				if paths.FieldName(fld) == "Keys" {
					return true, ""
				}
			}
		case *ssa.FreeVar:
			parent := fn.Parent()
			if parent == nil {
				break
			}
			for _, b := range parent.Blocks {
				for _, in := range b.Instrs {
					mc, ok := in.(*ssa.MakeClosure)
					if !ok || mc.Fn != ssa.Value(fn) {
						continue
					}
					for i, fv := range fn.FreeVars {
						if fv == a && i < len(mc.Bindings) {
							if al, ok := mc.Bindings[i].(*ssa.Alloc); ok {
								return cc.coversCell(al, parent)
							}
							return cc.covers(mc.Bindings[i], parent)
						}
					}
				}
			}
		case *ssa.Alloc:
			return cc.coversCell(a, fn)
		}
	case *ssa.Slice:
		if t.High == nil && t.Max == nil && (t.Low == nil || isZero(t.Low)) {
			return cc.covers(t.X, fn)
		}
	case *ssa.Phi:
		return cc.coversPhi(t, fn)
	case *ssa.MakeSlice:
		if !isZero(t.Len) {
			return cc.filledByCopy(t, nil, fn)
		}
	case *ssa.Call:
		name := calleeName(t)
		if h := t.Call.StaticCallee(); h != nil && len(h.Blocks) > 0 && h.Origin() == nil && cc.x.P.InModule(h) && h.Signature.Results().Len() == 1 {
			// a helper of the module that returns the list: every value it returns must hold every key
			for i, p := range h.Params {
				if _, bound := cc.param[p]; !bound && i < len(t.Call.Args) {
					cc.param[p] = t.Call.Args[i]
					cc.parent[h] = fn
				}
			}
			n := 0
			for _, b := range h.Blocks {
				for _, in := range b.Instrs {
					if r, ok := in.(*ssa.Return); ok && len(r.Results) == 1 {
						n++
						if ok, why := cc.covers(r.Results[0], h); !ok {
							return false, why
						}
					}
				}
			}
			if n > 0 {
				return true, ""
			}
		}
		switch {
		case strings.HasPrefix(name, "slices.Clone"):
			return cc.covers(t.Call.Args[0], fn)
		case strings.HasPrefix(name, "slices.Sorted") || strings.HasPrefix(name, "slices.Collect"):
			if in, ok := stripConvV(t.Call.Args[0]).(*ssa.Call); ok {
				n2 := calleeName(in)
				if strings.HasPrefix(n2, "slices.Values") {
					return cc.covers(in.Call.Args[0], fn)
				}
				if strings.HasPrefix(n2, "maps.Keys") && cc.isValuesMap(in.Call.Args[0]) {
					return true, ""
				}
			}
		case name == "builtin.append" && len(t.Call.Args) == 2:
			if cc.isEmpty(t.Call.Args[0]) {
				if _, isSlice := t.Call.Args[1].Type().Underlying().(*types.Slice); isSlice {
					if _, lit := sliceLitOf(t.Call.Args[1]); !lit {
						return cc.covers(t.Call.Args[1], fn)
					}
				}
			}
		}
	}
	return false, fmt.Sprintf("%s: %s is not recv.Keys, a full copy of it (make+copy, slices.Clone, append to empty), a sorted collection of it, or a list filled by an unconditional loop over it", pos(), describe(v))
}

func describe(v ssa.Value) string {
	s := v.String()
	if len(s) > 80 {
		s = s[:80] + "..."
	}
	return s
}

func calleeName(c *ssa.Call) string {
	if b, ok := c.Call.Value.(*ssa.Builtin); ok {
		return "builtin." + b.Name()
	}
	h := c.Call.StaticCallee()
	if h == nil || h.Pkg == nil && h.Origin() == nil {
		return ""
	}
	if o := h.Origin(); o != nil {
		h = o
	}
	if h.Pkg == nil {
		return ""
	}
	return h.Pkg.Pkg.Path() + "." + h.Name()
}

func isZero(v ssa.Value) bool {
	c, ok := v.(*ssa.Const)
	return ok && c.Value != nil && c.Value.String() == "0"
}

// sliceLitOf recognises the varargs literal the compiler builds for append(s, a, b).
func sliceLitOf(v ssa.Value) (*ssa.Alloc, bool) {
	s, ok := v.(*ssa.Slice)
	if !ok {
		return nil, false
	}
	a, ok := s.X.(*ssa.Alloc)
	return a, ok && a.Comment == "varargs"
}

func (cc *completeCtx) isValuesMap(v ssa.Value) bool {
	u, ok := stripConvV(v).(*ssa.UnOp)
	if !ok {
		return false
	}
	fa, ok := u.X.(*ssa.FieldAddr)
	if !ok || !cc.isContainer(fa.X.Type()) {
		return false
	}
	fld := fa.X.Type().Underlying().(*types.Pointer).Elem().Underlying().(*types.Struct).Field(fa.Field)
	return paths.FieldName(fld) == "Values"
}

// isEmpty: nil, or make([]T, 0, ...).
func (cc *completeCtx) isEmpty(v ssa.Value) bool {
	switch t := stripConvV(v).(type) {
	case *ssa.Const:
		return t.IsNil()
	case *ssa.MakeSlice:
		return isZero(t.Len)
	case *ssa.Slice:
		// s[:0] of a fresh make
		if t.High != nil && isZero(t.High) {
			_, ok := t.X.(*ssa.MakeSlice)
			return ok
		}
	}
	return false
}

// appendOfElem: v = append(prev, elem) in a full range loop over a covering list whose body always reaches it.
func (cc *completeCtx) appendOfElem(v ssa.Value, prev func(ssa.Value) bool, fn *ssa.Function) (bool, string) {
	c, ok := stripConvV(v).(*ssa.Call)
	if !ok || calleeName(c) != "builtin.append" || len(c.Call.Args) != 2 || !prev(c.Call.Args[0]) {
		return false, "not an append to the list being built"
	}
	al, lit := sliceLitOf(c.Call.Args[1])
	if !lit {
		return false, "not an append of single elements"
	}
	// the elements stored into the varargs array
	var elems []ssa.Value
	for _, r := range *al.Referrers() {
		if ia, ok := r.(*ssa.IndexAddr); ok {
			for _, rr := range *ia.Referrers() {
				if st, ok := rr.(*ssa.Store); ok && st.Addr == ssa.Value(ia) {
					elems = append(elems, st.Val)
				}
			}
		}
	}
	if len(elems) != 1 {
		return false, "not an append of exactly one element per iteration"
	}
	l := paths.Info(fn).InnermostLoop(c.Block())
	if l == nil || l.IV == nil || l.Start != 0 || l.Bound == nil {
		return false, "the append is not in a full range loop"
	}
	list := lenArg(l.Bound)
	if list == nil || !elementOf(elems[0], list) {
		return false, "the appended value is not the element of the list the loop ranges over"
	}
	if why := fullBody(l, c.Block()); why != "" {
		return false, why
	}
	return cc.covers(list, fn)
}

// coversPhi: a local list built by `for _, k := range src { list = append(list, k) }`.
func (cc *completeCtx) coversPhi(p *ssa.Phi, fn *ssa.Function) (bool, string) {
	l := paths.Info(fn).LoopOf(p.Block())
	if l == nil {
		// merge after the loop: every edge must cover
		for _, e := range p.Edges {
			if ok, why := cc.covers(e, fn); !ok {
				return false, why
			}
		}
		return true, ""
	}
	// a header phi: the value after the loop is the phi itself; entry edge empty, back edges append
	for i, e := range p.Edges {
		pred := p.Block().Preds[i]
		if l.Body[pred] {
			if ok, why := cc.appendOfElem(e, func(v ssa.Value) bool { return stripConvV(v) == ssa.Value(p) }, fn); !ok {
				return false, fmt.Sprintf("%s: the list is carried around the loop by something other than an unconditional append of the element (%s)", cc.x.P.Pos(p.Pos()), why)
			}
		} else if !cc.isEmpty(e) {
			return false, fmt.Sprintf("%s: the list built in the loop does not start empty", cc.x.P.Pos(p.Pos()))
		}
	}
	return true, ""
}

// coversCell: a variable (captured or address-taken) holding the list.
func (cc *completeCtx) coversCell(al *ssa.Alloc, fn *ssa.Function) (bool, string) {
	var stores []*ssa.Store
	for _, r := range *al.Referrers() {
		switch t := r.(type) {
		case *ssa.Store:
			if t.Addr == ssa.Value(al) {
				stores = append(stores, t)
			}
		case *ssa.MakeClosure:
			for i, bnd := range t.Bindings {
				if bnd != ssa.Value(al) {
					continue
				}
				cf := t.Fn.(*ssa.Function)
				if i < len(cf.FreeVars) && storesThrough(cf, cf.FreeVars[i]) {
					return false, fmt.Sprintf("%s: the list is assigned inside a function literal", cc.x.P.Pos(t.Pos()))
				}
			}
		}
	}
	if len(stores) == 0 {
		return false, fmt.Sprintf("%s: the list variable is never assigned", cc.x.P.Pos(al.Pos()))
	}
	isLoad := func(v ssa.Value) bool {
		u, ok := stripConvV(v).(*ssa.UnOp)
		return ok && u.X == ssa.Value(al)
	}
	direct, empty, loop := 0, 0, 0
	why := ""
	for _, st := range stores {
		val := stripConvV(st.Val)
		if mk, ok := val.(*ssa.MakeSlice); ok && !isZero(mk.Len) {
			if ok, w := cc.filledByCopy(mk, al, fn); ok {
				direct++
			} else {
				return false, w
			}
			continue
		}
		if cc.isEmpty(val) {
			empty++
			continue
		}
		if ok, _ := cc.appendOfElem(val, isLoad, fn); ok {
			loop++
			continue
		}
		if ok, w := cc.covers(val, fn); ok {
			direct++
		} else {
			why = w
			return false, why
		}
	}
	switch {
	case direct > 0 && loop == 0 && empty == 0, direct == 0 && loop == 1 && empty >= 1:
		return true, ""
	}
	return false, fmt.Sprintf("%s: the list variable is assigned in %d places (copies %d, empty %d, loop appends %d): not one recognised way of holding every key", cc.x.P.Pos(al.Pos()), len(stores), direct, empty, loop)
}

func storesThrough(f *ssa.Function, fv *ssa.FreeVar) bool {
	for _, r := range *fv.Referrers() {
		if st, ok := r.(*ssa.Store); ok && st.Addr == ssa.Value(fv) {
			return true
		}
	}
	return false
}

// filledByCopy: mk = make([]T, len(src)); copy(mk, src) with src covering.
func (cc *completeCtx) filledByCopy(mk *ssa.MakeSlice, al *ssa.Alloc, fn *ssa.Function) (bool, string) {
	src := lenArg(mk.Len)
	pos := cc.x.P.Pos(mk.Pos())
	if src == nil {
		return false, fmt.Sprintf("%s: the list is made with a length that is not the length of the key list", pos)
	}
	if ok, why := cc.covers(src, fn); !ok {
		return false, why
	}
	for _, b := range fn.Blocks {
		for _, in := range b.Instrs {
			c, ok := in.(*ssa.Call)
			if !ok || calleeName(c) != "builtin.copy" || len(c.Call.Args) != 2 {
				continue
			}
			dst := stripConvV(c.Call.Args[0])
			isDst := dst == ssa.Value(mk)
			if u, ok := dst.(*ssa.UnOp); ok && al != nil && u.X == ssa.Value(al) {
				isDst = true
			}
			if !isDst {
				continue
			}
			if sameCell(c.Call.Args[1], src) {
				return true, ""
			}
			if ok, _ := cc.covers(c.Call.Args[1], fn); ok {
				return true, ""
			}
		}
	}
	return false, fmt.Sprintf("%s: the list is made with the length of the key list but no copy(list, keys) fills it", pos)
}
