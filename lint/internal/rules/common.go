// Package rules holds the per-property rule instances and their frozen tables.
package rules

import (
	"fmt"
	"go/constant"
	"go/token"
	"go/types"
	"path/filepath"
	"regexp"
	"sort"
	"strings"

	"golang.org/x/tools/go/ssa"

	"verif/lint/internal/load"
	"verif/lint/internal/paths"
	"verif/lint/internal/report"
)

// Ctx is what a property check receives.
type Ctx struct {
	P    *load.Program
	E    *paths.Engine
	C    *report.Check
	Tier string
	// VerifDir is the verification directory (canary packages, known findings).
	VerifDir string
	// Only, when non-empty, restricts reporting to this obligation key (replay).
	Only string
}

// Property describes one registered property check.
type Property struct {
	Meta report.Meta
	Run  func(*Ctx)
}

// Registry maps property ids to their checks.
var Registry = map[string]*Property{}

func register(p *Property) { Registry[p.Meta.Property] = p }

// IDs returns the registered property ids, sorted.
func IDs() []string {
	var out []string
	for k := range Registry {
		out = append(out, k)
	}
	sort.Strings(out)
	return out
}

const (
	invTok = "(*token/invocation.Token)."
	dlgTok = "(*token/delegation.Token)."
)

// fn resolves an in-module function by short name; reports an unresolved anchor when absent.
func (x *Ctx) fn(rule, short string) *ssa.Function {
	f := x.P.Func(short)
	if f == nil || len(f.Blocks) == 0 {
		x.C.Unresolved(rule, "anchor:"+short, "-", "function "+short+" not found in the type-checked program (renamed or removed?)")
		return nil
	}
	return f
}

func (x *Ctx) pos(f *ssa.Function) string { return x.P.FuncPos(f) }

func (x *Ctx) posOf(v ssa.Value, f *ssa.Function) string {
	if v != nil && v.Pos().IsValid() {
		return x.P.Pos(v.Pos())
	}
	return x.P.FuncPos(f)
}

// termPos gives the source position of a term's representative value.
func (x *Ctx) termPos(t *paths.Term, f *ssa.Function) string {
	if t != nil && t.Val != nil && t.Val.Pos().IsValid() {
		return x.P.Pos(t.Val.Pos())
	}
	if t != nil {
		for _, a := range t.Args {
			if a != nil && a.Val != nil && a.Val.Pos().IsValid() {
				return x.P.Pos(a.Val.Pos())
			}
		}
	}
	return x.P.FuncPos(f)
}

// paths returns the enumerated paths or reports an unresolved anchor.
func (x *Ctx) paths(rule string, f *ssa.Function) []*paths.Path {
	ps, err := x.E.Paths(f)
	if err != nil {
		x.C.Unresolved(rule, "paths:"+load.ShortName(f), x.pos(f), err.Error())
		return nil
	}
	return ps
}

func renderPaths(vs []paths.VPath, max int) string {
	var sb strings.Builder
	for i, v := range vs {
		if i >= max {
			fmt.Fprintf(&sb, "... and %d more path(s)\n", len(vs)-max)
			break
		}
		fmt.Fprintf(&sb, "path through %s:\n", paths.FuncName(v.Fn))
		for _, f := range v.AllFacts() {
			sb.WriteString("  " + f.String() + "\n")
		}
		switch v.End {
		case paths.EndReturn:
			var rs []string
			for _, r := range v.Results() {
				rs = append(rs, r.String())
			}
			sb.WriteString("  => return " + strings.Join(rs, ", ") + "\n")
		case paths.EndLatch:
			sb.WriteString("  => next iteration\n")
		default:
			sb.WriteString("  => " + v.End.String() + "\n")
		}
	}
	return sb.String()
}

// survivors returns the paths of f that are consistent with A and end in success (when
// success is true) or in a latch of loop l (when l != nil); if l != nil only paths that enter
// the loop body are considered for the success part.
func (x *Ctx) survivors(rule string, f *ssa.Function, l *paths.Loop, A paths.Assign, depth int) ([]paths.VPath, bool) {
	sel, unknown, err := x.E.Select(f, paths.WantSuccess)
	if err != nil {
		x.C.Unresolved(rule, "paths:"+load.ShortName(f), x.pos(f), err.Error())
		return nil, false
	}
	if len(unknown) > 0 {
		x.C.Unresolved(rule, "outcome:"+load.ShortName(f), x.pos(f), fmt.Sprintf("%d returning path(s) whose error outcome cannot be classified, e.g.\n%s", len(unknown), unknown[0]))
		return nil, false
	}
	var out []paths.VPath
	for _, v := range sel {
		if l != nil && !v.EntersBody(l) {
			continue
		}
		if x.E.Consistent(v, A, nil, depth) {
			out = append(out, v)
		}
	}
	if l != nil {
		lp, err := x.E.LatchPaths(f, l, A, depth)
		if err != nil {
			x.C.Unresolved(rule, "paths:"+load.ShortName(f), x.pos(f), err.Error())
			return nil, false
		}
		out = append(out, lp...)
	}
	return out, true
}

// mustBlock records the obligation "no success (or latch of l) path of f is consistent with A".
func (x *Ctx) mustBlock(rule, key string, f *ssa.Function, l *paths.Loop, A paths.Assign, depth int, desc string) bool {
	sv, ok := x.survivors(rule, f, l, A, depth)
	if !ok {
		return false
	}
	return x.C.Obl(rule, key, x.pos(f), desc, len(sv) == 0, "the following path(s) reach success / the next iteration although the required condition is false or never tested:\n"+renderPaths(sv, 3))
}

// loopAt is a loop on the paths of a function: one of its own, or a loop of a helper spliced into
// them (Sub maps the helper's parameters to the caller's terms).
type loopAt struct {
	L   *paths.Loop
	Sub map[string]*paths.Term
}

// loopsIn lists the loops that appear on f's enumerated paths.
func loopsIn(f *ssa.Function) []loopAt {
	var out []loopAt
	var walk func(g *ssa.Function, sub map[string]*paths.Term, depth int, active map[*ssa.Function]bool)
	walk = func(g *ssa.Function, sub map[string]*paths.Term, depth int, active map[*ssa.Function]bool) {
		for _, l := range paths.Info(g).Loops {
			out = append(out, loopAt{l, sub})
		}
		if depth >= paths.MaxInlineDepth || paths.Inlineable == nil {
			return
		}
		for _, b := range g.Blocks {
			for _, in := range b.Instrs {
				c, ok := in.(*ssa.Call)
				if !ok {
					continue
				}
				h := paths.InlineTarget(c)
				if h == nil || active[h] {
					continue
				}
				ct := paths.DetachedTerm(g, c)
				if sub != nil {
					ct = ct.Subst(sub)
				}
				if ct.Op != "call" {
					continue
				}
				active[h] = true
				walk(h, paths.BindArgs(h, ct), depth+1, active)
				delete(active, h)
			}
		}
	}
	walk(f, nil, 0, map[*ssa.Function]bool{f: true})
	return out
}

// fullRangeLoops returns the recognised counted loops on f's paths (its own and those of helpers
// spliced into them) that start at 0 and whose bound rendering, in f's terms, is one of bounds.
func fullRangeLoops(f *ssa.Function, bounds ...string) []*paths.Loop {
	var out []*paths.Loop
	for _, la := range fullRangeLoopsAt(f, bounds...) {
		out = append(out, la.L)
	}
	return out
}

func fullRangeLoopsAt(f *ssa.Function, bounds ...string) []loopAt {
	var out []loopAt
	for _, la := range loopsIn(f) {
		l := la.L
		if l.IV == nil || l.Start != 0 {
			continue
		}
		bt := paths.DetachedTerm(l.Fn, l.Bound)
		if la.Sub != nil {
			bt = bt.Subst(la.Sub)
		}
		b := bt.String()
		for _, want := range bounds {
			if b == want {
				out = append(out, la)
				break
			}
		}
	}
	return out
}

// ivName is the name of the loop's induction variable on enumerated paths (loops of spliced helpers
// carry the helper's name).
func ivName(l *paths.Loop) string {
	if paths.Inlineable != nil && paths.Inlineable(l.Fn) {
		return fmt.Sprintf("iv#%s:%d", paths.FuncName(l.Fn), l.Index)
	}
	return fmt.Sprintf("iv#%d", l.Index)
}

// stripDIDString removes a did.DID.String() wrapper so that comparisons of the textual form
// are recognised as comparisons of the DID (the text is an injective rendering of the bytes).
func stripDIDString(t *paths.Term) *paths.Term {
	if t != nil && t.Op == "call" && t.Name == "(did.DID).String" && len(t.Args) == 1 {
		return t.Args[0]
	}
	return t
}

// eqOperands returns the two operand renderings of an eq atom (DID String wrappers stripped).
func eqOperands(t *paths.Term) (a, b *paths.Term, ok bool) {
	if t.Op != "eq" || len(t.Args) != 2 {
		return nil, nil, false
	}
	return stripDIDString(t.Args[0]), stripDIDString(t.Args[1]), true
}

// eqBetween builds an assignment that gives val to every eq atom whose operands satisfy
// (pa, pb) in either order.
func eqBetween(pa, pb func(*paths.Term) bool, val bool) paths.Assign {
	return func(t *paths.Term) (bool, bool) {
		a, b, ok := eqOperands(t)
		if !ok {
			return false, false
		}
		if (pa(a) && pb(b)) || (pa(b) && pb(a)) {
			return val, true
		}
		return false, false
	}
}

func is(s ...string) func(*paths.Term) bool {
	return func(t *paths.Term) bool {
		if t == nil {
			return false
		}
		for _, w := range s {
			if t.String() == w {
				return true
			}
		}
		return false
	}
}

// loopCarried matches a value carried around a loop: a loop phi whose entry value satisfies init and whose
// back-edge value satisfies back; or (when carriedScope names the function and loop being examined) a local
// variable kept in memory - a struct of loop state, a variable a function literal captures - or a field of one,
// whose value before the loop satisfies init and whose value at the end of every whole iteration satisfies back.
func loopCarried(init, back func(*paths.Term) bool) func(*paths.Term) bool {
	return func(t *paths.Term) bool {
		if t != nil && t.Op == "loopphi" && len(t.Args) == 2 && t.Args[0] != nil && t.Args[1] != nil && init(t.Args[0]) && back(t.Args[1]) {
			return true
		}
		if mc := memCarriedOf(t); mc != nil && mc.init != nil && len(mc.backs) > 0 && !mc.unchanged && init(mc.init) {
			for _, b := range mc.backs {
				if !back(b) {
					return false
				}
			}
			return true
		}
		return false
	}
}

// loopInvariant matches a term that is want itself, or a variable kept in memory (see loopCarried) that holds
// want before the loop and that no iteration changes.
func loopInvariant(want ...string) func(*paths.Term) bool {
	return func(t *paths.Term) bool {
		if is(want...)(t) {
			return true
		}
		mc := memCarriedOf(t)
		if mc == nil || mc.init == nil || !is(want...)(mc.init) {
			return false
		}
		for _, b := range mc.backs {
			if b.String() != t.String() && !is(want...)(b) {
				return false
			}
		}
		return true
	}
}

// carriedScope is the function and loop whose memory-carried variables loopCarried / loopInvariant may resolve.
var carriedScope struct {
	x     *Ctx
	f     *ssa.Function
	l     *paths.Loop
	cache map[string]*memCarried
}

func setCarriedScope(x *Ctx, f *ssa.Function, l *paths.Loop) {
	carriedScope.x, carriedScope.f, carriedScope.l = x, f, l
	carriedScope.cache = map[string]*memCarried{}
}

type memCarried struct {
	init      *paths.Term   // value before the loop (nil: not the same on all paths / unknown)
	backs     []*paths.Term // distinct values at the end of a whole iteration
	unchanged bool          // some iteration leaves it as it was
}

// memCarriedOf resolves t = *a or (*a).f1.f2 with a a local variable of the function in scope.
func memCarriedOf(t *paths.Term) *memCarried {
	cs := &carriedScope
	if t == nil || cs.f == nil || cs.l == nil {
		return nil
	}
	if mc, ok := cs.cache[t.String()]; ok {
		return mc
	}
	var names []string
	base := t
	for base.Op == "field" && len(base.Args) == 1 {
		names = append([]string{base.Name}, names...)
		base = base.Args[0]
	}
	if base.Op != "load" || len(base.Args) != 1 || base.Args[0].Op != "alloc" {
		return nil
	}
	a, _ := base.Args[0].Val.(*ssa.Alloc)
	if a == nil || a.Parent() != cs.f {
		return nil
	}
	cs.cache[t.String()] = nil
	pick := func(whole *paths.Term, fields map[string]*paths.Term) *paths.Term {
		rest := names
		var v *paths.Term
		if len(rest) > 0 && fields[rest[0]] != nil {
			v, rest = fields[rest[0]], rest[1:]
		} else if whole != nil {
			v = whole
		} else {
			return nil
		}
		for _, n := range rest {
			if v.Op == "struct" {
				found := false
				for i, fn := range v.Names {
					if fn == n && i < len(v.Args) {
						v, found = v.Args[i], true
						break
					}
				}
				if found {
					continue
				}
			}
			v = paths.Raw(v.String() + "." + n)
		}
		return v
	}
	mc := &memCarried{}
	initSeen := map[string]bool{}
	backSeen := map[string]bool{}
	nLatch := 0
	for _, p := range cs.x.pathsQuiet(cs.f) {
		if p.End != paths.EndLatch || p.Latch != cs.l.Header {
			continue
		}
		nLatch++
		var wholeB, wholeL *paths.Term
		fieldsB, fieldsL := map[string]*paths.Term{}, map[string]*paths.Term{}
		inLoop := false
		p.InstrsIn(func(in ssa.Instruction, c *paths.Ctx) {
			if in.Parent() == cs.f {
				inLoop = cs.l.Body[in.Block()]
			}
			st, ok := in.(*ssa.Store)
			if !ok {
				return
			}
			at := c.Term(st.Addr)
			if at == nil {
				return
			}
			switch {
			case at.Op == "alloc" && at.Val == ssa.Value(a):
				if inLoop {
					wholeL, fieldsL = c.Term(st.Val), map[string]*paths.Term{}
				} else {
					wholeB, fieldsB = c.Term(st.Val), map[string]*paths.Term{}
				}
			case at.Op == "fieldaddr" && len(at.Args) == 1 && at.Args[0].Op == "alloc" && at.Args[0].Val == ssa.Value(a):
				if inLoop {
					fieldsL[at.Name] = c.Term(st.Val)
				} else {
					fieldsB[at.Name] = c.Term(st.Val)
				}
			}
		})
		if iv := pick(wholeB, fieldsB); iv != nil {
			initSeen[iv.String()] = true
			mc.init = iv
		} else {
			initSeen["?"] = true
		}
		if bv := pick(wholeL, fieldsL); bv != nil {
			if bv.String() == t.String() {
				mc.unchanged = true
			} else if !backSeen[bv.String()] {
				backSeen[bv.String()] = true
				mc.backs = append(mc.backs, bv)
			}
		} else {
			mc.unchanged = true
		}
	}
	if nLatch == 0 || len(initSeen) != 1 || initSeen["?"] {
		mc.init = nil
	}
	cs.cache[t.String()] = mc
	return mc
}

// constOf looks up an integer / string constant of a package by name.
func (x *Ctx) constOf(rule, pkgRel, name string) (constant.Value, bool) {
	sp := x.P.SSA[load.Module+"/"+pkgRel]
	if sp == nil {
		x.C.Unresolved(rule, "const:"+pkgRel+"."+name, "-", "package not loaded")
		return nil, false
	}
	obj := sp.Pkg.Scope().Lookup(name)
	c, ok := obj.(*types.Const)
	if !ok {
		x.C.Unresolved(rule, "const:"+pkgRel+"."+name, "-", "constant "+name+" not found in "+pkgRel)
		return nil, false
	}
	return c.Val(), true
}

// structFields returns the field names of a named struct type in a package.
func (x *Ctx) structFields(rule, pkgRel, name string) []string {
	sp := x.P.SSA[load.Module+"/"+pkgRel]
	if sp == nil {
		x.C.Unresolved(rule, "type:"+pkgRel+"."+name, "-", "package not loaded")
		return nil
	}
	obj := sp.Pkg.Scope().Lookup(name)
	tn, ok := obj.(*types.TypeName)
	if !ok {
		x.C.Unresolved(rule, "type:"+pkgRel+"."+name, "-", "type not found")
		return nil
	}
	st, ok := tn.Type().Underlying().(*types.Struct)
	if !ok {
		x.C.Unresolved(rule, "type:"+pkgRel+"."+name, "-", "not a struct")
		return nil
	}
	var out []string
	for i := 0; i < st.NumFields(); i++ {
		out = append(out, paths.FieldName(st.Field(i)))
	}
	return out
}

// fieldReads lists reads/writes (FieldAddr / Field) of the named fields of struct type
// pkgRel.typeName inside the given functions.
type fieldUse struct {
	Fn    *ssa.Function
	Field string
	Pos   string
}

func (x *Ctx) fieldUses(funcs map[*ssa.Function]bool, pkgRel, typeName string, fields map[string]bool) []fieldUse {
	var out []fieldUse
	want := load.Module + "/" + pkgRel + "." + typeName
	for f := range funcs {
		for _, b := range f.Blocks {
			for _, in := range b.Instrs {
				var st *types.Struct
				var named types.Type
				var idx int
				switch v := in.(type) {
				case *ssa.FieldAddr:
					named = v.X.Type().Underlying().(*types.Pointer).Elem()
					idx = v.Field
				case *ssa.Field:
					named = v.X.Type()
					idx = v.Field
				default:
					continue
				}
				if named.String() != want {
					continue
				}
				st = named.Underlying().(*types.Struct)
				name := paths.FieldName(st.Field(idx))
				if fields[name] {
					out = append(out, fieldUse{Fn: f, Field: name, Pos: x.P.Pos(in.Pos())})
				}
			}
		}
	}
	sort.Slice(out, func(i, j int) bool { return out[i].Pos < out[j].Pos })
	return out
}

// lowerFirst lower-cases the first letter.
func lowerFirst(s string) string {
	if s == "" {
		return s
	}
	return strings.ToLower(s[:1]) + s[1:]
}

// accessor checks that method recvType.Name returns exactly the load of field `field`
// (or wrap(field) when wrap != "").
func (x *Ctx) accessor(rule, recv, method, field, wrap string) {
	f := x.fn(rule, recv+method)
	if f == nil {
		return
	}
	ps := x.paths(rule, f)
	if ps == nil {
		return
	}
	want := "recv." + field
	if wrap != "" {
		want = "call[" + wrap + "](recv." + field + ")"
	}
	ok := len(ps) == 1 && ps[0].End == paths.EndReturn && len(ps[0].Results()) == 1 && ps[0].Results()[0].String() == want
	got := ""
	if len(ps) > 0 && ps[0].End == paths.EndReturn && len(ps[0].Results()) > 0 {
		got = ps[0].Results()[0].String()
	}
	x.C.Obl(rule, "accessor:"+recv+method, x.pos(f), "getter returns exactly "+want, ok, fmt.Sprintf("%d path(s); returns %s", len(ps), got))
}

// constantInt converts a constant to int64.
func constantInt(v constant.Value) (int64, bool) {
	return constant.Int64Val(constant.ToInt(v))
}

// fieldTypeString returns the type of a struct field (module prefix stripped).
func fieldTypeString(x *Ctx, pkgRel, typ, field string) string {
	sp := x.P.SSA[load.Module+"/"+pkgRel]
	if sp == nil {
		return ""
	}
	tn, ok := sp.Pkg.Scope().Lookup(typ).(*types.TypeName)
	if !ok {
		return ""
	}
	st, ok := tn.Type().Underlying().(*types.Struct)
	if !ok {
		return ""
	}
	for i := 0; i < st.NumFields(); i++ {
		if paths.FieldName(st.Field(i)) == field {
			return paths.Short(st.Field(i).Type().String())
		}
	}
	return ""
}

// atoms builds an assignment from atom renderings.
func atoms(m map[string]bool) paths.Assign {
	return func(t *paths.Term) (bool, bool) {
		v, ok := m[t.String()]
		return v, ok
	}
}

// noPath records the obligation "no path of f with the wanted outcome is consistent with A".
func (x *Ctx) noPath(rule, key string, f *ssa.Function, want paths.Want, A paths.Assign, depth int, desc string) bool {
	vs, err := x.E.ConsistentPaths(f, want, A, depth)
	if err != nil {
		x.C.Unresolved(rule, key, x.pos(f), err.Error())
		return false
	}
	return x.C.Obl(rule, key, x.pos(f), desc, len(vs) == 0, "path(s) that contradict the requirement:\n"+renderPaths(vs, 3))
}

// somePath records the obligation "at least one path of f with the wanted outcome is consistent with A".
func (x *Ctx) somePath(rule, key string, f *ssa.Function, want paths.Want, A paths.Assign, depth int, desc string) []paths.VPath {
	vs, err := x.E.ConsistentPaths(f, want, A, depth)
	if err != nil {
		x.C.Unresolved(rule, key, x.pos(f), err.Error())
		return nil
	}
	x.C.Obl(rule, key, x.pos(f), desc, len(vs) > 0, "no such path exists")
	return vs
}

// eqs renders the canonical eq atom of two operand renderings.
func eqs(a, b string) string {
	if a > b {
		a, b = b, a
	}
	return "eq(" + a + "," + b + ")"
}

// call renders a call of the named function with the given argument renderings as callers' paths
// show it (trivial wrappers are seen through, see paths.TrivialWrapper).
func (x *Ctx) call(short string, args ...string) string {
	return paths.CallString(x.P.Func(short), short, args...)
}

// sitePaths gives the enumerated paths on which the instructions of f appear: f's own paths, or, for
// a helper that did not exist on the confirmed tree, the paths of the confirmed functions it is
// spliced into (so a guard established by the caller before the helper call is on the path).
func (x *Ctx) sitePaths(f *ssa.Function) []*paths.Path {
	var out []*paths.Path
	for _, o := range x.P.PathOwners(f) {
		out = append(out, x.pathsQuiet(o)...)
	}
	return out
}

// closureEnv resolves a function-valued term on path p (function literal, function, method value) to the
// function that runs when it is called and to what its captured variables hold, as renderings in p's
// vocabulary keyed by how the function's own terms spell them: "*fvK" for a captured variable (the value
// last stored into its cell on p), "fvK" for a captured value, "recv" for the receiver of a method value.
func (x *Ctx) closureEnv(p *paths.Path, t *paths.Term) (*ssa.Function, map[string]string) {
	f, b := paths.FuncOfTerm(t)
	if f == nil {
		return nil, nil
	}
	out := map[string]string{}
	for k, bt := range b {
		if cell, ok := bt.Val.(*ssa.Alloc); ok && bt.Op == "alloc" {
			var val *paths.Term
			p.InstrsIn(func(in ssa.Instruction, c *paths.Ctx) {
				if st, ok := in.(*ssa.Store); ok && st.Addr == ssa.Value(cell) {
					val = c.Term(st.Val)
				}
			})
			if val != nil {
				out["*"+k] = val.String()
				continue
			}
		}
		out[k] = bt.String()
		// a struct value (the receiver of a method value built from a literal): its fields are known
		if bt.Op == "struct" {
			for i, n := range bt.Names {
				if i < len(bt.Args) && bt.Args[i] != nil {
					out[k+"."+n] = bt.Args[i].String()
				}
			}
		}
	}
	return f, out
}

// ---------------------------------------------------------------------------------------------
// pool discipline (typestate: an object handed back to a sync.Pool must not stay reachable from what the
// function returns - the next Get hands it to somebody else while the first user still works with it)

type poolFinding struct {
	Fn   *ssa.Function
	Pos  token.Pos
	What string
}

// aliasChain lists v and the values it was directly derived from (interface boxing, assertions, tuple
// extraction, loads of local cells): enough to connect `x := pool.Get().(*T)`, a cell holding x and `Put(x)`.
func aliasChain(v ssa.Value) []ssa.Value {
	seen := map[ssa.Value]bool{}
	var out []ssa.Value
	var walk func(v ssa.Value, depth int)
	walk = func(v ssa.Value, depth int) {
		if v == nil || seen[v] || depth > 12 {
			return
		}
		seen[v] = true
		out = append(out, v)
		switch y := v.(type) {
		case *ssa.MakeInterface:
			walk(y.X, depth+1)
		case *ssa.ChangeType:
			walk(y.X, depth+1)
		case *ssa.ChangeInterface:
			walk(y.X, depth+1)
		case *ssa.TypeAssert:
			walk(y.X, depth+1)
		case *ssa.Extract:
			walk(y.Tuple, depth+1)
		case *ssa.UnOp:
			if a, ok := y.X.(*ssa.Alloc); ok && y.Op == token.MUL && !seen[a] {
				seen[a] = true
				out = append(out, a)
				// the values stored into the cell
				for _, r := range *a.Referrers() {
					if st, ok := r.(*ssa.Store); ok && st.Addr == ssa.Value(a) {
						walk(st.Val, depth+1)
					}
				}
			}
		}
	}
	walk(v, 0)
	return out
}

func sharesAlias(a, b []ssa.Value) bool {
	for _, x := range a {
		if _, isConst := x.(*ssa.Const); isConst {
			continue
		}
		for _, y := range b {
			if x == y {
				return true
			}
		}
	}
	return false
}

// poolEscapes reports, in the given functions, objects that are put back into a sync.Pool (directly or by a
// deferred call) although the function returns them, or returns / stores a function literal that captured them.
func poolEscapes(fs []*ssa.Function) []poolFinding {
	var out []poolFinding
	for _, f := range fs {
		var puts [][]ssa.Value
		var putPos []token.Pos
		for _, b := range f.Blocks {
			for _, in := range b.Instrs {
				ci, ok := in.(ssa.CallInstruction)
				if !ok {
					continue
				}
				g := ci.Common().StaticCallee()
				if g == nil || g.String() != "(*sync.Pool).Put" || len(ci.Common().Args) != 2 {
					continue
				}
				puts = append(puts, aliasChain(ci.Common().Args[1]))
				putPos = append(putPos, in.Pos())
			}
		}
		if len(puts) == 0 {
			continue
		}
		var escapes func(v ssa.Value) bool
		escapes = func(v ssa.Value) bool { // does the value leave the function?
			var refs []ssa.Instruction
			if r := v.Referrers(); r != nil {
				refs = *r
			}
			for _, r := range refs {
				switch y := r.(type) {
				case *ssa.Return:
					return true
				case *ssa.Store:
					if y.Val == v {
						a, local := y.Addr.(*ssa.Alloc)
						if !local {
							return true
						}
						// result spilled into a local cell (functions with defers return through one)
						for _, ar := range *a.Referrers() {
							if ld, isLd := ar.(*ssa.UnOp); isLd {
								for _, lr := range *ld.Referrers() {
									if _, isRet := lr.(*ssa.Return); isRet {
										return true
									}
								}
							}
						}
					}
				case *ssa.MakeInterface, *ssa.ChangeType:
					if escapes(y.(ssa.Value)) {
						return true
					}
				}
			}
			return false
		}
		for i, chain := range puts {
			for _, b := range f.Blocks {
				for _, in := range b.Instrs {
					switch y := in.(type) {
					case *ssa.MakeClosure:
						captured := false
						for _, bnd := range y.Bindings {
							if sharesAlias(aliasChain(bnd), chain) {
								captured = true
							}
						}
						if captured && escapes(y) {
							out = append(out, poolFinding{f, putPos[i], "an object is given back to a sync.Pool while a function literal that captured it is returned or stored: the next Get hands the object to another user while the literal still works with it"})
						}
					case *ssa.Return:
						for _, r := range y.Results {
							rc := aliasChain(r)
							if sharesAlias(rc, chain) {
								out = append(out, poolFinding{f, putPos[i], "an object is given back to a sync.Pool and also returned to the caller"})
								continue
							}
							// a slice / pointer / map obtained from a method of the pooled object (buf.Bytes()) is a view into it
							for _, v := range rc {
								c, isCall := v.(*ssa.Call)
								if !isCall || len(c.Call.Args) == 0 || c.Call.IsInvoke() {
									continue
								}
								refLike := false
								switch r.Type().Underlying().(type) {
								case *types.Slice, *types.Pointer, *types.Map:
									refLike = true
								}
								if g := c.Call.StaticCallee(); refLike && g != nil && g.Signature.Recv() != nil && sharesAlias(aliasChain(c.Call.Args[0]), chain) {
									out = append(out, poolFinding{f, putPos[i], "a " + r.Type().String() + " obtained from " + g.String() + " of an object that is given back to a sync.Pool is returned: it is a view into memory the next user of the object overwrites"})
								}
							}
						}
					}
				}
			}
		}
	}
	return out
}

var canaryProg *load.Program

// poolDiscipline records the pool-release obligations for the library packages given (relative paths), plus
// the positive example that keeps the rule from passing vacuously.
func (x *Ctx) poolDiscipline(rule string, pkgs ...string) {
	in := map[string]bool{}
	for _, p := range pkgs {
		in[load.Module+"/"+p] = true
	}
	var fs []*ssa.Function
	for _, f := range x.P.ModuleFuncs() {
		if in[x.P.PkgPathOf(f)] && len(f.Blocks) > 0 {
			fs = append(fs, f)
		}
	}
	bad := ""
	for _, fd := range poolEscapes(fs) {
		bad += x.P.Pos(fd.Pos) + " in " + load.ShortName(fd.Fn) + ": " + fd.What + "\n"
	}
	x.C.Obl(rule, "pool-release:"+strings.Join(pkgs, ","), "-", fmt.Sprintf("in %d functions of %s no object is put back into a sync.Pool while it is still reachable from what the function returns", len(fs), strings.Join(pkgs, ", ")), bad == "" && len(fs) > 0, dedupLines(bad))
	if canaryProg == nil {
		cp, err := load.Load(load.Options{Dir: filepath.Join(x.VerifDir, "lint", "testdata", "canary"), Module: "canary"})
		if err != nil {
			x.C.Unresolved(rule, "pool-canary-load", "-", err.Error())
			return
		}
		canaryProg = cp
	}
	got := map[string]bool{}
	for _, fd := range poolEscapes(canaryProg.ModuleFuncs()) {
		n := load.ShortName(fd.Fn)
		got[n[strings.LastIndex(n, ".")+1:]] = true
	}
	x.C.Obl(rule, "pool-release:canary", "lint/testdata/canary/pool/pool.go", "the three seeded releases-while-referenced (captured by a returned iterator, returned itself, view of its bytes returned) are flagged; release after the last use and returning a copy are not", len(got) == 3 && got["LazyLines"] && got["Leak"] && got["View"], fmt.Sprint(got))
}

var inParam = regexp.MustCompile(`\bin(\d+)\b`)

// returnedFunc describes the function a constructor-like function returns on its single path: the function that
// runs, its paths, and a translation of its terms into one vocabulary - the outer function's parameters are
// arg0, arg1, ... and (as the rules were written) the returned function's own parameters are arg0, arg1, ... too.
// For a function literal the paths are enumerated in the context of its creator (captured variables hold their
// values, captured function values are called through); for a function or method value they are its own paths
// with the receiver / nothing substituted.
type returnedFunc struct {
	Fn    *ssa.Function
	Paths []*paths.Path
	Tr    func(*paths.Term) string
}

func (x *Ctx) returnedFunc(p *paths.Path, t *paths.Term) *returnedFunc {
	for t != nil && t.Op == "conv" && len(t.Args) == 1 {
		t = t.Args[0] // conversion of the literal to a named function type
	}
	inner, bind := x.closureEnv(p, t)
	if inner == nil || len(inner.Blocks) == 0 {
		return nil
	}
	if t.Op == "closure" && paths.BoundMethod(t) == nil {
		if ps, err := paths.EnumerateClosure(p, t); err == nil {
			return &returnedFunc{inner, ps, func(tt *paths.Term) string { return inParam.ReplaceAllString(tt.String(), "arg$1") }}
		}
	}
	ps := x.pathsQuiet(inner)
	if ps == nil {
		return nil
	}
	var keys []string
	for fv := range bind {
		keys = append(keys, fv)
	}
	sort.Slice(keys, func(i, j int) bool { return len(keys[i]) > len(keys[j]) }) // "recv.kind" before "recv"
	return &returnedFunc{inner, ps, func(tt *paths.Term) string {
		s := tt.String()
		for _, fv := range keys {
			s = strings.ReplaceAll(s, fv, bind[fv])
		}
		return s
	}}
}

// decodesWith tells whether a token-valued term is the result of the typed decoder of package pk applied to src:
// a call of pk's exported decoder named fn (FromIPLD, FromDagCbor, ...), or - when that decoder has become a thin
// layer over helpers and is seen through - a term that contains the envelope decoder of pk's payload model
// applied to src.
func decodesWith(t *paths.Term, pk, fn, src string) bool {
	found := false
	t.Walk(func(s *paths.Term) {
		if s.Op != "call" || len(s.Args) == 0 || s.Args[0] == nil || s.Args[0].String() != src {
			return
		}
		if s.Name == pk+"."+fn || s.Name == "token/internal/envelope."+fn+"[*"+pk+".tokenPayloadModel]" {
			found = true
		}
	})
	return found
}
