package rules

import (
	"fmt"
	"strings"

	"golang.org/x/tools/go/ssa"

	"verif/lint/internal/load"
	"verif/lint/internal/paths"
	"verif/lint/internal/report"
)

func init() {
	register(&Property{
		Meta: report.Meta{
			Property:    "C08",
			Explanation: "Structural rules on the CID computation: (R1) constants — CIDFromBytes builds cid.V1Builder{Codec: dag-cbor 0x71, MhType: sha2-256 0x12, MhLength default} and the streaming path uses crypto/sha256, multihash code 0x12 and CIDv1 codec 0x71, so buffered and streaming agree; (R2) same bytes — each FromSealed hashes exactly the parameter it decodes, each ToSealed hashes exactly the bytes it returns, the streaming variants hand the CIDReader / CIDWriter that wraps the caller's stream to the codec and take CID() from the same object after the codec succeeded; CIDReader.Read hashes exactly p[:n] with the inner n and returns the inner results, CIDWriter.Write hashes and forwards the same p; (R3) whole stream — decoders are given the package function dagcbor.Decode (which rejects trailing bytes), not an options value; (R4) canonicity — each FromSealed* must pass, on every success path, through an enforcement of canonical form (byte comparison with the re-encoding). No such enforcement exists today: recorded as known finding D5 per entry point. Signature malleability (ECDSA s <-> n-s, DER variants) is not decidable here. In packages token, delegation, invocation and envelope every []byte argument of ipld.Decode, of a module function named Decode / FromDagCbor / FromDagJson / FromSealed / CIDFromBytes originates (through phis and spilled cells) in a parameter of the calling function. (R2) in packages delegation and invocation the node terms (over the receiver and parameter names, new helpers seen through) handed to ipld.Encode by (*Token).Encode and to ipld.EncodeStreaming by (*Token).EncodeWriter are the same set, unless one calls the other.",
			Assumptions: []string{"go-cid / go-multihash compute what their constants say", "crypto/sha256"},
			Trusted:     []string{"go-cid", "go-multihash", "crypto/sha256", "go-ipld-prime dagcbor"},
			NotDecided:  []string{"canonicity inside the dagcbor codec", "signature malleability"},
		},
		Run: runC08,
	})
}

func runC08(x *Ctx) {
	x.C.Rule("C08.R1", "CID constants: CIDv1, dag-cbor, sha2-256, buffered = streaming", 4)
	x.C.Rule("C08.R2", "the bytes hashed are the bytes decoded / returned; CIDReader/CIDWriter transparency; decoders pass their input on unchanged; buffered and streaming encoders encode one node", 18)
	x.C.Rule("C08.R3", "decoders use the package function dagcbor.Decode", 1)
	x.C.Rule("C08.R4", "canonical form enforced before a CID is reported for received bytes", 6)

	// ---------------- R1
	if f := x.fn("C08.R1", envPkg+"CIDFromBytes"); f != nil {
		ps := x.pathsQuiet(f)
		ok := len(ps) == 1 && ps[0].End == paths.EndReturn
		detail := ""
		if ok {
			r := ps[0].Results()[0]
			ct, _ := paths.CallOf(r)
			if ct == nil || ct.Name != "(github.com/ipfs/go-cid.V1Builder).Sum" || ct.Args[1].String() != "arg0" {
				ok = false
				detail = "returns " + r.String()
			} else if cell := paths.CellOf(ct.Args[0]); cell != nil {
				fs := ps[0].FieldStores(cell)
				get := func(n string) string {
					if fs[n] == nil {
						return "const(0)"
					}
					return fs[n].String()
				}
				if get("Codec") != "const(113)" || get("MhType") != "const(18)" || !(get("MhLength") == "const(0)" || get("MhLength") == "const(-1)" || get("MhLength") == "const(32)") {
					ok = false
					detail = fmt.Sprintf("Codec=%s MhType=%s MhLength=%s", get("Codec"), get("MhType"), get("MhLength"))
				}
			} else {
				ok = false
				detail = "builder is " + ct.Args[0].String()
			}
		}
		x.C.Obl("C08.R1", "buffered-constants", x.pos(f), "CIDFromBytes = V1Builder{Codec: 0x71 (dag-cbor), MhType: 0x12 (sha2-256), MhLength: default}.Sum(b)", ok, detail)
	}
	if f := x.fn("C08.R1", envPkg+"cidFromHash"); f != nil {
		sel, _, _ := x.E.Select(f, paths.WantSuccess)
		ok := len(sel) == 1
		for _, v := range sel {
			want := "call[github.com/ipfs/go-cid.NewCidV1](const(113),conv[github.com/multiformats/go-multihash.Multihash](call[github.com/multiformats/go-multihash.Encode](invoke[hash.Hash.Sum](arg0,const(nil)),const(18))#0))"
			if v.Results()[0].String() != want {
				ok = false
			}
		}
		x.C.Obl("C08.R1", "streaming-constants", x.pos(f), "cidFromHash = NewCidV1(0x71, multihash.Encode(hash.Sum(nil), 0x12)) with the encoding error checked", ok, "")
	}
	for _, n := range []string{"NewCIDReader", "NewCIDWriter"} {
		f := x.fn("C08.R1", envPkg+n)
		if f == nil {
			continue
		}
		ps := x.pathsQuiet(f)
		ok := false
		if len(ps) == 1 {
			if cell := paths.CellOf(ps[0].Results()[0]); cell != nil {
				fs := ps[0].FieldStores(cell)
				inner := "r"
				if n == "NewCIDWriter" {
					inner = "w"
				}
				ok = fs["hash"] != nil && fs["hash"].String() == "call[crypto/sha256.New]()" && fs[inner] != nil && fs[inner].String() == "arg0"
			}
		}
		x.C.Obl("C08.R1", "sha256:"+n, x.pos(f), n+" wraps the caller's stream with a crypto/sha256 hash", ok, "")
	}

	// ---------------- R2
	for _, pk := range []string{"token", "token/delegation", "token/invocation"} {
		if f := x.fn("C08.R2", pk+".FromSealed"); f != nil {
			sel, _, _ := x.E.Select(f, paths.WantSuccess)
			ok := len(sel) > 0
			detail := ""
			for _, v := range sel {
				rs := v.Results()
				dec, _ := paths.CallOf(rs[0])
				cidc, _ := paths.CallOf(rs[1])
				if dec == nil || !(dec.String() == x.call(pk+".FromDagCbor", "arg0") || cborDecodeOf(rs[0], pk, "arg0", false)) ||
					cidc == nil || cidc.Name != envPkg+"CIDFromBytes" || cidc.Args[0].String() != "arg0" {
					ok = false
					detail += fmt.Sprintf("returns %s, %s\n", rs[0], rs[1])
					continue
				}
				if !v.HasFact(eqs(cidc.String()+"#1", "const(nil)"), true) {
					ok = false
					detail += "CID error unchecked\n"
				}
			}
			x.C.Obl("C08.R2", "same-bytes:"+pk+".FromSealed", x.pos(f), "the CID is computed over the very parameter that was decoded", ok, detail)
		}
		if f := x.fn("C08.R2", pk+".FromSealedReader"); f != nil {
			sel, _, _ := x.E.Select(f, paths.WantSuccess)
			ok := len(sel) > 0
			detail := ""
			cr := "call[" + envPkg + "NewCIDReader](arg0)"
			for _, v := range sel {
				rs := v.Results()
				dec, _ := paths.CallOf(rs[0])
				cidc, _ := paths.CallOf(rs[1])
				if dec == nil || !(dec.String() == x.call(pk+".FromDagCborReader", cr) || cborDecodeOf(rs[0], pk, cr, true)) ||
					cidc == nil || cidc.Name != "(*"+envPkg+"CIDReader).CID" || cidc.Args[0].String() != cr {
					ok = false
					detail += fmt.Sprintf("returns %s, %s\n", rs[0], rs[1])
					continue
				}
				if !v.HasFact(eqs(cidc.String()+"#1", "const(nil)"), true) || !v.HasFact(eqs(dec.String()+"#1", "const(nil)"), true) {
					ok = false
					detail += "decode or CID error unchecked\n"
				}
				// CID() is taken after decoding: the CID call is later on the path than the decode call
				if !callOrder(v, dec.Name, cidc.Name) {
					ok = false
					detail += "CID() is taken before the stream was decoded\n"
				}
			}
			x.C.Obl("C08.R2", "same-stream:"+pk+".FromSealedReader", x.pos(f), "the decoder reads through the CIDReader wrapping the caller's stream and CID() is taken from that reader after decoding succeeded", ok, detail)
		}
	}
	for _, pk := range []string{"token/delegation", "token/invocation"} {
		tok := "(*" + pk + ".Token)."
		if f := x.fn("C08.R2", tok+"ToSealed"); f != nil {
			sel, _, _ := x.E.Select(f, paths.WantSuccess)
			ok := len(sel) > 0
			for _, v := range sel {
				rs := v.Results()
				// the bytes: the token's DAG-CBOR encoding signed with the key given (ToDagCbor, or Encode with the
				// DAG-CBOR codec); the CID: CIDFromBytes of exactly those bytes
				data := rs[0].String()
				dct, _ := paths.CallOf(rs[0])
				okData := dct != nil && strings.HasSuffix(data, "#0") && (data == x.call(tok+"ToDagCbor", "recv", "arg0")+"#0" ||
					dct.Name == tok+"Encode" && len(dct.Args) == 3 && dct.Args[0].String() == "recv" && dct.Args[1].String() == "arg0" && strings.Contains(dct.Args[2].String(), "codec/dagcbor.Encode"))
				if !okData || rs[1].String() != "call["+envPkg+"CIDFromBytes]("+data+")#0" {
					ok = false
				}
			}
			x.C.Obl("C08.R2", "same-bytes:"+tok+"ToSealed", x.pos(f), "the CID is computed over the very bytes that are returned", ok, "")
		}
		if f := x.fn("C08.R2", tok+"ToSealedWriter"); f != nil {
			sel, _, _ := x.E.Select(f, paths.WantSuccess)
			ok := len(sel) > 0
			cw := "call[" + envPkg + "NewCIDWriter](arg0)"
			for _, v := range sel {
				rs := v.Results()
				if rs[0].String() != x.call("(*"+envPkg+"CIDWriter).CID", cw)+"#0" {
					ok = false
				}
				enc1 := eqs(x.call(tok+"ToDagCborWriter", "recv", cw, "arg1"), "const(nil)")
				enc2 := eqs("call["+tok+"EncodeWriter](recv,"+cw+",arg1,conv[github.com/ipld/go-ipld-prime/codec.Encoder](func(github.com/ipld/go-ipld-prime/codec/dagcbor.Encode)))", "const(nil)")
				if !v.HasFact(enc1, true) && !v.HasFact(enc2, true) {
					ok = false
				}
			}
			x.C.Obl("C08.R2", "same-stream:"+tok+"ToSealedWriter", x.pos(f), "the encoder writes through the CIDWriter wrapping the caller's stream; CID() is taken from it after encoding succeeded", ok, "")
		}
	}
	if f := x.fn("C08.R2", "(*"+envPkg+"CIDReader).Read"); f != nil {
		inner := "invoke[io.Reader.Read](recv.r,arg0)"
		ok, detail := true, ""
		nHash := 0
		for _, p := range x.pathsQuiet(f) {
			rs := p.Results()
			if rs[0].String() != inner+"#0" || rs[1].String() != inner+"#1" {
				ok = false
				detail += "returns " + rs[0].String() + "\n"
			}
			hashed := false
			for _, c := range p.Calls() {
				ct := p.Term(c)
				if ct.Op == "invoke" && ct.Name == "hash.Hash.Write" {
					hashed = true
					nHash++
					if ct.Args[0].String() != "recv.hash" || ct.Args[1].String() != "slice(arg0,_,"+inner+"#0,_)" {
						ok = false
						detail += "hashes " + ct.Args[1].String() + "\n"
					}
				}
			}
			// bytes are hashed whenever the read did not fail with a real error
			if pol, has := p.FactOn(eqs("const(nil)", inner+"#1")); has && pol && !hashed {
				ok = false
				detail += "a successful read is not hashed\n"
			}
			if p.HasFact(eqs("*global(io.EOF)", inner+"#1"), true) && !hashed {
				ok = false
				detail += "data returned together with io.EOF is not hashed\n"
			}
		}
		x.C.Obl("C08.R2", "transparent:CIDReader.Read", x.pos(f), "Read returns the inner reader's (n, err) and hashes exactly p[:n], also when data arrives with io.EOF", ok && nHash >= 2, detail)
	}
	if f := x.fn("C08.R2", "(*"+envPkg+"CIDWriter).Write"); f != nil {
		sel, _, _ := x.E.Select(f, paths.WantSuccess)
		_ = sel
		ok := false
		for _, p := range x.pathsQuiet(f) {
			rs := p.Results()
			if rs[0].String() == "invoke[io.Writer.Write](recv.w,arg0)#0" && rs[1].String() == "invoke[io.Writer.Write](recv.w,arg0)#1" &&
				p.HasFact(eqs("const(nil)", "invoke[hash.Hash.Write](recv.hash,arg0)#1"), true) {
				ok = true
			}
		}
		x.C.Obl("C08.R2", "transparent:CIDWriter.Write", x.pos(f), "Write hashes p and forwards the same p to the inner writer, returning its results", ok, "")
	}
	// who may touch the wrapped stream: a second way to the inner reader / writer (a WriteString, a ReadFrom, an
	// Unwrap) moves bytes that the hash never sees
	{
		funcs := map[*ssa.Function]bool{}
		for _, g := range x.P.ModuleFuncs() {
			if x.P.IsLibrary(g) {
				funcs[g] = true
			}
		}
		allowed := map[string]map[string]bool{
			"CIDReader.r": {envPkg + "NewCIDReader": true, "(*" + envPkg + "CIDReader).Read": true},
			"CIDWriter.w": {envPkg + "NewCIDWriter": true, "(*" + envPkg + "CIDWriter).Write": true},
		}
		bad, n := "", 0
		for _, tf := range []struct{ typ, fld string }{{"CIDReader", "r"}, {"CIDWriter", "w"}} {
			for _, u := range x.fieldUses(funcs, "token/internal/envelope", tf.typ, map[string]bool{tf.fld: true}) {
				n++
				okOwner := false
				for _, o := range x.P.Owners(u.Fn) {
					if allowed[tf.typ+"."+tf.fld][load.ShortName(o)] {
						okOwner = true
					}
				}
				if !okOwner {
					bad += u.Pos + ": the wrapped stream of " + tf.typ + " is used in " + load.ShortName(u.Fn) + ": bytes moved there bypass the hash\n"
				}
			}
		}
		x.C.Obl("C08.R2", "inner-stream-owners", "token/internal/envelope/cid.go", "the wrapped reader / writer of CIDReader / CIDWriter is touched only by the constructor and by Read / Write (which hash what they move)", bad == "" && n >= 4, bad)
	}
	if f := x.fn("C08.R2", "(*"+envPkg+"CIDWriter).CID"); f != nil {
		ps := x.pathsQuiet(f)
		ok := len(ps) == 1 && ps[0].Results()[0].String() == "call["+envPkg+"cidFromHash](recv.hash)#0"
		x.C.Obl("C08.R2", "cid:CIDWriter", x.pos(f), "CID() is cidFromHash of the writer's hash", ok, "")
	}
	if f := x.fn("C08.R2", "(*"+envPkg+"CIDReader).CID"); f != nil {
		sel, _, _ := x.E.Select(f, paths.WantSuccess)
		ok := len(sel) > 0
		for _, v := range sel {
			if v.Results()[0].String() != "call["+envPkg+"cidFromHash](recv.hash)#0" {
				ok = false
			}
		}
		x.C.Obl("C08.R2", "cid:CIDReader", x.pos(f), "CID() is cidFromHash of the reader's hash", ok, "")
	}

	// ---------------- R3
	{
		bytesPassedOn(x)
		sameNode(x)
		packageCodecs(x, "C08.R3", 8, "token", "token/delegation", "token/invocation", "token/internal/envelope", "pkg/container")
	}

	// ---------------- R4
	isEqual := func(t *paths.Term) (bool, bool) {
		if t.Op == "call" && (t.Name == "bytes.Equal" || strings.Contains(strings.ToLower(t.Name), "canonical")) {
			return false, true
		}
		return false, false
	}
	for _, pk := range []string{"token", "token/delegation", "token/invocation"} {
		for _, n := range []string{"FromSealed", "FromSealedReader"} {
			f := x.fn("C08.R4", pk+"."+n)
			if f == nil {
				continue
			}
			vs, err := x.E.ConsistentPaths(f, paths.WantSuccess, isEqual, 8)
			short := strings.TrimPrefix(pk, "token/") + "." + n
			x.C.Obl("C08.R4", short+"|no-canonicity-enforcement", x.pos(f),
				"no CID is reported for received bytes unless they were compared with the canonical re-encoding of the decoded envelope", err == nil && len(vs) == 0,
				"a token and a CID over the raw input are returned without any canonical-form check on the decode path; the signature is verified over the re-encoding, so a non-canonical encoding of the same signed content is accepted under a different CID")
		}
	}
}

// callOrder tells whether on path v a call to first precedes a call to second.
func callOrder(v paths.VPath, first, second string) bool {
	seenFirst, res, decided := false, false, false
	v.InstrsIn(func(in ssa.Instruction, c *paths.Ctx) {
		call, ok := in.(*ssa.Call)
		if !ok || decided {
			return
		}
		n := ""
		if g := paths.StaticCallee(call); g != nil {
			n = paths.FuncName(g)
		} else if ct := c.Term(call); ct != nil && ct.Op == "call" {
			n = ct.Name // a call through a function value the path knows (a method value handed to a helper)
		}
		if n == first {
			seenFirst = true
		}
		if n == second {
			res, decided = seenFirst, true
		}
	})
	return res
}

// packageCodecs: every decoder / encoder value handed to go-ipld-prime in the given packages is one of the
// package functions dagcbor.Decode / dagjson.Decode / dagcbor.Encode / dagjson.Encode (default options: the whole
// input is parsed, bytes and links are read as such), never an options method value or another computed value.
func packageCodecs(x *Ctx, rule string, min int, pkgs ...string) {
	in := map[string]bool{}
	for _, p := range pkgs {
		in[p] = true
	}
	bad, n := "", 0
	for _, f := range x.P.ModuleFuncs() {
		pp := strings.TrimPrefix(x.P.PkgPathOf(f), load.Module+"/")
		if !in[pp] {
			continue
		}
		for _, b := range f.Blocks {
			for _, ins := range b.Instrs {
				c, ok := ins.(ssa.CallInstruction)
				if !ok {
					continue
				}
				for _, a := range c.Common().Args {
					ts := a.Type().String()
					if !strings.HasSuffix(ts, "codec.Decoder") && !strings.HasSuffix(ts, "go-ipld-prime.Decoder") && !strings.HasSuffix(ts, "codec.Encoder") && !strings.HasSuffix(ts, "go-ipld-prime.Encoder") {
						continue
					}
					src := a
					for {
						if ct, ok := src.(*ssa.ChangeType); ok {
							src = ct.X
							continue
						}
						break
					}
					switch v := src.(type) {
					case *ssa.Function:
						n++
						name := v.String()
						okName := strings.HasSuffix(name, "codec/dagcbor.Decode") || strings.HasSuffix(name, "codec/dagjson.Decode") || strings.HasSuffix(name, "codec/dagcbor.Encode") || strings.HasSuffix(name, "codec/dagjson.Encode")
						if v.Signature.Recv() != nil || !okName {
							bad += x.P.Pos(ins.Pos()) + ": codec value " + name + "\n"
						}
					case *ssa.Parameter:
						// forwarded parameter: checked at the caller
					default:
						bad += x.P.Pos(ins.Pos()) + ": the codec is a computed value (" + src.String() + "), e.g. an options method value\n"
					}
				}
			}
		}
	}
	x.C.Obl(rule, "package-codecs:"+strings.Join(pkgs, ","), "-", fmt.Sprintf("all %d codec values handed to go-ipld-prime are the package functions dagcbor / dagjson Decode / Encode with default options", n), bad == "" && n >= min, bad)
}

// streamDecodes tells whether the term contains a DAG-CBOR streaming decode of exactly the reader src.
func streamDecodes(t *paths.Term, src string) bool {
	found := false
	t.Walk(func(s *paths.Term) {
		if s.Op == "call" && strings.HasSuffix(s.Name, "go-ipld-prime.DecodeStreaming") && len(s.Args) >= 2 && s.Args[0].String() == src && strings.Contains(s.Args[1].String(), "codec/dagcbor.Decode") {
			found = true
		}
	})
	return found
}

// bufferDecodes tells whether the term contains a DAG-CBOR decode of exactly the byte slice src.
func bufferDecodes(t *paths.Term, src string) bool {
	found := false
	t.Walk(func(s *paths.Term) {
		if s.Op == "call" && strings.HasSuffix(s.Name, "go-ipld-prime.Decode") && len(s.Args) >= 2 && s.Args[0].String() == src && strings.Contains(s.Args[1].String(), "codec/dagcbor.Decode") {
			found = true
		}
	})
	return found
}

// cborDecodeOf tells whether a token-valued term is a DAG-CBOR decode of exactly src through one of the decoding
// entry points of package pk (the typed From* functions, Decode / DecodeReader with the DAG-CBOR codec, the
// envelope decoder of pk's payload model, go-ipld-prime's Decode / DecodeStreaming with dagcbor.Decode).
func cborDecodeOf(t *paths.Term, pk, src string, stream bool) bool {
	fn, gen := "FromDagCbor", "Decode"
	if stream {
		fn, gen = "FromDagCborReader", "DecodeReader"
	}
	if decodesWith(t, pk, fn, src) {
		return true
	}
	found := false
	t.Walk(func(s *paths.Term) {
		if s.Op != "call" || len(s.Args) < 2 || s.Args[0] == nil || s.Args[0].String() != src || !strings.Contains(s.Args[1].String(), "codec/dagcbor.Decode") {
			return
		}
		if s.Name == pk+"."+gen || strings.HasPrefix(s.Name, "token/internal/envelope."+gen+"[") {
			found = true
		}
	})
	if found {
		return true
	}
	if stream {
		return streamDecodes(t, src)
	}
	return bufferDecodes(t, src)
}
