package rules

import (
	"fmt"
	"go/types"
	"os"
	"regexp/syntax"
	"sort"
	"strings"

	"golang.org/x/tools/go/ssa"

	"verif/lint/internal/load"
	"verif/lint/internal/paths"
	"verif/lint/internal/report"
)

func init() {
	register(&Property{
		Meta: report.Meta{
			Property:    "C14",
			Explanation: "Structural rules on the selector tokenizer / parser and on the policy tuple codec: (R1) tokenize is a partition — every token appended is str[ofs:col] with ofs then set to col, and on every exit of the scanning loop either the pending tail str[ofs:col] is appended or the fact ofs >= col holds (no condition on the quote state may drop it); (R2) every iteration of Parse's loop over all tokens either appends exactly one segment whose printed form (str) is the whole token (or the constant \".\") or is a failure exit, so printing reproduces the accepted text; (R3) for each statement struct the tuple positions read by statementFromIPLD equal the positions written by statementToIPLD, and the arities (2 for not/and/or, 3 otherwise) agree. Deep equality of round-tripped policies and the meaning of re-parsed selectors are runtime-value clauses and are not decided. The data value of a decoded statement (field of type datamodel.Node) is exactly the node looked up in the tuple. Only HasSuffix / HasPrefix / TrimRight(tok, \"?\") / TrimSuffix are applied to a whole selector token; statementsFromIPLD stores exactly one decoded statement per list element. The field name of a field segment is built from sub-slices of the token (plus removal of '?' markers / the leading dot); statementToIPLD applies to a field only the conversion to string, Selector.String, the nested encoders or Kind(). Selector.String / segment.String only append the segments' parsed texts. Every non-failure return of selector.Parse passes through the loop over the tokens, except under equality of the whole input with a constant (the literal selectors); Parse fails only for the enumerated reasons. The counted loop of statementsFromIPLD starts at 0 and is bounded by Length() of the node parameter (or the function steps a ListIterator until Done). (R1) the latch paths of tokenize on which the offset restarts carry a fact on a loop phi other than list / offset / column, and no such atom occurs with both polarities. (R3) the argument of selector.Parse in statementFromIPLD is must.String(node) or AsString()#0. (R3) statementsToIPLD: one AssignNode in the loop, dominating every back edge, the loop left only through its header or a failing exit, the node assigned is result #0 of a module function applied in this iteration.",
			Assumptions: []string{"go-ipld-prime list assembler appends values in call order"},
			Trusted:     []string{"golang.org/x/tools/go/ssa v0.29.0", "go-ipld-prime"},
			NotDecided:  []string{"deep equality of round-tripped policies", "equivalence of meaning of printed and re-parsed selectors"},
		},
		Run: runC14,
	})
}

func runC14(x *Ctx) {
	x.C.Rule("C14.R1", "tokenize partitions the input: no tail is dropped", 3)
	x.C.Rule("C14.R2", "each token yields exactly one segment printing as that token, or an error; slice tokens have exactly two parts; quoted lookups are fields; the whole token is examined; field names verbatim; printing appends the parsed texts; no new reason to refuse; no bypass of the token loop", 11)
	x.C.Rule("C14.R3", "policy tuple positions and arities agree between decoder and encoder; data values are kept verbatim", 8)

	if f := x.fn("C14.R1", selPkg+"tokenize"); f != nil {
		tokenizeRule(x, f)
	}
	if f := x.fn("C14.R2", selPkg+"Parse"); f != nil {
		parseAppendRule(x, f)
	}
	selectorPrinting(x)
	tupleAgreement(x)
	runTotalLoops(x, "C14")
	packageCodecs(x, "C14.R3", 2, "pkg/policy", "pkg/policy/selector", "pkg/policy/literal", "pkg/args", "pkg/meta")
}

func tokenizeRule(x *Ctx, f *ssa.Function) {
	ps := x.paths("C14.R1", f)
	if ps == nil {
		return
	}
	fi := paths.Info(f)
	if len(fi.Loops) != 1 {
		x.C.Unresolved("C14.R1", "loop:tokenize", x.pos(f), fmt.Sprintf("expected one scanning loop, found %d", len(fi.Loops)))
		return
	}
	l := fi.Loops[0]
	// the token list: the loop phi of type []string, or - when a function literal captures the list - the
	// variable of that type which the iterations store into
	var toks *ssa.Phi
	var toksCell *ssa.Alloc
	for _, phi := range l.HeaderPhis() {
		if phi.Type().String() == "[]string" {
			toks = phi
		}
	}
	if toks == nil {
		for _, b := range f.Blocks {
			for _, in := range b.Instrs {
				if a, ok := in.(*ssa.Alloc); ok && a.Type().String() == "*[]string" {
					for _, p := range ps {
						if p.End == paths.EndLatch && p.LastStore(a) != nil {
							toksCell = a
						}
					}
				}
			}
		}
	}
	if toks == nil && toksCell == nil {
		x.C.Unresolved("C14.R1", "tokens:tokenize", x.pos(f), "no loop-carried []string found")
		return
	}
	var tk string
	if toks != nil {
		tk = paths.DetachedTerm(f, toks).String()
	} else {
		tk = "*" + paths.DetachedTerm(f, toksCell).String()
	}
	latchToks := func(p *paths.Path) *paths.Term {
		if toks != nil {
			return p.LatchValue(toks)
		}
		return p.LastStore(toksCell)
	}
	// shape of every append: append(toks, [slice(arg0, O, C)])
	var ofs, col string
	badShape := ""
	isAppend := func(t *paths.Term) (o, c string, ok bool) {
		if t.Op != "call" || t.Name != "builtin.append" || len(t.Args) != 2 || t.Args[0].String() != tk {
			return "", "", false
		}
		v := t.Args[1]
		if v.Op != "varargs" || len(v.Args) != 1 || v.Args[0].Op != "slice" || v.Args[0].Args[0].String() != "arg0" || v.Args[0].Args[1] == nil {
			return "", "", false
		}
		if v.Args[0].Args[2] == nil {
			return v.Args[0].Args[1].String(), "len(arg0)", true // str[ofs:] is str[ofs:len(str)]
		}
		return v.Args[0].Args[1].String(), v.Args[0].Args[2].String(), true
	}
	nAppend := 0
	var phiByName = map[string]*ssa.Phi{}
	for _, phi := range l.HeaderPhis() {
		phiByName[paths.DetachedTerm(f, phi).String()] = phi
	}
	for _, p := range ps {
		var nt *paths.Term
		switch p.End {
		case paths.EndLatch:
			nt = latchToks(p)
		case paths.EndReturn:
			nt = p.Results()[0]
		default:
			continue
		}
		if nt == nil || nt.String() == tk {
			continue
		}
		o, c, ok := isAppend(nt)
		if !ok {
			badShape += "token list becomes " + nt.String() + "\n"
			continue
		}
		nAppend++
		if p.End == paths.EndReturn && c == "len(arg0)" {
			// the tail taken to the end of the string after the scan (the column has reached the end there)
			if ofs != "" && o != ofs {
				badShape += fmt.Sprintf("tail append of str[%s:], elsewhere str[%s:%s]\n", o, ofs, col)
			}
			continue
		}
		if ofs == "" {
			ofs, col = o, c
		} else if o != ofs || c != col {
			badShape += fmt.Sprintf("append of str[%s:%s], elsewhere str[%s:%s]\n", o, c, ofs, col)
		}
		// after an in-loop append the offset restarts at the current column
		if p.End == paths.EndLatch {
			if op := phiByName[o]; op != nil {
				if nv := p.LatchValue(op); nv == nil || !(nv.String() == c || nv.String() == "add("+c+",const(1))" && false) {
					badShape += "after appending str[ofs:col] the offset becomes " + nv.String() + ", not col\n"
				}
			}
		}
	}
	x.C.Obl("C14.R1", "append-shape:tokenize", x.pos(f), "every change of the token list appends exactly str[ofs:col] (ofs, col loop-carried) and restarts ofs at col", badShape == "" && nAppend >= 2, badShape)
	if ofs == "" {
		return
	}
	pending := "lt(" + ofs + "," + col + ")"
	// on exit: tail appended, or ofs >= col
	bad := ""
	n := 0
	for _, p := range ps {
		if p.End != paths.EndReturn {
			continue
		}
		n++
		r := p.Results()[0]
		if _, _, ok := isAppend(r); ok {
			continue
		}
		if !p.HasFact(pending, false) && !p.HasFact("lt("+ofs+",len(arg0))", false) {
			bad += "a return without the pending tail str[ofs:col] although ofs < col may hold:\n" + p.String() + "\n"
		}
	}
	x.C.Obl("C14.R1", "tail-kept:tokenize", x.pos(f), "on every exit the pending tail str[ofs:col] is appended unless ofs >= col", bad == "" && n >= 2, bad)
	// in-loop: at a separator outside quotes with a pending token, the token is emitted
	bad = ""
	for _, p := range ps {
		if p.End != paths.EndLatch {
			continue
		}
		if p.HasFact(pending, true) {
			if lt := latchToks(p); lt == nil {
				bad += "an iteration sees a pending token (ofs < col) at a separator but does not emit it:\n" + p.String() + "\n"
			} else if _, _, ok := isAppend(lt); !ok {
				bad += "an iteration sees a pending token (ofs < col) at a separator but does not emit it:\n" + p.String() + "\n"
			}
		}
	}
	x.C.Obl("C14.R1", "boundary-emits:tokenize", x.pos(f), "whenever the loop tests ofs < col and it holds, the pending token is appended", bad == "", bad)
	// a token boundary is placed only outside quotes: the loop carries a quote state (a variable other than the
	// list, the offset and the column), and every iteration that restarts the offset has tested it. A separator
	// honoured inside quotes cuts a quoted key in two, and Parse refuses a well-formed selector.
	var quote []string
	for name := range phiByName {
		if name != ofs && name != col && name != tk {
			quote = append(quote, name)
		}
	}
	sort.Strings(quote)
	if op := phiByName[ofs]; op != nil && len(quote) > 0 {
		badQ, nQ := "", 0
		var seenPol map[string]map[bool]bool
		for _, p := range ps {
			if p.End != paths.EndLatch {
				continue
			}
			nv := p.LatchValue(op)
			if nv == nil || nv.String() == ofs {
				continue
			}
			nQ++
			tested := false
			for _, fc := range p.Facts {
				for _, q := range quote {
					if fc.Atom.Contains(q) {
						tested = true
						if seenPol == nil {
							seenPol = map[string]map[bool]bool{}
						}
						if seenPol[fc.Atom.String()] == nil {
							seenPol[fc.Atom.String()] = map[bool]bool{}
						}
						seenPol[fc.Atom.String()][fc.Pol] = true
					}
				}
			}
			if !tested {
				badQ += "an iteration starts a new token without having looked at the quote state (" + strings.Join(quote, ", ") + "):\n" + p.String() + "\n"
			}
		}
		// ... and with one outcome: a test of the quote state that a cut passes with either answer decides nothing
		for a, pols := range seenPol {
			if pols[true] && pols[false] {
				badQ += "new tokens are started whether " + a + " holds or not: the quote state does not decide the cut\n"
			}
		}
		x.C.Obl("C14.R1", "cuts-outside-quotes:tokenize", x.pos(f), "every iteration that starts a new token has tested the quote state the loop carries, with one and the same outcome", badQ == "" && nQ > 0, firstLines(badQ, 12))
	}
}

func parseAppendRule(x *Ctx, f *ssa.Function) {
	tokz := "call[" + selPkg + "tokenize](arg0)"
	ls := fullRangeLoops(f, "len("+tokz+")")
	if len(ls) != 1 {
		x.C.Obl("C14.R2", "range:Parse", x.pos(f), "exactly one loop over all tokens of tokenize(str)", false, fmt.Sprintf("found %d", len(ls)))
		return
	}
	l := ls[0]
	x.C.Obl("C14.R2", "range:Parse", x.pos(f), "exactly one loop over all tokens of tokenize(str)", true, "")
	tok := tokz + "[" + ivName(l) + "]"
	var sel *ssa.Phi
	for _, phi := range l.HeaderPhis() {
		if strings.HasSuffix(phi.Type().String(), "selector.Selector") {
			sel = phi
		}
	}
	if sel == nil {
		x.C.Unresolved("C14.R2", "selector:Parse", x.pos(f), "no loop-carried Selector found")
		return
	}
	sk := paths.DetachedTerm(f, sel).String()
	ps := x.paths("C14.R2", f)
	bad := ""
	nLatch := 0
	for _, p := range ps {
		if !p.EntersBody(l) {
			continue
		}
		switch p.End {
		case paths.EndLatch:
			if p.Latch != l.Header {
				continue // the back edge of a loop nested in the token loop: not a whole iteration
			}
			nLatch++
			nv := p.LatchValue(sel)
			if nv == nil {
				bad += "an iteration whose new selector value cannot be read\n"
				continue
			}
			if nv.Op != "call" || nv.Name != "builtin.append" || nv.Args[0].String() != sk || nv.Args[1].Op != "varargs" || len(nv.Args[1].Args) != 1 {
				bad += "an iteration does not append exactly one segment: selector becomes " + nv.String() + "\n"
				continue
			}
			cell := paths.CellOf(nv.Args[1].Args[0])
			if cell == nil {
				bad += "appended value is " + nv.Args[1].Args[0].String() + "\n"
				continue
			}
			fs := p.FieldStores(cell)
			str := fs["str"]
			if str == nil || !(str.String() == tok || str.String() == `const(".")`) {
				got := "<unset>"
				if str != nil {
					got = str.String()
				}
				bad += x.P.Pos(cell.Pos()) + ": the segment's printed form is " + got + ", not the token\n"
			}
		case paths.EndReturn:
			if o, _ := p.ErrorOutcome(); o != paths.Failure {
				bad += x.P.Pos(p.Ret.Pos()) + ": return from inside the token loop that is not a definite error\n"
			}
		case paths.EndPanic:
			bad += "panic exit inside the token loop\n"
		}
	}
	x.C.Obl("C14.R2", "one-segment-per-token:Parse", x.pos(f), fmt.Sprintf("each of the %d iteration paths appends exactly one segment whose str is the whole token (or \".\"); every other exit inside the loop is an error", nLatch), bad == "" && nLatch > 0, bad)
	// slice literals: every part of the token is used. The bounds come from strings.Split(lookup, ":")[0] and [1];
	// the path must establish that there are exactly two parts: sliceRegex (whose alternatives each contain exactly
	// one ':') matched, or an explicit len(parts) == 2 fact.
	{
		colons := regexColons(x)
		badS, nS := "", 0
		for _, p := range ps {
			if p.End != paths.EndLatch || !p.EntersBody(l) {
				continue
			}
			nv := p.LatchValue(sel)
			if nv == nil || nv.Op != "call" || len(nv.Args) != 2 || nv.Args[1].Op != "varargs" {
				continue
			}
			cell := paths.CellOf(nv.Args[1].Args[0])
			if cell == nil {
				continue
			}
			sl, isSlice := p.FieldStores(cell)["slice"]
			if !isSlice {
				continue
			}
			nS++
			// the bounds live in memory of their own: an array declared outside the token loop would be shared by
			// all slice segments of the selector (the last one parsed would overwrite the others)
			if sl.Op == "slice" && sl.Args[0].Op == "alloc" {
				if a, isA := sl.Args[0].Val.(*ssa.Alloc); isA && a.Parent() == f && !l.Body[a.Block()] {
					badS += x.P.Pos(a.Pos()) + ": the bounds of a slice segment are kept in an array declared outside the token loop: all slice segments of one selector share it\n"
					break
				}
			}
			ok := false
			for _, f := range p.Facts {
				s := f.Atom.String()
				if f.Pol && strings.HasPrefix(s, "call[(*regexp.Regexp).MatchString](*global("+selPkg+"sliceRegex),") && colons["sliceRegex"] == 1 {
					ok = true
				}
				if f.Pol && f.Atom.Op == "eq" && strings.Contains(s, "const(2)") && strings.Contains(s, "len(call[strings.Split](") {
					ok = true
				}
			}
			if !ok {
				badS += "a slice segment is built from the first two ':'-separated parts of the token without establishing that there are exactly two (a third part would be silently dropped):\n" + p.String() + "\n"
				break
			}
		}
		x.C.Obl("C14.R2", "slice-two-parts:Parse", x.pos(f), "a slice segment is only built from a token with exactly one ':' (sliceRegex, every alternative of which contains exactly one ':', or len(parts) == 2)", badS == "" && nS > 0, badS)
	}
	// a bracket lookup written in quotes is a field name, whatever it looks like ( ["0"] is the key "0", not index 0 )
	{
		badQ, nQ := "", 0
		for _, p := range ps {
			if p.End != paths.EndLatch || p.Latch != l.Header || !p.EntersBody(l) {
				continue
			}
			quoted := false
			for _, f := range p.Facts {
				if !f.Pol {
					continue
				}
				var xs string
				switch {
				case f.Atom.Op == "call" && f.Atom.Name == "strings.HasPrefix" && len(f.Atom.Args) == 2 && f.Atom.Args[1].IsConst(`"\""`) && f.Atom.Args[0].Op == "slice":
					xs = f.Atom.Args[0].String()
				case f.Atom.Op == "eq":
					// byte form: X[0] == '"'
					for k := 0; k < 2; k++ {
						e, c := f.Atom.Args[k], f.Atom.Args[1-k]
						if c.IsConst("34") && e.Op == "elem" && e.Args[1].IsConst("0") && e.Args[0].Op == "slice" {
							xs = e.Args[0].String()
						}
					}
				}
				if xs == "" {
					continue
				}
				if p.HasFact("call[strings.HasSuffix]("+xs+`,const("\""))`, true) || p.HasFact(eqs(xs+"[sub(len("+xs+"),const(1))]", "const(34)"), true) {
					quoted = true
				}
			}
			if !quoted {
				continue
			}
			nv := p.LatchValue(sel)
			if nv == nil || nv.Op != "call" || len(nv.Args) != 2 || nv.Args[1].Op != "varargs" {
				continue
			}
			cell := paths.CellOf(nv.Args[1].Args[0])
			if cell == nil {
				continue
			}
			nQ++
			fs := p.FieldStores(cell)
			if fs["isField"] == nil || !fs["isField"].IsConst("true") {
				badQ += "a lookup that starts with a double quote yields a segment that is not a field segment (" + describeFields(fs) + ")\n"
			}
		}
		x.C.Obl("C14.R2", "quoted-is-field:Parse", x.pos(f), "a bracket lookup in double quotes always yields a field segment", badQ == "" && nQ > 0, dedupLines(badQ))
	}
	// success after the loop returns the accumulated selector
	okRet := true
	for _, p := range ps {
		if p.End == paths.EndReturn && !p.EntersBody(l) && p.InBlock(l.Header) {
			if o, _ := p.ErrorOutcome(); o != paths.Success || p.Results()[0].String() != sk {
				okRet = false
			}
		}
	}
	x.C.Obl("C14.R2", "returns-all:Parse", x.pos(f), "after the last token Parse returns the accumulated selector", okRet, "")
	// and nothing else answers for it: a selector is handed out only by the path that went through the token loop
	// (a fast path that builds segments on its own escapes every rule above)
	{
		badB := ""
		for _, p := range ps {
			if p.End != paths.EndReturn || p.InBlock(l.Header) || len(p.Results()) == 0 {
				continue
			}
			if o, _ := p.ErrorOutcome(); o == paths.Failure {
				continue
			}
			// the two literal selectors "." and ".?" are answered on the spot: the whole input equals a constant
			whole := false
			for _, fc := range p.Facts {
				if fc.Pol && fc.Atom.Op == "eq" && len(fc.Atom.Args) == 2 {
					a, b := fc.Atom.Args[0], fc.Atom.Args[1]
					if (a.String() == "arg0" && b.Op == "const") || (b.String() == "arg0" && a.Op == "const") {
						whole = true
					}
				}
			}
			if r := p.Results()[0]; r != nil && !r.IsNil() && !whole {
				badB += x.P.Pos(p.Ret.Pos()) + ": Parse returns " + firstLines(r.String(), 1) + " without going through the token loop\n"
			}
		}
		x.C.Obl("C14.R2", "no-bypass:Parse", x.pos(f), "every selector Parse returns comes out of the loop over the tokens", badB == "", dedupLines(badB))
	}
	// the name of a field segment is a contiguous piece of the token: sub-slices (and the removal of the optional
	// markers / of the leading dot) only. A trimming function with a cut set, a replacement, a case change would
	// make two different quoted keys select the same field.
	{
		allowedF := map[string]bool{"strings.TrimRight": true, "strings.TrimSuffix": true, "strings.TrimPrefix": true, "strings.CutPrefix": true, "strings.CutSuffix": true}
		badF, nF := "", 0
		for _, p := range ps {
			if p.End != paths.EndLatch || !p.EntersBody(l) {
				continue
			}
			nv := p.LatchValue(sel)
			if nv == nil || nv.Op != "call" || len(nv.Args) != 2 || nv.Args[1].Op != "varargs" || len(nv.Args[1].Args) != 1 {
				continue
			}
			cell := paths.CellOf(nv.Args[1].Args[0])
			if cell == nil {
				continue
			}
			fs := p.FieldStores(cell)
			if fs["isField"] == nil || !fs["isField"].IsConst("true") || fs["field"] == nil {
				continue
			}
			nF++
			fs["field"].Walk(func(t *paths.Term) {
				if t.Op != "call" && t.Op != "invoke" && t.Op != "dyncall" {
					return
				}
				if t.Name == selPkg+"tokenize" {
					return
				}
				if !allowedF[t.Name] {
					badF += fmt.Sprintf("the name of a field segment is computed with %s: not a contiguous piece of the token\n", t.Name)
				} else if len(t.Args) == 2 && !(t.Args[1].String() == `const("?")` || t.Args[1].String() == `const(".")`) {
					badF += fmt.Sprintf("the name of a field segment is computed with %s(_, %s)\n", t.Name, t.Args[1])
				}
			})
		}
		x.C.Obl("C14.R2", "field-name-verbatim:Parse", x.pos(f), "the name of a field segment is a contiguous piece of its token", badF == "" && nF > 0, dedupLines(badF))
	}
	// closed world: Parse refuses a text only for the reasons it has today - empty, no leading '.', a second identity
	// in a row ('..'), a segment no pattern matches, a colon in a quoted name, a number strconv refuses or that
	// is outside the safe range. What String() prints for a parsed selector is handed to Parse again when a policy
	// is read back: a new reason to refuse can refuse the library's own output.
	{
		badR, nR := "", 0
		for _, p := range ps {
			if p.End != paths.EndReturn {
				continue
			}
			if o, _ := p.ErrorOutcome(); o == paths.Success || len(p.Facts) == 0 {
				continue
			}
			nR++
			last := p.Facts[len(p.Facts)-1]
			a := last.Atom.String()
			okR := false
			switch {
			case strings.Contains(a, "strconv."):
				okR = true
			case strings.Contains(a, "(*regexp.Regexp).MatchString") && !last.Pol:
				okR = true
			case strings.Contains(a, "segment).Identity") && last.Pol, strings.HasSuffix(a, ".identity") && last.Pol:
				okR = true
			case strings.Contains(a, "len(arg0)"):
				okR = true
			case strings.Contains(a, "strings.Contains") && strings.Contains(a, `const(":")`), strings.Contains(a, "strings.IndexByte") && strings.Contains(a, "const(58)"), strings.Contains(a, "strings.Count") && strings.Contains(a, `const(":")`):
				okR = true
			case strings.Contains(a, "arg0[const(0)]"), strings.Contains(a, "strings.HasPrefix](arg0,"):
				okR = true
			}
			if !okR {
				badR += fmt.Sprintf("%s: Parse refuses a selector on %s: not one of the reasons it had\n", x.P.Pos(p.Ret.Pos()), last)
			}
		}
		x.C.Obl("C14.R2", "no-other-rejection:Parse", x.pos(f), "Parse refuses a text only for: empty, no leading '.', '..', unmatched segment, colon in a quoted name, bad or out-of-range number", badR == "" && nR >= 8, firstLines(dedupLines(badR), 10))
	}
	// the whole token is looked at: the text that is classified is the token minus a suffix of optional markers
	// (HasSuffix / TrimRight / TrimSuffix with "?"); a function that cuts the token somewhere else (Cut, Split,
	// Index, Fields, Trim, Replace ...) lets text after the cut go unexamined
	{
		allowed := map[string]bool{"strings.HasSuffix": true, "strings.HasPrefix": true, "strings.TrimRight": true, "strings.TrimSuffix": true,
			"strings.Count": true, "strings.Contains": true, "strings.EqualFold": true}
		badT, nT := "", 0
		for _, p := range ps {
			p.InstrsIn(func(in ssa.Instruction, c *paths.Ctx) {
				call, ok := in.(*ssa.Call)
				if !ok {
					return
				}
				ct := c.Term(call)
				if ct == nil || ct.Op != "call" || len(ct.Args) == 0 || ct.Args[0] == nil || ct.Args[0].String() != tok {
					return
				}
				if !strings.HasPrefix(ct.Name, "strings.") {
					return
				}
				nT++
				if !allowed[ct.Name] {
					badT += fmt.Sprintf("%s: %s applied to the token: text after the cut is not examined\n", x.P.Pos(call.Pos()), ct.Name)
				} else if (ct.Name == "strings.TrimRight" || ct.Name == "strings.TrimSuffix") && !(len(ct.Args) == 2 && ct.Args[1].String() == `const("?")`) {
					badT += fmt.Sprintf("%s: %s removes %s from the token, not the optional marker\n", x.P.Pos(call.Pos()), ct.Name, ct.Args[1])
				} else if (ct.Name == "strings.Contains" || ct.Name == "strings.Count") && len(ct.Args) == 2 && ct.Args[1].String() == `const("?")` {
					// the marker is what the token ends with: a '?' somewhere in it (inside a quoted key) is text
					badT += fmt.Sprintf("%s: %s looks for the optional marker anywhere in the token, not at its end\n", x.P.Pos(call.Pos()), ct.Name)
				}
			})
		}
		x.C.Obl("C14.R2", "whole-token:Parse", x.pos(f), "the text classified is the token minus its trailing optional markers", badT == "", dedupLines(badT))
	}
}

// tupleAgreement compares decoder and encoder positions per statement struct.
func tupleAgreement(x *Ctx) {
	enc := x.fn("C14.R3", "pkg/policy.statementToIPLD")
	dec := x.fn("C14.R3", "pkg/policy.statementFromIPLD")
	if enc == nil || dec == nil {
		return
	}
	type table struct {
		arity int
		pos   map[string]int
	}
	encT := map[string]*table{}
	encRender := ""
	// --- encoder
	sel, _, err := x.E.Select(enc, paths.WantSuccess)
	if err != nil {
		x.C.Unresolved("C14.R3", "paths:statementToIPLD", x.pos(enc), err.Error())
		return
	}
	for _, v := range sel {
		typ := ""
		for _, f := range v.Facts {
			if f.Pol && f.Atom.Op == "extract" && f.Atom.Name == "#1" && f.Atom.Args[0].Op == "typeassert" {
				typ = f.Atom.Args[0].Name
			}
		}
		if typ == "" {
			continue
		}
		t := &table{pos: map[string]int{}}
		k := 0
		for _, c := range v.Calls() {
			ct := v.Term(c)
			if ct.Op == "invoke" && strings.HasSuffix(ct.Name, "NodeBuilder.BeginList") {
				if n, ok := paths.ConstInt(ct.Args[1]); ok {
					t.arity = int(n)
				}
			}
			if ct.Op == "invoke" && strings.Contains(ct.Name, "NodeAssembler.Assign") && len(ct.Args) == 2 && strings.Contains(ct.Args[0].String(), "ListAssembler.AssembleValue") {
				fld := fieldOfValue(ct.Args[1], typ)
				if fld == "?" && ct.Args[1].Op == "const" {
					// the kind written as the constant the type's Kind() method answers
					if km := x.P.Func("(" + typ + ").Kind"); km != nil {
						if kp := x.pathsQuiet(km); len(kp) == 1 && kp[0].End == paths.EndReturn && len(kp[0].Results()) == 1 && kp[0].Results()[0].String() == ct.Args[1].String() {
							fld = "<kind>"
						}
					}
				}
				t.pos[fld] = k
				k++
				// what is written is the field in its one wire rendering: the node itself, the text of a pattern (a
				// conversion), Selector.String(), the recursive encoders, Kind(); any other function applied on
				// the way (quoting, escaping, normalising) is not undone by the decoder
				ct.Args[1].Walk(func(w *paths.Term) {
					if w.Op != "call" && w.Op != "invoke" && w.Op != "dyncall" {
						return
					}
					switch {
					case w.Name == "(pkg/policy/selector.Selector).String", w.Name == "pkg/policy.statementToIPLD", w.Name == "pkg/policy.statementsToIPLD",
						strings.HasSuffix(w.Name, ").Kind"), strings.HasSuffix(w.Name, "Statement.Kind"):
					default:
						encRender += fmt.Sprintf("%s.%s is written as %s: %s is applied to it and the decoder does not undo that\n", typ, fld, ct.Args[1], w.Name)
					}
				})
			}
		}
		if old, ok := encT[typ]; ok && fmt.Sprint(old.pos) != fmt.Sprint(t.pos) {
			x.C.Obl("C14.R3", "encoder-consistent:"+typ, x.pos(enc), "all success paths of one struct type write the same positions", false, fmt.Sprint(old.pos, t.pos))
		}
		encT[typ] = t
	}
	// --- decoder
	decT := map[string]*table{}
	verbatim, verbatimWhy := map[string]bool{}, map[string]string{}
	dsel, _, err := x.E.Select(dec, paths.WantSuccess)
	if err != nil {
		x.C.Unresolved("C14.R3", "paths:statementFromIPLD", x.pos(dec), err.Error())
		return
	}
	for _, v := range dsel {
		r := v.Results()[0]
		cell := paths.CellOf(r)
		if cell == nil {
			continue
		}
		typ := paths.Short(cell.Type().Underlying().(*types.Pointer).Elem().String())
		t := &table{pos: map[string]int{}}
		for _, f := range v.Facts {
			if f.Pol && f.Atom.Op == "eq" && strings.Contains(f.Atom.String(), "datamodel.Node.Length](arg1)") {
				for _, a := range f.Atom.Args {
					if n, ok := paths.ConstInt(a); ok {
						t.arity = int(n)
					}
				}
			}
		}
		stT, _ := cell.Type().Underlying().(*types.Pointer).Elem().Underlying().(*types.Struct)
		for fld, val := range v.FieldStores(cell) {
			// a data value (an IPLD node held by the statement) is the node of the tuple itself, not something computed from it
			if stT != nil {
				for i := 0; i < stT.NumFields(); i++ {
					if paths.FieldName(stT.Field(i)) != fld || !strings.HasSuffix(types.Unalias(stT.Field(i).Type()).String(), "datamodel.Node") {
						continue
					}
					ex := val
					okV := ex.Op == "extract" && ex.Name == "#0" && len(ex.Args) == 1 && ex.Args[0].Op == "invoke" && strings.HasSuffix(ex.Args[0].Name, "Node.LookupByIndex") && ex.Args[0].Args[0].String() == "arg1"
					if prev, seen := verbatim[typ+"."+fld]; !seen || prev {
						verbatim[typ+"."+fld] = okV
						if !okV {
							verbatimWhy[typ+"."+fld] = val.String()
						}
					}
				}
			}
			if k, ok := lookupIndexOf(x, val); ok {
				t.pos[fld] = k
			} else {
				t.pos[fld] = -1
				if os.Getenv("UCANLINT_DEBUG") != "" {
					fmt.Fprintf(os.Stderr, "DEBUG C14.R3 %s.%s = %s\n", typ, fld, val)
				}
			}
		}
		// the operator at position 0 when the struct has no kind field
		if _, ok := t.pos["kind"]; !ok {
			t.pos["<kind>"] = 0
		}
		if old, ok := decT[typ]; ok && fmt.Sprint(old.pos) != fmt.Sprint(t.pos) {
			x.C.Obl("C14.R3", "decoder-consistent:"+typ, x.pos(dec), "all success paths of one struct type read the same positions", false, fmt.Sprint(old.pos, t.pos))
		}
		decT[typ] = t
	}
	x.C.Obl("C14.R3", "encoder-rendering", x.pos(enc), "every field is written in its wire rendering (node, pattern text, Selector.String, nested statements, kind) and nothing else is applied to it", encRender == "", dedupLines(encRender))
	var vk []string
	for k := range verbatim {
		vk = append(vk, k)
	}
	sort.Strings(vk)
	for _, k := range vk {
		x.C.Obl("C14.R3", "verbatim:"+k, x.pos(dec), "the data value of the statement is the node found in the tuple, unchanged (what is written back is what was read)", verbatim[k], "the field holds "+verbatimWhy[k])
	}
	if len(vk) == 0 {
		x.C.Obl("C14.R3", "verbatim:none", x.pos(dec), "a decoded statement holds its data value as an IPLD node", false, "no field of type datamodel.Node is stored by the decoder")
	}
	var types5 []string
	for t := range decT {
		types5 = append(types5, t)
	}
	sort.Strings(types5)
	for _, typ := range types5 {
		d, e := decT[typ], encT[typ]
		if e == nil {
			x.C.Obl("C14.R3", "tuple:"+typ, x.pos(enc), "statementToIPLD has an arm for "+typ, false, "no success path of the encoder asserts this type")
			continue
		}
		// normalise: the encoder writes Kind() or .kind at position 0
		norm := func(m map[string]int) string {
			var ks []string
			for k, v := range m {
				if k == "kind" {
					k = "<kind>"
				}
				ks = append(ks, fmt.Sprintf("%s@%d", k, v))
			}
			sort.Strings(ks)
			return strings.Join(ks, " ")
		}
		ok := norm(d.pos) == norm(e.pos) && d.arity == e.arity && d.arity > 0
		x.C.Obl("C14.R3", "tuple:"+typ, x.pos(dec), "decoder and encoder agree on the position of every field and on the arity",
			ok, fmt.Sprintf("decoder: arity %d, %s\nencoder: arity %d, %s", d.arity, norm(d.pos), e.arity, norm(e.pos)))
	}
	x.C.Obl("C14.R3", "struct-types", x.pos(dec), "the decoder produces the five statement struct types", len(types5) == 5, strings.Join(types5, ","))
}

// fieldOfValue finds which field of the asserted struct a written value comes from.
func fieldOfValue(t *paths.Term, typ string) string {
	out := "?"
	t.Walk(func(s *paths.Term) {
		if s.Op == "field" && s.Args[0].Op == "extract" && s.Args[0].Args[0].Op == "typeassert" && s.Args[0].Args[0].Name == typ {
			out = s.Name
		}
		if s.Op == "call" && strings.HasSuffix(s.Name, ").Kind") && len(s.Args) == 1 && s.Args[0].Op == "extract" {
			out = "<kind>"
		}
	})
	return out
}

// lookupIndexOf finds the constant k of LookupByIndex(node, k) feeding a decoded field, looking
// into in-module closures (arg2AsSelector) when the value is their result.
func lookupIndexOf(x *Ctx, t *paths.Term) (int, bool) {
	if ct, call := paths.CallOf(t); ct != nil && call != nil && ct.Op == "call" {
		if g := paths.StaticCallee(call); g != nil && x.P.InModule(g) && len(g.Blocks) > 0 {
			name := load.ShortName(g)
			if name == "pkg/policy.statementFromIPLD" || name == "pkg/policy.statementsFromIPLD" {
				// recursive decoders: the node argument carries the lookup
				return lookupIndexOf(x, ct.Args[len(ct.Args)-1])
			}
			if g.Parent() != nil {
				// closure of the decoder (arg2AsSelector): the lookup is in its body
				sel, _, err := x.E.Select(g, paths.WantSuccess)
				if err == nil {
					for _, v := range sel {
						if kk, ok := lookupIndexOf(x, v.Results()[0]); ok {
							return kk, true
						}
					}
				}
				return 0, false
			}
		}
	}
	found, k := false, 0
	t.Walk(func(s *paths.Term) {
		if s.Op == "invoke" && strings.HasSuffix(s.Name, "Node.LookupByIndex") && len(s.Args) == 2 {
			if n, ok := paths.ConstInt(s.Args[1]); ok && !found {
				found, k = true, int(n)
			}
		}
	})
	return k, found
}

// regexColons returns, per regex global of the selector package, the number of literal ':' that
// every alternative of the expression contains (-1 if alternatives differ).
func regexColons(x *Ctx) map[string]int {
	out := map[string]int{}
	for name, src := range regexSources(x) {
		re, err := syntax.Parse(src, syntax.Perl)
		if err != nil {
			continue
		}
		lo, hi := colonRange(re)
		if lo == hi {
			out[name] = lo
		} else {
			out[name] = -1
		}
	}
	return out
}

// colonRange: minimum and maximum number of ':' a match can contain (hi = 99 when unbounded).
func colonRange(re *syntax.Regexp) (int, int) {
	switch re.Op {
	case syntax.OpLiteral:
		n := 0
		for _, r := range re.Rune {
			if r == ':' {
				n++
			}
		}
		return n, n
	case syntax.OpCharClass:
		for i := 0; i+1 < len(re.Rune); i += 2 {
			if re.Rune[i] <= ':' && ':' <= re.Rune[i+1] {
				return 0, 1
			}
		}
		return 0, 0
	case syntax.OpAnyChar, syntax.OpAnyCharNotNL:
		return 0, 1
	case syntax.OpCapture:
		return colonRange(re.Sub[0])
	case syntax.OpConcat:
		lo, hi := 0, 0
		for _, s := range re.Sub {
			l, h := colonRange(s)
			lo, hi = lo+l, hi+h
		}
		return lo, hi
	case syntax.OpAlternate:
		lo, hi := 1<<30, 0
		for _, s := range re.Sub {
			l, h := colonRange(s)
			if l < lo {
				lo = l
			}
			if h > hi {
				hi = h
			}
		}
		return lo, hi
	case syntax.OpStar, syntax.OpPlus, syntax.OpQuest, syntax.OpRepeat:
		l, h := colonRange(re.Sub[0])
		if h == 0 {
			return 0, 0
		}
		if re.Op == syntax.OpQuest {
			return 0, h
		}
		_ = l
		return 0, 99
	}
	return 0, 0
}

// selectorPrinting (C14.R2): a selector prints as the concatenation of the texts its segments were parsed from
// (segment.str), in order. Selector.String and segment.String, with whatever helpers they use in the package,
// only append those texts: strings.Builder / bytes.Buffer writes, string concatenation, strings.Join. Any
// function that rewrites text (Replace*, regexp, Trim*, ToLower, Fields ...) makes the printed selector another
// selector than the one that was read - and ToIPLD writes selectors through String().
func selectorPrinting(x *Ctx) {
	for _, name := range []string{"(" + strings.TrimSuffix(selPkg, ".") + ".Selector).String", "(" + strings.TrimSuffix(selPkg, ".") + ".segment).String"} {
		f := x.fn("C14.R2", name)
		if f == nil {
			continue
		}
		bad := ""
		for g := range x.P.Reach([]*ssa.Function{f}) {
			if !x.P.IsLibrary(g) || x.P.PkgPathOf(g) != x.P.PkgPathOf(f) {
				continue
			}
			for _, b := range g.Blocks {
				for _, in := range b.Instrs {
					c, ok := in.(ssa.CallInstruction)
					if !ok {
						continue
					}
					h := c.Common().StaticCallee()
					if h == nil || h.Pkg == nil {
						continue
					}
					pp := h.Pkg.Pkg.Path()
					switch {
					case pp == x.P.PkgPathOf(f):
					case pp == "strings" && h.Signature.Recv() != nil: // Builder methods
					case pp == "bytes" && h.Signature.Recv() != nil:
					case pp == "strings" && (h.Name() == "Join" || h.Name() == "Repeat"):
					case pp == "strconv" || pp == "fmt":
					default:
						bad += fmt.Sprintf("%s: %s calls %s.%s while printing a selector: the text printed is no longer the text that was parsed\n", x.P.Pos(in.Pos()), load.ShortName(g), pp, h.Name())
					}
				}
			}
		}
		x.C.Obl("C14.R2", "prints-verbatim:"+name, x.pos(f), "the selector prints as the concatenation of its segments' own texts", bad == "", dedupLines(bad))
	}
}
