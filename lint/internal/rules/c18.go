package rules

import (
	"fmt"
	"go/types"
	"sort"
	"strings"

	"golang.org/x/tools/go/ssa"

	"verif/lint/internal/load"
	"verif/lint/internal/paths"
	"verif/lint/internal/report"
)

func init() {
	register(&Property{
		Meta: report.Meta{
			Property:    "C18",
			Explanation: "Error-discipline analysis (engine E6) over the stream-handling code: the set S of functions of packages container, token, delegation, invocation, envelope reachable from the exported functions that take an io.Reader / io.Writer (plus the CIDReader/CIDWriter methods) is computed on the in-module call graph; in S every call, defer or go whose callee returns an error and that is stream-related (its receiver or an argument implements io.Reader or io.Writer, or the callee is itself in S) must not lose that error: the error value must be used, every path on which it is tested non-nil must end in a failure return / false / panic or hand the error to the iterator consumer, and a deferred call may not return an error. Exemptions are a frozen table with reasons (hash.Hash.Write never fails; io.EOF ends the CAR iteration - the documented undetectable cut; calls on paths that already return an error). (R2) ldRead converts io.EOF from ReadUvarint / ReadFull into io.ErrUnexpectedEOF and only the Peek EOF propagates as a clean end; (R3) CIDReader.Read latches every non-EOF error and CID() returns it; FromSealedReader requires CID() to succeed. Independence from chunking is the contract of bufio / io.ReadFull / base64 / refmt and is not decided. (R4) no object is put back into a sync.Pool while still reachable from what the function returns (positive example under lint/testdata/canary/pool). A function literal run by defer may store an error only into a named result of the enclosing function. On a path that reaches a success return without testing the error of a stream-related call, the error is returned, stored, passed to a call or appears in a fact. No instruction of a library function stores through, or lets copy / append / Put* / Read / a dst or buf parameter fill, a package-level array or slice of numbers, bytes.Buffer or strings.Builder. (R5) every io.Reader / io.Writer argument of a call that leaves the module originates in a parameter, a captured variable, a field, a value of a module type or bufio / base64 / bytes constructors. A call of a Read([]byte)(int,error) method in a function of the stream-handling packages that is not itself named Read sits in a block on a CFG cycle; the canary package lint/testdata/canary/stream must yield exactly its seeded site. (R2) a path of the iterator literal of readCar that returns after readBlock answered a non-nil error, without a yield that received that error, has the fact err == io.EOF. (R1) for a stream-related call inside a loop, the error is compared, returned or passed on by an instruction of that loop (not merely carried to the loop header's phi or stored into a variable that is read only after the loop). (R2) every function of package container that calls readBlock has a path fact comparing that error with io.EOF.",
			Assumptions: []string{"bufio, io.ReadFull, encoding/base64 and the refmt-based codecs are correct under arbitrary chunking", "hash.Hash.Write never returns an error (documented)"},
			Trusted:     []string{"bufio", "io", "encoding/base64", "go-ipld-prime codecs", "golang.org/x/tools/go/ssa v0.29.0"},
			NotDecided:  []string{"chunking independence", "byte equality of streamed and buffered output (runtime values)"},
		},
		Run: runC18,
	})
}

// exemptions of C18.R1: function|callee -> reason
var c18Exempt = map[string]string{
	"(*token/internal/envelope.CIDReader).Read|hash.Hash.Write": "hash.Hash.Write never returns an error (package hash documentation)",
}

func runC18(x *Ctx) {
	x.C.Rule("C18.R1", "no error of a stream-related call is dropped in the stream-handling code", 40)
	x.C.Rule("C18.R2", "ldRead: unexpected EOF inside a section is not a clean end; no other refusal; the CAR iterator ends silently on io.EOF only", 6)
	x.C.Rule("C18.R3", "CIDReader latches read errors; CID() reports them", 3)
	x.C.Rule("C18.R4", "stream code shares no pooled state that outlives a call and no package-level scratch buffer", 3)
	carWriterAbort(x, "C18.R1")
	x.poolDiscipline("C18.R4", "token/internal/envelope", "token", "token/delegation", "token/invocation")
	sharedScratch(x, "C18.R4")

	S := ioFunctionSet(x)
	x.C.Extra["stream_functions"] = len(S)
	errorDiscipline(x, S)
	x.C.Rule("C18.R5", "the caller's stream reaches the codecs whole: no limiting or sampling wrapper in between, no buffer filled with a single Read", 3)
	wholeStream(x, S)
	noSingleReads(x, S)
	deferredErrorCells(x, S)

	if f := x.fn("C18.R2", ctnPkg+"ldRead"); f != nil {
		ldReadRules(x, f)
	}
	// the CAR iterator ends silently only at a clean end: every path of the iterator literal that stops after readBlock
	// failed, without having handed the error to its consumer, knows the error to be io.EOF itself (ldRead turns an
	// EOF inside a section into io.ErrUnexpectedEOF; an errors.Is test would also take an error that merely wraps
	// io.EOF - a dropped connection - for the end of the container)
	if rc := x.fn("C18.R2", ctnPkg+"readCar"); rc != nil {
		nI, badI := 0, ""
		// the iterator is wherever readBlock is called from: the literal of today's tree, or a named function or method
		// the literal was moved to
		var iterators []*ssa.Function
		for _, g := range x.P.ModuleFuncs() {
			if x.P.PkgPathOf(g) != x.P.PkgPathOf(rc) || strings.HasSuffix(x.P.PkgPathOf(g), "_test") {
				continue
			}
			calls := false
			for _, b := range g.Blocks {
				for _, in := range b.Instrs {
					if c, isC := in.(ssa.CallInstruction); isC {
						if sc := c.Common().StaticCallee(); sc != nil && load.ShortName(sc) == ctnPkg+"readBlock" {
							calls = true
						}
					}
				}
			}
			if calls {
				iterators = append(iterators, g)
			}
		}
		for _, lit := range iterators {
			for _, p := range x.pathsQuiet(lit) {
				if p.End != paths.EndReturn {
					continue
				}
				var rb *paths.Term
				for _, c := range p.Calls() {
					if ct := p.Term(c); ct != nil && ct.Op == "call" && ct.Name == ctnPkg+"readBlock" {
						rb = ct
					}
				}
				if rb == nil {
					continue
				}
				e := rb.String() + "#1"
				if p.HasFact(eqs(e, "const(nil)"), true) {
					continue // a block was read: the consumer asked to stop
				}
				handed := false
				for _, fc := range p.Facts {
					if fc.Atom.Op == "dyncall" {
						for _, a := range fc.Atom.Args[1:] {
							if a != nil && a.String() == e {
								handed = true
							}
						}
					}
				}
				for _, r := range p.Results() {
					if r != nil && r.String() == e {
						handed = true
					}
				}
				nI++
				if handed || p.HasFact(eqs("*global(io.EOF)", e), true) {
					continue
				}
				badI += "the iterator stops without reporting an error that is not known to be io.EOF itself:\n" + p.String() + "\n"
			}
		}
		// and each of them knows the clean end: a caller that hands every error of readBlock on, io.EOF included, turns
		// the end of a container without blocks into a failure
		for _, lit := range iterators {
			knows := false
			for _, p := range x.pathsQuiet(lit) {
				for _, fc := range p.Facts {
					if s := fc.Atom.String(); fc.Atom.Op == "eq" && strings.Contains(s, "*global(io.EOF)") && strings.Contains(s, ctnPkg+"readBlock") {
						knows = true
					}
				}
			}
			if !knows {
				badI += fmt.Sprintf("%s calls readBlock and never compares its error with io.EOF: a container that ends here (no blocks) is reported as broken\n", load.ShortName(lit))
			}
		}
		x.C.Obl("C18.R2", "clean-end:readCar", x.pos(rc), "the CAR iterator ends silently only when readBlock answered io.EOF itself", badI == "" && nI >= 2, firstLines(badI, 12))
	}
	if f := x.fn("C18.R3", "(*"+envPkg+"CIDReader).Read"); f != nil {
		inner := "invoke[io.Reader.Read](recv.r,arg0)#1"
		ok, n := true, 0
		detail := ""
		for _, p := range x.pathsQuiet(f) {
			polNil, h1 := p.FactOn(eqs("const(nil)", inner))
			polEOF, h2 := p.FactOn(eqs("*global(io.EOF)", inner))
			if h1 && !polNil && h2 && !polEOF {
				n++
				latched := false
				p.Instrs(func(in ssa.Instruction) {
					if st, isSt := in.(*ssa.Store); isSt {
						if at := p.Term(st.Addr); at.String() == "&recv.err" && p.Term(st.Val).String() == inner {
							latched = true
						}
					}
				})
				if !latched {
					ok = false
					detail += "a non-EOF read error is not latched into r.err\n"
				}
			}
		}
		x.C.Obl("C18.R3", "latch:CIDReader.Read", x.pos(f), "every read error other than io.EOF is stored in r.err", ok && n > 0, detail)
	}
	if f := x.fn("C18.R3", "(*"+envPkg+"CIDReader).CID"); f != nil {
		x.noPath("C18.R3", "reports:CIDReader.CID", f, paths.WantSuccess, atoms(map[string]bool{eqs("const(nil)", "recv.err"): false}), 0, "CID() fails when a read error was latched")
	}
	for _, pk := range []string{"token", "token/delegation", "token/invocation"} {
		if f := x.fn("C18.R3", pk+".FromSealedReader"); f != nil {
			x.noPath("C18.R3", "cid-required:"+pk+".FromSealedReader", f, paths.WantSuccess, paths.CallFails(callee("(*"+envPkg+"CIDReader).CID")), 0, "no token / CID is returned when CID() reports a latched error")
		}
	}
}

var ioPkgs = map[string]bool{"pkg/container": true, "token": true, "token/delegation": true, "token/invocation": true, "token/internal/envelope": true}

func implementsIO(x *Ctx, t types.Type) bool {
	rd, wr := ioIface(x, "Reader"), ioIface(x, "Writer")
	if rd == nil || wr == nil {
		return false
	}
	for _, tt := range []types.Type{t, types.NewPointer(t)} {
		if types.Implements(tt, rd) || types.Implements(tt, wr) {
			return true
		}
	}
	return false
}

func ioIface(x *Ctx, name string) *types.Interface {
	sp := x.P.SSA["io"]
	if sp == nil {
		return nil
	}
	tn, ok := sp.Pkg.Scope().Lookup(name).(*types.TypeName)
	if !ok {
		return nil
	}
	it, _ := tn.Type().Underlying().(*types.Interface)
	return it
}

func ioFunctionSet(x *Ctx) map[*ssa.Function]bool {
	var roots []*ssa.Function
	for _, f := range x.P.ExportedAPI() {
		rel := strings.TrimPrefix(x.P.PkgPathOf(f), load.Module+"/")
		if !ioPkgs[rel] {
			continue
		}
		sig := f.Signature
		has := false
		for i := 0; i < sig.Params().Len(); i++ {
			s := sig.Params().At(i).Type().String()
			if s == "io.Reader" || s == "io.Writer" {
				has = true
			}
		}
		if sig.Recv() != nil && (strings.HasSuffix(sig.Recv().Type().String(), "envelope.CIDReader") || strings.HasSuffix(sig.Recv().Type().String(), "envelope.CIDWriter")) {
			has = true
		}
		if has {
			roots = append(roots, f)
		}
	}
	out := map[*ssa.Function]bool{}
	for f := range x.P.Reach(roots) {
		rel := strings.TrimPrefix(x.P.PkgPathOf(f), load.Module+"/")
		if ioPkgs[rel] {
			out[f] = true
		}
	}
	return out
}

func returnsError(sig *types.Signature) bool {
	n := sig.Results().Len()
	return n > 0 && types.Identical(sig.Results().At(n-1).Type(), types.Universe.Lookup("error").Type())
}

func calleeLabel(c ssa.CallInstruction) string {
	cc := c.Common()
	if cc.IsInvoke() {
		return paths.Short(types.TypeString(cc.Value.Type(), nil)) + "." + cc.Method.Name()
	}
	if g := paths.StaticCallee(c); g != nil {
		return paths.FuncName(g)
	}
	if b, ok := cc.Value.(*ssa.Builtin); ok {
		return "builtin." + b.Name()
	}
	return "dynamic"
}

func errorDiscipline(x *Ctx, S map[*ssa.Function]bool) {
	var fns []*ssa.Function
	for f := range S {
		fns = append(fns, f)
	}
	sort.Slice(fns, func(i, j int) bool { return load.ShortName(fns[i]) < load.ShortName(fns[j]) })
	for _, f := range fns {
		counts := map[string]int{}
		for _, b := range f.Blocks {
			for _, in := range b.Instrs {
				c, ok := in.(ssa.CallInstruction)
				if !ok {
					continue
				}
				cc := c.Common()
				sig := cc.Signature()
				if sig == nil || !returnsError(sig) {
					continue
				}
				// stream-related?
				related := false
				if g := paths.StaticCallee(c); g != nil && S[g] {
					related = true
				}
				if cc.IsInvoke() && implementsIO(x, cc.Value.Type()) {
					related = true
				}
				for _, a := range cc.Args {
					if implementsIO(x, a.Type()) {
						related = true
					}
				}
				if !related {
					continue
				}
				label := calleeLabel(c)
				counts[label]++
				key := fmt.Sprintf("%s|%s#%d", load.ShortName(f), label, counts[label])
				pos := x.P.Pos(in.Pos())
				if !in.Pos().IsValid() {
					pos = x.pos(f)
				}
				if reason, ok := c18Exempt[load.ShortName(f)+"|"+label]; ok {
					x.C.Obl("C18.R1", key, pos, "exempt: "+reason, true, "")
					continue
				}
				switch in.(type) {
				case *ssa.Defer, *ssa.Go:
					x.C.Obl("C18.R1", key, pos, "a deferred / spawned stream call must not return an error that nobody receives", false,
						"the error returned by the deferred "+label+" is dropped (e.g. the final flush of an encoder): the function can report success for output that was not completely written")
					continue
				}
				call := in.(*ssa.Call)
				ok2, detail := errorHandled(x, f, call)
				if ok2 {
					if why := overwrittenInLoop(f, call); why != "" {
						ok2, detail = false, why
					}
				}
				x.C.Obl("C18.R1", key, pos, "the error of "+label+" is propagated, tested (with failure on non-nil), stored, or handed to the consumer", ok2, detail)
			}
		}
	}
}

// deferredErrorCells: a function literal run by defer can hand an error to the caller only through a named
// result of the enclosing function. An error it stores into any other captured variable (a local that merely
// has the usual name) is lost: the function reports success although the deferred flush / close failed.
func deferredErrorCells(x *Ctx, S map[*ssa.Function]bool) { deferredErrorCellsRule(x, S, "C18.R1") }

func deferredErrorCellsRule(x *Ctx, S map[*ssa.Function]bool, rule string) {
	errT := types.Universe.Lookup("error").Type()
	var fns []*ssa.Function
	for f := range S {
		fns = append(fns, f)
	}
	sort.Slice(fns, func(i, j int) bool { return load.ShortName(fns[i]) < load.ShortName(fns[j]) })
	for _, parent := range fns {
		for _, b := range parent.Blocks {
			for _, in := range b.Instrs {
				d, ok := in.(*ssa.Defer)
				if !ok {
					continue
				}
				mc, ok := d.Call.Value.(*ssa.MakeClosure)
				if !ok {
					continue
				}
				cf := mc.Fn.(*ssa.Function)
				for i, fv := range cf.FreeVars {
					pt, ok := fv.Type().Underlying().(*types.Pointer)
					if !ok || !types.Identical(pt.Elem(), errT) || i >= len(mc.Bindings) {
						continue
					}
					stores := false
					for _, r := range *fv.Referrers() {
						if st, ok := r.(*ssa.Store); ok && st.Addr == ssa.Value(fv) {
							stores = true
						}
					}
					if !stores {
						continue
					}
					cell, _ := mc.Bindings[i].(*ssa.Alloc)
					isResult := false
					if cell != nil {
						for _, r := range *cell.Referrers() {
							if u, ok := r.(*ssa.UnOp); ok {
								for _, r2 := range *u.Referrers() {
									if ret, ok := r2.(*ssa.Return); ok {
										for _, res := range ret.Results {
											if res == ssa.Value(u) {
												isResult = true
											}
										}
									}
								}
							}
						}
					}
					name := fv.Name()
					x.C.Obl(rule, load.ShortName(parent)+"|deferred-error-cell:"+name, x.P.Pos(d.Pos()),
						"an error stored by a deferred function literal goes into a named result of the enclosing function", isResult,
						"the deferred function literal stores an error into "+name+", which is not a named result of "+load.ShortName(parent)+": the error (of a final flush, a close) never reaches the caller")
				}
			}
		}
	}
}

// overwrittenInLoop: the error of a call inside a loop that is neither tested nor handed on within the loop, but only
// carried to the next iteration (a loop-header phi, or a variable stored again by the next call), is overwritten by
// the outcome of the next iteration: only the last element's error reaches the code after the loop.
func overwrittenInLoop(f *ssa.Function, call *ssa.Call) string {
	l := paths.Info(f).InnermostLoop(call.Block())
	if l == nil {
		return ""
	}
	ev := errorValue(call)
	if ev == nil {
		return ""
	}
	inLoop := func(in ssa.Instruction) bool { return in.Block() != nil && l.Body[in.Block()] }
	var usedInLoop func(v ssa.Value, depth int) bool
	usedInLoop = func(v ssa.Value, depth int) bool {
		if depth > 4 {
			return true
		}
		for _, r := range *v.Referrers() {
			switch t := r.(type) {
			case *ssa.DebugRef:
			case *ssa.Phi:
				if inLoop(t) && t.Block() != l.Header && usedInLoop(t, depth+1) {
					return true
				}
			case *ssa.Store:
				// a variable: is it read inside the loop?
				if a, ok := t.Addr.(*ssa.Alloc); ok && t.Val == v {
					for _, r2 := range *a.Referrers() {
						if u, ok := r2.(*ssa.UnOp); ok && inLoop(u) && usedInLoop(u, depth+1) {
							return true
						}
					}
					continue
				}
				return true
			case *ssa.MakeInterface:
				if usedInLoop(t, depth+1) {
					return true
				}
			default:
				if inLoop(r) {
					return true // compared, returned, passed on ... within the loop
				}
			}
		}
		return false
	}
	if usedInLoop(ev, 0) {
		return ""
	}
	return "the error of this call, made inside a loop, is only carried over to the next iteration, where the next call overwrites it: a failure on any element but the last one is lost"
}

func errorValue(call *ssa.Call) ssa.Value {
	n := call.Call.Signature().Results().Len()
	if n == 1 {
		return call
	}
	for _, r := range *call.Referrers() {
		if e, ok := r.(*ssa.Extract); ok && e.Index == n-1 {
			return e
		}
	}
	return nil
}

func hasUse(v ssa.Value) bool {
	for _, r := range *v.Referrers() {
		if _, dbg := r.(*ssa.DebugRef); !dbg {
			return true
		}
	}
	return false
}

func errorHandled(x *Ctx, f *ssa.Function, call *ssa.Call) (bool, string) {
	ev := errorValue(call)
	ps := x.pathsQuiet(f)
	if ps == nil {
		return false, "function cannot be path-enumerated"
	}
	through := func(p *paths.Path) bool { return p.InBlock(call.Block()) }
	failing := func(p *paths.Path) bool {
		switch p.End {
		case paths.EndPanic:
			return true
		case paths.EndReturn:
			if len(p.Results()) == 0 {
				return false
			}
			if o, _ := p.ErrorOutcome(); o == paths.Failure || o == paths.Delegated {
				return true
			}
			if known, val, _, _ := p.BoolResult(0); known && !val && boolIndexOf(f) == 0 {
				return true
			}
		}
		return false
	}
	if ev == nil || !hasUse(ev) {
		// dropped: acceptable only where the function fails anyway
		for _, p := range ps {
			if through(p) && !failing(p) {
				return false, "the error is discarded and the function can still succeed:\n" + p.String()
			}
		}
		return true, ""
	}
	for _, p := range ps {
		if !through(p) {
			continue
		}
		e := p.Term(ev)
		if e == nil || e.IsNil() {
			continue // a helper enumerated in place: on this path it returned no error
		}
		pol, tested := p.FactOn(eqs(e.String(), "const(nil)"))
		if tested && pol {
			continue
		}
		if failing(p) {
			continue
		}
		untested := !tested
		if untested && (p.End != paths.EndReturn || !returnsError(f.Signature)) {
			// the path stops at a loop latch (what happens to the error is decided on the paths that go on), or the
			// function has no error of its own to report (a deferred literal: covered by the named-result rule)
			continue
		}
		// io.EOF as clean end of a section iteration (documented)
		if p.HasFact(eqs("*global(io.EOF)", e.String()), true) {
			continue
		}
		// handed to the consumer of an iterator
		handed := false
		for _, c := range p.Calls() {
			ct := p.Term(c)
			if ct.Op == "dyncall" {
				for _, a := range ct.Args[1:] {
					if a.String() == e.String() {
						handed = true
					}
				}
			}
		}
		// stored (latched) for a later report
		p.Instrs(func(in ssa.Instruction) {
			if st, ok := in.(*ssa.Store); ok && p.Term(st.Val).String() == e.String() {
				handed = true
			}
		})
		// returned as the error result although outcome classification saw another shape
		if p.End == paths.EndReturn {
			for _, r := range p.Results() {
				if r.Contains(e.String()) {
					handed = true
				}
			}
		}
		if !handed && untested {
			// looked at in some other way (errors.Is, a comparison with a sentinel, a call that receives it)?
			for _, fc := range p.Facts {
				if fc.Atom.Contains(e.String()) {
					handed = true
				}
			}
			for _, c := range p.Calls() {
				for _, a := range p.Term(c).Args {
					if a != nil && a.Contains(e.String()) {
						handed = true
					}
				}
			}
			if !handed {
				return false, "on this path the error is neither looked at nor passed on, and the function succeeds:\n" + p.String()
			}
		}
		if !handed {
			return false, "the error is tested but a non-nil error does not make the function fail:\n" + p.String()
		}
	}
	return true, ""
}

func boolIndexOf(f *ssa.Function) int {
	res := f.Signature.Results()
	for i := 0; i < res.Len(); i++ {
		if b, ok := res.At(i).Type().Underlying().(*types.Basic); ok && b.Kind() == types.Bool {
			return i
		}
	}
	return -1
}

func ldReadRules(x *Ctx, f *ssa.Function) {
	ps := x.pathsQuiet(f)
	type src struct{ name, term string }
	var uv, rf, pk string
	for _, p := range ps {
		for _, c := range p.Calls() {
			ct := p.Term(c)
			switch ct.Name {
			case "encoding/binary.ReadUvarint":
				uv = ct.String() + "#1"
			case "io.ReadFull":
				rf = ct.String() + "#1"
			case "(*bufio.Reader).Peek":
				pk = ct.String() + "#1"
			}
		}
	}
	for _, s := range []src{{"ReadUvarint", uv}, {"ReadFull", rf}} {
		if s.term == "" {
			x.C.Unresolved("C18.R2", "call:"+s.name, x.pos(f), "ldRead no longer calls "+s.name)
			continue
		}
		ok, n := true, 0
		detail := ""
		for _, p := range ps {
			pol, has := p.FactOn(eqs("const(nil)", s.term))
			if !has || pol || p.End != paths.EndReturn {
				continue
			}
			n++
			errR := p.Results()[1].String()
			eofPol, eofTested := p.FactOn(eqs("*global(io.EOF)", s.term))
			switch {
			case !eofTested:
				ok = false
				detail += "a failing " + s.name + " is returned without testing for io.EOF (a cut inside a section would look like a clean end)\n"
			case eofPol && errR != "*global(io.ErrUnexpectedEOF)":
				ok = false
				detail += "io.EOF from " + s.name + " is returned as " + errR + "\n"
			case !eofPol && errR != s.term:
				ok = false
				detail += "another error of " + s.name + " is returned as " + errR + "\n"
			}
		}
		x.C.Obl("C18.R2", "eof-inside-section:"+s.name, x.pos(f), "io.EOF from "+s.name+" becomes io.ErrUnexpectedEOF; other errors are returned unchanged", ok && n >= 2, detail)
	}
	if pk != "" {
		ok := false
		for _, p := range ps {
			if pol, has := p.FactOn(eqs("const(nil)", pk)); has && !pol && p.End == paths.EndReturn && p.Results()[1].String() == pk {
				ok = true
			}
		}
		x.C.Obl("C18.R2", "clean-end:Peek", x.pos(f), "only the error of the initial Peek (no more sections) propagates unchanged", ok, "")
	}
	// size checks
	x.noPath("C18.R2", "zero-size", f, paths.WantSuccess, paths.ValueIs("call[encoding/binary.ReadUvarint](arg0)#0", 0), 0, "a zero-length section is rejected")
	// closed world: a section is refused only because a read failed, because its length is zero, or because it is
	// above the size cap. Any other refusal (a comparison with what happens to be buffered, with a Len() of the
	// source) refuses containers the writer produces.
	{
		bad, n := "", 0
		for _, p := range x.pathsQuiet(f) {
			if p.End != paths.EndReturn {
				continue
			}
			if o, _ := p.ErrorOutcome(); o == paths.Success {
				continue
			}
			n++
			explained := false
			for _, fc := range p.Facts {
				a := fc.Atom
				if xx := paths.NilCheckOf(a); xx != nil && !fc.Pol && xx.Op == "extract" && len(xx.Args) == 1 && (xx.Args[0].Op == "call" || xx.Args[0].Op == "invoke") && !strings.HasPrefix(xx.Args[0].Name, "pkg/container.") {
					explained = true // a read of the underlying stream failed
				}
				if fc.Pol && a.Op == "eq" && len(a.Args) == 2 && (a.Args[1].IsConst("0") || a.Args[0].IsConst("0")) && strings.Contains(a.String(), "ReadUvarint") {
					explained = true // zero length
				}
				if fc.Pol && a.Op == "lt" && strings.Contains(a.String(), "maxAllowedSectionSize") {
					explained = true // above the cap
				}
			}
			if !explained {
				bad += "ldRead refuses a section for another reason than a failed read, a zero length or the size cap:\n" + p.String() + "\n"
			}
		}
		x.C.Obl("C18.R2", "no-other-refusal:ldRead", x.pos(f), "a section is refused only for a failed read, a zero length or a length above the cap", bad == "" && n >= 4, firstLines(bad, 12))
	}
}
