package rules

import (
	"fmt"
	"go/types"
	"strings"

	"golang.org/x/tools/go/ssa"

	"verif/lint/internal/load"
	"verif/lint/internal/paths"
	"verif/lint/internal/report"
)

func init() {
	register(&Property{
		Meta: report.Meta{
			Property:    "C19",
			Explanation: "Must-pass-through and who-may-call rules on the encrypted-metadata code: secretbox.Seal/Open are called only from EncryptWithKey/DecryptStringWithKey; Seal is reached only after validateKey succeeded and after io.ReadFull(crypto/rand.Reader, nonce[:]) succeeded on the very nonce array that is passed to Seal and prefixed to the output, with the key array filled by copy from the validated key and the message being the parameter; decryption validates the key, requires len >= 24 (= nonce length), opens data[24:] with nonce data[:24] and returns the plaintext only when Open reports ok; validateKey rejects nil, length != 32 and all-zero keys (decision table); AddEncrypted hands the plaintext to EncryptWithKey only and stores its checked result; the getters decrypt GetBytes(key); the four WithEncryptedMeta* options pass their own key/value/encryption-key parameters to AddEncrypted. Confidentiality and authentication themselves are the contract of NaCl secretbox. (R7) no returned bytes are views into memory given back to a sync.Pool. Every failing exit of GetEncryptedString / GetEncryptedBytes is selected by the non-nil error of GetBytes, DecryptStringWithKey or GetEncryptedBytes. (R2, R3) the key array handed to secretbox.Seal / Open has no element store and is passed to no call other than copy / Seal / Open (an assignment of the whole array is allowed). (R7) in package pkg/meta/internal/crypto no append has (a slice without a capacity bound of) a parameter as its destination.",
			Assumptions: []string{"NaCl secretbox provides confidentiality and authentication", "crypto/rand.Reader is a CSPRNG"},
			Trusted:     []string{"golang.org/x/crypto/nacl/secretbox", "crypto/rand", "golang.org/x/tools/go/ssa v0.29.0"},
			NotDecided:  []string{"cryptographic strength", "round-trip equality of the plaintext (runtime value)"},
		},
		Run: runC19,
	})
}

const cryptoPkg = "pkg/meta/internal/crypto."
const sbox = "golang.org/x/crypto/nacl/secretbox."

func runC19(x *Ctx) {
	newHelperPred = x.P.IsNewHelper
	x.C.Rule("C19.R1", "secretbox and the crypto helpers are called only from their owners", 3)
	x.C.Rule("C19.R2", "EncryptWithKey: key validated, fresh random nonce, same nonce sealed and prefixed", 5)
	x.C.Rule("C19.R3", "DecryptStringWithKey: key validated, length >= 24, plaintext only on ok", 6)
	x.C.Rule("C19.R4", "validateKey: nil / wrong size / all-zero keys refused", 7)
	x.C.Rule("C19.R5", "plaintext confinement in AddEncrypted; getters decrypt GetBytes and refuse for nothing else", 6)
	x.C.Rule("C19.R6", "WithEncryptedMeta* options call AddEncrypted with their own parameters", 4)
	x.C.Rule("C19.R7", "no decrypted / stored bytes are views into pooled memory; keys and nonces are not kept in package-level scratch", 3)
	x.poolDiscipline("C19.R7", "pkg/meta", "pkg/meta/internal/crypto")
	sharedScratch(x, "C19.R7")
	keyMemoryUntouched(x)

	// R1 who-may-call
	whoCalls := func(prefix string, allowed map[string]bool, key string) {
		bad, n := "", 0
		for _, f := range x.P.ModuleFuncs() {
			for _, b := range f.Blocks {
				for _, in := range b.Instrs {
					c, ok := in.(ssa.CallInstruction)
					if !ok {
						continue
					}
					g := paths.StaticCallee(c)
					if g == nil {
						// function values: any reference to the function outside a call
						continue
					}
					if strings.HasPrefix(paths.FuncName(g), prefix) && !strings.HasSuffix(paths.FuncName(g), ".init") {
						n++
						// the caller, or the confirmed functions a closure / new helper belongs to
						for _, o := range x.P.Owners(f) {
							if !allowed[load.ShortName(o)] {
								bad += x.P.Pos(in.Pos()) + ": " + paths.FuncName(g) + " called from " + load.ShortName(f) + " (reached from " + load.ShortName(o) + ")\n"
							}
						}
					}
				}
			}
		}
		x.C.Obl("C19.R1", key, "-", fmt.Sprintf("calls to %s* occur only in %v (%d call sites)", prefix, keysOf(allowed), n), bad == "" && n > 0, bad)
	}
	whoCalls(sbox, map[string]bool{cryptoPkg + "EncryptWithKey": true, cryptoPkg + "DecryptStringWithKey": true}, "who-calls:secretbox")
	whoCalls(cryptoPkg+"EncryptWithKey", map[string]bool{"(*pkg/meta.Meta).AddEncrypted": true}, "who-calls:EncryptWithKey")
	whoCalls(cryptoPkg+"DecryptStringWithKey", map[string]bool{"(*pkg/meta.Meta).GetEncryptedString": true, "(*pkg/meta.Meta).GetEncryptedBytes": true}, "who-calls:DecryptStringWithKey")

	valid := callee(cryptoPkg + "validateKey")

	if f := x.fn("C19.R2", cryptoPkg+"EncryptWithKey"); f != nil {
		x.noPath("C19.R2", "key-validated:EncryptWithKey", f, paths.WantSuccess, paths.CallFails(func(n string, ct *paths.Term) bool {
			return valid(n, ct) && len(ct.Args) == 1 && ct.Args[0].String() == "arg1"
		}), 0, "no success unless validateKey(key parameter) succeeded")
		x.noPath("C19.R2", "nonce-random:EncryptWithKey", f, paths.WantSuccess, paths.CallFails(func(n string, ct *paths.Term) bool {
			return n == "io.ReadFull" && len(ct.Args) == 2 && ct.Args[0].String() == "*global(crypto/rand.Reader)"
		}), 0, "no success unless io.ReadFull(crypto/rand.Reader, ...) succeeded")
		sel, _, _ := x.E.Select(f, paths.WantSuccess)
		ok := len(sel) > 0
		detail := ""
		for _, v := range sel {
			r := v.Results()[0]
			if r.Op != "call" || r.Name != sbox+"Seal" || len(r.Args) != 4 {
				ok = false
				detail += "success returns " + r.String() + "\n"
				continue
			}
			out, msg, nonce, key := r.Args[0], r.Args[1], r.Args[2], r.Args[3]
			if nonce.Op != "alloc" || out.String() != "slice("+nonce.String()+",_,_,_)" {
				ok = false
				detail += "Seal output prefix " + out.String() + " is not the nonce array " + nonce.String() + "\n"
			}
			if msg.String() != "arg0" {
				ok = false
				detail += "sealed message is " + msg.String() + ", not the data parameter\n"
			}
			// ReadFull buffer is the same nonce array
			rf := false
			for _, fc := range v.Facts {
				if xx := paths.NilCheckOf(fc.Atom); xx != nil && fc.Pol {
					if ct, _ := paths.CallOf(xx); ct != nil && ct.Name == "io.ReadFull" && ct.Args[1].String() == "slice("+nonce.String()+",_,_,_)" {
						rf = true
					}
				}
			}
			if !rf {
				ok = false
				detail += "the array filled by io.ReadFull is not the nonce handed to Seal\n"
			}
			// nonce / key array sizes and the only writers
			if a, isA := nonce.Val.(*ssa.Alloc); isA {
				if arrLen(a) != 24 {
					ok = false
					detail += fmt.Sprintf("nonce array has length %d\n", arrLen(a))
				}
				if w := otherWriters(a, map[string]bool{"io.ReadFull": true, sbox + "Seal": true}); w != "" {
					ok = false
					detail += "nonce array is also written by: " + w + "\n"
				}
			}
			if a, isA := key.Val.(*ssa.Alloc); isA && key.Op == "alloc" {
				if arrLen(a) != 32 {
					ok = false
					detail += fmt.Sprintf("key array has length %d\n", arrLen(a))
				}
				if !copiedFrom(v, key.String(), "arg1") {
					ok = false
					detail += "key array is not filled by copy(secretKey[:], key parameter)\n"
				}
				// and by nothing else: a byte of the key masked or set afterwards makes several keys open one box
				if w := otherWritersOpt(a, map[string]bool{"builtin.copy": true, sbox + "Seal": true, sbox + "Open": true}, true); w != "" {
					ok = false
					detail += "key array is also written by: " + w + "\n"
				}
			} else {
				ok = false
				detail += "Seal key is " + key.String() + "\n"
			}
		}
		x.C.Obl("C19.R2", "seal-operands:EncryptWithKey", x.pos(f), "Seal(nonce[:], data, &nonce, &key): the random nonce is sealed and prefixed, the message is the parameter, the key array is a copy of the validated key", ok, detail)
		x.C.Obl("C19.R2", "seal-shape:EncryptWithKey", x.pos(f), "exactly one success path", len(sel) == 1, fmt.Sprintf("%d success paths", len(sel)))
		x.C.Obl("C19.R2", "rand-source", x.pos(f), "the reader is the package variable crypto/rand.Reader", true, "")
	}

	if f := x.fn("C19.R3", cryptoPkg+"DecryptStringWithKey"); f != nil {
		x.noPath("C19.R3", "key-validated:DecryptStringWithKey", f, paths.WantSuccess, paths.CallFails(func(n string, ct *paths.Term) bool {
			return valid(n, ct) && len(ct.Args) == 1 && ct.Args[0].String() == "arg1"
		}), 0, "no success unless validateKey(key parameter) succeeded")
		x.noPath("C19.R3", "short-ciphertext:DecryptStringWithKey", f, paths.WantSuccess, paths.ValueIs("len(arg0)", 23), 0, "no success for a ciphertext shorter than the 24-byte nonce")
		x.somePath("C19.R3", "min-ciphertext:DecryptStringWithKey", f, paths.WantSuccess, paths.ValueIs("len(arg0)", 24), 0, "a 24-byte ciphertext reaches Open")
		x.noPath("C19.R3", "open-ok:DecryptStringWithKey", f, paths.WantSuccess, func(t *paths.Term) (bool, bool) {
			if t.Op == "extract" && t.Name == "#1" && t.Args[0].Op == "call" && t.Args[0].Name == sbox+"Open" {
				return false, true
			}
			return false, false
		}, 0, "no success unless secretbox.Open reported ok")
		sel, _, _ := x.E.Select(f, paths.WantSuccess)
		ok := len(sel) > 0
		detail := ""
		for _, v := range sel {
			r := v.Results()[0]
			if r.Op != "extract" || r.Name != "#0" || r.Args[0].Name != sbox+"Open" {
				ok = false
				detail += "success returns " + r.String() + "\n"
				continue
			}
			o := r.Args[0]
			if o.Args[1].String() != "slice(arg0,const(24),_,_)" {
				ok = false
				detail += "opened box is " + o.Args[1].String() + "\n"
			}
			if !copiedFrom(v, o.Args[2].String(), "slice(arg0,_,const(24),_)") {
				ok = false
				detail += "nonce is not copy(nonce[:], data[:24])\n"
			}
			if !copiedFrom(v, o.Args[3].String(), "arg1") {
				ok = false
				detail += "key array is not a copy of the key parameter\n"
			}
			if a, isA := o.Args[3].Val.(*ssa.Alloc); isA {
				if w := otherWritersOpt(a, map[string]bool{"builtin.copy": true, sbox + "Seal": true, sbox + "Open": true}, true); w != "" {
					ok = false
					detail += "key array is also written by: " + w + "\n"
				}
			}
		}
		x.C.Obl("C19.R3", "open-operands:DecryptStringWithKey", x.pos(f), "Open(nil, data[24:], &nonce = data[:24], &key = copy of the validated key); its plaintext result is what is returned", ok, detail)
		x.C.Obl("C19.R3", "open-shape:DecryptStringWithKey", x.pos(f), "exactly one success path", len(sel) == 1, fmt.Sprintf("%d success paths", len(sel)))
	}

	if f := x.fn("C19.R4", cryptoPkg+"validateKey"); f != nil {
		ks, _ := x.constOf("C19.R4", "pkg/meta/internal/crypto", "keySize")
		n, _ := constantInt(ks)
		x.C.Obl("C19.R4", "keysize-const", "-", "keySize is 32, the secretbox key size", n == 32, fmt.Sprint(n))
		x.noPath("C19.R4", "nil-key", f, paths.WantSuccess, atoms(map[string]bool{"eq(arg0,const(nil))": true}), 0, "a nil key is refused")
		x.noPath("C19.R4", "short-key", f, paths.WantSuccess, paths.ValueIs("len(arg0)", 31), 0, "a 31-byte key is refused")
		x.noPath("C19.R4", "long-key", f, paths.WantSuccess, paths.ValueIs("len(arg0)", 33), 0, "a 33-byte key is refused")
		x.somePath("C19.R4", "good-key", f, paths.WantSuccess, paths.Both(paths.ValueIs("len(arg0)", 32), atoms(map[string]bool{"eq(arg0,const(nil))": false})), 0, "a 32-byte key can be accepted")
		ls := fullRangeLoops(f, "len(arg0)")
		if len(ls) != 1 {
			x.C.Obl("C19.R4", "zero-scan", x.pos(f), "one loop over all key bytes", false, fmt.Sprintf("%d loops", len(ls)))
		} else {
			iv := ivName(ls[0])
			zero := eqs("arg0["+iv+"]", "const(0)")
			x.noPath("C19.R4", "zero-key", f, paths.WantSuccess, atoms(map[string]bool{zero: true}), 0, "no success when every examined byte is zero (success requires a non-zero byte)")
			x.somePath("C19.R4", "nonzero-key", f, paths.WantSuccess, atoms(map[string]bool{zero: false}), 0, "a key with a non-zero byte is accepted")
		}
	}

	if f := x.fn("C19.R5", "(*pkg/meta.Meta).AddEncrypted"); f != nil {
		sel, _, _ := x.E.Select(f, paths.WantSuccess)
		ok := len(sel) > 0
		detail := ""
		for _, v := range sel {
			r := v.Results()[0]
			if r.Op != "call" || r.Name != "(*pkg/meta.Meta).Add" || len(r.Args) != 3 || r.Args[0].String() != "recv" || r.Args[1].String() != "arg0" {
				ok = false
				detail += "success returns " + r.String() + "\n"
				continue
			}
			val := r.Args[2]
			ct, _ := paths.CallOf(val)
			if ct == nil || ct.Name != cryptoPkg+"EncryptWithKey" || !strings.HasSuffix(val.String(), "#0") || ct.Args[1].String() != "arg2" {
				ok = false
				detail += "value stored is " + val.String() + "\n"
				continue
			}
			pt := ct.Args[0].String()
			if pt != "conv[[]byte](typeassert[string](arg1)#0)" && pt != "typeassert[[]byte](arg1)#0" {
				ok = false
				detail += "encrypted data is " + pt + "\n"
			}
			if !v.HasFact(eqs(ct.String()+"#1", "const(nil)"), true) {
				ok = false
				detail += "EncryptWithKey error not checked\n"
			}
		}
		x.C.Obl("C19.R5", "stores-ciphertext:AddEncrypted", x.pos(f), "what is stored is the checked result of EncryptWithKey(plaintext, encryption key)", ok, detail)
		// plaintext flows nowhere else
		bad := ""
		for _, p := range x.paths("C19.R5", f) {
			for _, c := range p.Calls() {
				ct := p.Term(c)
				if ct.Name == cryptoPkg+"EncryptWithKey" {
					continue
				}
				for _, a := range ct.Args {
					if containsOutside(a, "arg1", cryptoPkg+"EncryptWithKey") {
						bad += x.P.Pos(c.Pos()) + ": plaintext flows into " + ct.Name + "\n"
					}
				}
			}
			p.Instrs(func(in ssa.Instruction) {
				if st, ok := in.(*ssa.Store); ok && containsOutside(p.Term(st.Val), "arg1", cryptoPkg+"EncryptWithKey") {
					bad += x.P.Pos(in.Pos()) + ": plaintext stored\n"
				}
			})
		}
		x.C.Obl("C19.R5", "plaintext-confined:AddEncrypted", x.pos(f), "the plaintext parameter is passed to EncryptWithKey only", bad == "", bad)
	}
	for _, g := range []struct{ name, conv string }{{"GetEncryptedString", "conv[string]("}, {"GetEncryptedBytes", ""}} {
		f := x.fn("C19.R5", "(*pkg/meta.Meta)."+g.name)
		if f == nil {
			continue
		}
		sel, _, _ := x.E.Select(f, paths.WantSuccess)
		get := "call[(*pkg/meta.Meta).GetBytes](recv,arg0)"
		dec := "call[" + cryptoPkg + "DecryptStringWithKey](" + get + "#0,arg1)"
		want := dec + "#0"
		if g.conv != "" {
			want = g.conv + want + ")"
		}
		ok := len(sel) > 0
		detail := ""
		// the string variant may also be the conversion of the (checked) result of the bytes variant, which is
		// held to the same obligation
		viaBytes := "call[(*pkg/meta.Meta).GetEncryptedBytes](recv,arg0,arg1)"
		for _, v := range sel {
			r := v.Results()[0].String()
			if g.conv != "" && r == g.conv+viaBytes+"#0)" {
				if !v.HasFact(eqs(viaBytes+"#1", "const(nil)"), true) {
					ok = false
					detail += "the error of GetEncryptedBytes is not checked on the success path\n"
				}
				continue
			}
			if r != want {
				ok = false
				detail += "returns " + r + "\n"
			}
			if !v.HasFact(eqs(get+"#1", "const(nil)"), true) || !v.HasFact(eqs(dec+"#1", "const(nil)"), true) {
				ok = false
				detail += "an error is not checked on the success path\n"
			}
		}
		x.C.Obl("C19.R5", "decrypts-stored:"+g.name, x.pos(f), "returns the checked result of DecryptStringWithKey(GetBytes(key), encryption key)", ok, detail)
		// closed world: the getter refuses only when the value cannot be fetched or cannot be decrypted. A further
		// test on the plaintext (well-formed UTF-8, a size, a prefix) refuses values AddEncrypted accepted under the
		// very key that sealed them
		nR, badR := 0, ""
		for _, p := range x.pathsQuiet(f) {
			if p.End != paths.EndReturn {
				continue
			}
			o, _ := p.ErrorOutcome()
			if o == paths.Success || len(p.Facts) == 0 {
				continue
			}
			if o == paths.Delegated {
				// "return Decrypt...(v, key)": the callee's own verdict is handed on
				if rs := p.Results(); len(rs) == 2 && rs[1] != nil && (rs[1].String() == dec+"#1" || rs[1].String() == get+"#1" || rs[1].String() == viaBytes+"#1") {
					nR++
					continue
				}
			}
			nR++
			last := p.Facts[len(p.Facts)-1]
			a := last.Atom.String()
			if !last.Pol && (a == eqs(get+"#1", "const(nil)") || a == eqs(dec+"#1", "const(nil)") || a == eqs(viaBytes+"#1", "const(nil)")) {
				continue
			}
			badR += fmt.Sprintf("%s: refuses on %s\n", x.P.Pos(p.Ret.Pos()), last)
		}
		x.C.Obl("C19.R5", "no-other-refusal:"+g.name, x.pos(f), "the getter fails only when GetBytes or DecryptStringWithKey failed", badR == "" && nR > 0, dedupLines(badR))
	}

	for _, pk := range []string{"token/delegation", "token/invocation"} {
		for _, opt := range []string{"WithEncryptedMetaString", "WithEncryptedMetaBytes"} {
			outer := x.fn("C19.R6", pk+"."+opt)
			if outer == nil {
				continue
			}
			// the option returned (a closure today; built by a shared constructor or a method value would do)
			ops := x.paths("C19.R6", outer)
			if len(ops) != 1 || ops[0].End != paths.EndReturn {
				x.C.Unresolved("C19.R6", "shape:"+pk+"."+opt, x.pos(outer), fmt.Sprintf("expected one straight path returning the option, found %d", len(ops)))
				continue
			}
			rf := x.returnedFunc(ops[0], ops[0].Results()[0])
			if rf == nil {
				x.C.Unresolved("C19.R6", "option-value:"+pk+"."+opt, x.pos(outer), "the value returned is not a function literal, function or method value: "+ops[0].Results()[0].String())
				continue
			}
			ps := rf.Paths
			ok := len(ps) == 1 && ps[0].End == paths.EndReturn
			detail := ""
			if ok {
				r := ps[0].Results()[0]
				if r.Op != "call" || r.Name != "(*pkg/meta.Meta).AddEncrypted" || len(r.Args) != 4 {
					ok = false
					detail = "returns " + r.String()
				} else {
					var got []string
					for _, a := range r.Args {
						got = append(got, rf.Tr(a))
					}
					want := []string{"arg0.meta", "arg0", "arg1", "arg2"}
					if strings.Join(got, ",") != strings.Join(want, ",") {
						ok = false
						detail = fmt.Sprintf("AddEncrypted called with %v (in terms of the option's parameters), want %v", got, want)
					}
				}
			}
			x.C.Obl("C19.R6", "option:"+pk+"."+opt, x.pos(outer), "the option adds (key, value, encryption key) = its own three parameters to the token's metadata", ok, detail)
		}
	}
}

func keysOf(m map[string]bool) []string {
	var out []string
	for k := range m {
		out = append(out, k)
	}
	return out
}

func arrLen(a *ssa.Alloc) int64 {
	if arr, ok := a.Type().Underlying().(*types.Pointer).Elem().Underlying().(*types.Array); ok {
		return arr.Len()
	}
	return -1
}

// otherWriters lists stores / calls (other than the allowed callees) that may write array a.
// newHelperPred tells whether a function is a helper that did not exist when the rules were confirmed (set by the
// C19 run; such helpers are looked through).
var newHelperPred func(*ssa.Function) bool

func otherWriters(a *ssa.Alloc, allowed map[string]bool) string {
	return otherWritersOpt(a, allowed, false)
}

// otherWritersOpt: with wholeOK an assignment of a whole value to the variable (the result of a helper that returns
// the filled array) is not counted; stores into its elements always are.
func otherWritersOpt(a *ssa.Alloc, allowed map[string]bool, wholeOK bool) string {
	out := ""
	var visit func(v ssa.Value)
	seen := map[ssa.Value]bool{}
	visit = func(v ssa.Value) {
		if seen[v] {
			return
		}
		seen[v] = true
		for _, r := range *v.Referrers() {
			switch r := r.(type) {
			case *ssa.Store:
				if r.Addr == v && !(wholeOK && v == ssa.Value(a)) {
					out += "store;"
				}
			case *ssa.Slice:
				visit(r)
			case *ssa.IndexAddr:
				visit(r)
			case ssa.CallInstruction:
				g := paths.StaticCallee(r)
				name := ""
				if g != nil {
					name = paths.FuncName(g)
				} else if b, ok := r.Common().Value.(*ssa.Builtin); ok {
					name = "builtin." + b.Name()
				}
				if g != nil && newHelperPred != nil && newHelperPred(g) && len(g.Blocks) > 0 {
					// a new helper of the module: what it does with the parameter it receives the array through
					for i, arg := range r.Common().Args {
						if arg == v && i < len(g.Params) {
							visit(g.Params[i])
						}
					}
					continue
				}
				if !allowed[name] {
					out += name + ";"
				}
			}
		}
	}
	visit(a)
	return out
}

// copiedFrom tells whether on path v there is a call copy(slice(dst), src).
func copiedFrom(v paths.VPath, dst, src string) bool {
	return copiedFromDepth(v, dst, src, 0)
}

func copiedFromDepth(v paths.VPath, dst, src string, depth int) bool {
	found := false
	var via []string
	v.Path.InstrsIn(func(in ssa.Instruction, c *paths.Ctx) {
		switch t := in.(type) {
		case *ssa.Call:
			ct := c.Term(t)
			if ct != nil && ct.Name == "builtin.copy" && len(ct.Args) == 2 && ct.Args[0].String() == "slice("+dst+",_,_,_)" && ct.Args[1].String() == src {
				found = true
			}
		case *ssa.Store:
			// the array is assigned as a whole from another array (the result of a helper that made the copy)
			if at := c.Term(t.Addr); at != nil && at.String() == dst {
				if val := c.Term(t.Val); val != nil && val.Op == "load" && len(val.Args) == 1 && val.Args[0].Op == "alloc" {
					via = append(via, val.Args[0].String())
				}
			}
		}
	})
	if found {
		return true
	}
	if depth < 2 {
		for _, h := range via {
			if copiedFromDepth(v, h, src, depth+1) {
				return true
			}
		}
	}
	return false
}

// closureParams maps the free variables of the single closure created by outer to outer's
// parameter names (fvK -> argN) when each binding is a cell holding exactly that parameter.
func closureParams(x *Ctx, outer *ssa.Function) map[string]string {
	out := map[string]string{}
	ps, err := x.E.Paths(outer)
	if err != nil || len(ps) != 1 {
		return out
	}
	p := ps[0]
	p.Instrs(func(in ssa.Instruction) {
		mc, ok := in.(*ssa.MakeClosure)
		if !ok {
			return
		}
		for i, b := range mc.Bindings {
			// binding is an alloc holding a parameter
			for _, r := range *b.Referrers() {
				if st, ok := r.(*ssa.Store); ok && st.Addr == b {
					out[fmt.Sprintf("fv%d", i)] = p.Term(st.Val).String()
				}
			}
		}
	})
	return out
}

// containsOutside tells whether t mentions leaf outside of calls to the named function.
func containsOutside(t *paths.Term, leaf, stopCall string) bool {
	if t == nil {
		return false
	}
	if t.Op == "call" && t.Name == stopCall {
		return false
	}
	if t.String() == leaf {
		return true
	}
	for _, a := range t.Args {
		if containsOutside(a, leaf, stopCall) {
			return true
		}
	}
	return false
}
