package rules

import (
	"fmt"
	"go/token"
	"go/types"
	"path/filepath"
	"sort"
	"strings"

	"golang.org/x/tools/go/ssa"

	"verif/lint/internal/load"
	"verif/lint/internal/paths"
)

// sharedScratch (C18.R4): no package-level buffer is written after initialisation. A package-level []byte,
// [N]byte (any array / slice of numbers), bytes.Buffer or strings.Builder that a function fills - a store
// through an index of it, the destination of copy / append / binary.Put* / Read / ReadFull / an argument named
// dst or buf, a mutating method of a buffer - is scratch memory shared by every call in the process: two
// overlapping calls overwrite each other's bytes and a sink that is handed a piece of it sees another call's
// data. Read-only tables (embedded schemas, constant headers) are fine.
func sharedScratch(x *Ctx, rule string) {
	bufferLike := func(t types.Type) bool {
		if p, ok := t.(*types.Pointer); ok {
			t = p.Elem()
		}
		if n, ok := t.(*types.Named); ok && n.Obj().Pkg() != nil {
			switch n.Obj().Pkg().Path() + "." + n.Obj().Name() {
			case "bytes.Buffer", "strings.Builder", "bufio.Writer", "bufio.Reader":
				return true
			}
		}
		var el types.Type
		switch u := t.Underlying().(type) {
		case *types.Array:
			el = u.Elem()
		case *types.Slice:
			el = u.Elem()
		case *types.Struct:
			// a struct of scratch arrays (key and nonce kept side by side)
			if n, ok := t.(*types.Named); ok && n.Obj().Pkg() != nil && !strings.HasPrefix(n.Obj().Pkg().Path(), load.Module) {
				return false
			}
			for i := 0; i < u.NumFields(); i++ {
				if a, ok := u.Field(i).Type().Underlying().(*types.Array); ok {
					if b, ok := a.Elem().Underlying().(*types.Basic); ok && b.Info()&types.IsNumeric != 0 {
						return true
					}
				}
			}
			return false
		default:
			return false
		}
		b, ok := el.Underlying().(*types.Basic)
		return ok && b.Info()&types.IsNumeric != 0
	}
	var fromGlobalRec func(v ssa.Value, seen map[ssa.Value]bool) *ssa.Global
	fromGlobal := func(v ssa.Value, _ int) *ssa.Global {
		switch v.(type) {
		case *ssa.Global, *ssa.Slice, *ssa.IndexAddr, *ssa.FieldAddr, *ssa.UnOp, *ssa.ChangeType, *ssa.Phi:
			return fromGlobalRec(v, map[ssa.Value]bool{})
		}
		return nil
	}
	fromGlobalRec = func(v ssa.Value, seen map[ssa.Value]bool) *ssa.Global {
		if seen[v] {
			return nil
		}
		seen[v] = true
		switch t := v.(type) {
		case *ssa.Global:
			if t.Pkg != nil && strings.HasPrefix(t.Pkg.Pkg.Path(), load.Module) && bufferLike(t.Type().(*types.Pointer).Elem()) {
				return t
			}
		case *ssa.Slice:
			return fromGlobalRec(t.X, seen)
		case *ssa.IndexAddr:
			return fromGlobalRec(t.X, seen)
		case *ssa.FieldAddr:
			return fromGlobalRec(t.X, seen)
		case *ssa.UnOp:
			return fromGlobalRec(t.X, seen)
		case *ssa.ChangeType:
			return fromGlobalRec(t.X, seen)
		case *ssa.Phi:
			for _, e := range t.Edges {
				if g := fromGlobalRec(e, seen); g != nil {
					return g
				}
			}
		}
		return nil
	}
	readOnlyMethods := map[string]bool{"Len": true, "String": true, "Bytes": true, "Cap": true, "Available": true, "Buffered": true, "Size": true}
	seen := map[string]bool{}
	bad := ""
	nf := 0
	for _, f := range x.P.ModuleFuncs() {
		if !x.P.IsLibrary(f) || len(f.Blocks) == 0 {
			continue
		}
		if f.Name() == "init" || (f.Parent() != nil && f.Parent().Name() == "init") {
			continue
		}
		nf++
		for _, b := range f.Blocks {
			for _, in := range b.Instrs {
				for _, op := range in.Operands(nil) {
					if *op == nil {
						continue
					}
					if g := fromGlobal(*op, 0); g != nil {
						seen[g.Pkg.Pkg.Path()+"."+g.Name()] = true
					}
				}
				switch t := in.(type) {
				case *ssa.Store:
					if g := fromGlobal(t.Addr, 0); g != nil {
						bad += fmt.Sprintf("%s: %s writes the package-level buffer %s\n", x.P.Pos(in.Pos()), load.ShortName(f), g.Name())
					}
				case ssa.CallInstruction:
					cc := t.Common()
					name := ""
					var params *types.Tuple
					if cc.IsInvoke() {
						name = cc.Method.Name()
						params = cc.Method.Type().(*types.Signature).Params()
					} else if bi, ok := cc.Value.(*ssa.Builtin); ok {
						name = "builtin." + bi.Name()
					} else if h := cc.StaticCallee(); h != nil {
						name = h.Name()
						params = h.Signature.Params()
						if h.Signature.Recv() != nil && len(cc.Args) > 0 {
							// a method of a package-level buffer
							if g := fromGlobal(cc.Args[0], 0); g != nil && !readOnlyMethods[name] {
								if _, isPtr := cc.Args[0].Type().(*types.Pointer); isPtr {
									bad += fmt.Sprintf("%s: %s calls %s on the package-level buffer %s\n", x.P.Pos(in.Pos()), load.ShortName(f), name, g.Name())
								}
							}
						}
					}
					for i, a := range cc.Args {
						g := fromGlobal(a, 0)
						if g == nil {
							continue
						}
						dst := false
						switch {
						case name == "builtin.copy" || name == "builtin.append" || name == "builtin.clear":
							dst = i == 0
						case cc.IsInvoke() && (name == "Read" || name == "Sum" || strings.HasPrefix(name, "Put") || strings.HasPrefix(name, "Append")):
							dst = i == 0
						case params != nil:
							pi := i
							if !cc.IsInvoke() && cc.StaticCallee() != nil && cc.StaticCallee().Signature.Recv() != nil {
								pi = i - 1
							}
							if pi >= 0 && pi < params.Len() {
								switch params.At(pi).Name() {
								case "dst", "buf":
									dst = true
								}
								if pi == 0 && (strings.HasPrefix(name, "Put") || strings.HasPrefix(name, "Append") || name == "Read" || name == "Sum") {
									dst = true
								}
							}
						}
						if dst {
							bad += fmt.Sprintf("%s: %s lets %s fill the package-level buffer %s\n", x.P.Pos(in.Pos()), load.ShortName(f), name, g.Name())
						}
					}
				}
			}
		}
	}
	var names []string
	for n := range seen {
		names = append(names, strings.TrimPrefix(n, load.Module+"/"))
	}
	sort.Strings(names)
	x.C.Obl(rule, "no-shared-scratch", "-", fmt.Sprintf("in %d library functions no package-level buffer is written after initialisation (buffers referenced: %s)", nf, strings.Join(names, ", ")), bad == "" && nf > 0, dedupLines(bad))
}

// ownedContainers (C20.R4): the argument and metadata containers of a token are its own. Every store into a
// field of a Token whose type is *args.Args or *meta.Meta stores a container built for the token - the result of
// a call (args.New, meta.NewMeta, Clone) or what a decoder put into the payload model - never a parameter or a
// captured variable of the function: an option that adopts the caller's container lets two tokens (or the token
// and its caller) share one mutable map.
func ownedContainers(x *Ctx) {
	isContainer := func(t types.Type) bool {
		p, ok := t.(*types.Pointer)
		if !ok {
			return false
		}
		n, ok := p.Elem().(*types.Named)
		if !ok || n.Obj().Pkg() == nil {
			return false
		}
		q := n.Obj().Pkg().Path() + "." + n.Obj().Name()
		return q == load.Module+"/pkg/args.Args" || q == load.Module+"/pkg/meta.Meta"
	}
	var origin func(v ssa.Value, seen map[ssa.Value]bool) string
	origin = func(v ssa.Value, seen map[ssa.Value]bool) string {
		if seen[v] {
			return ""
		}
		seen[v] = true
		switch t := v.(type) {
		case *ssa.Parameter:
			g := t.Parent()
			if g.Parent() == nil && !isExportedFunc(g) {
				// an unexported helper: what its callers hand over
				idx := -1
				for i, p := range g.Params {
					if p == t {
						idx = i
					}
				}
				edges := x.P.CallersOf(g)
				if idx >= 0 && len(edges) > 0 {
					for _, e := range edges {
						if e.Site == nil || idx >= len(e.Site.Common().Args) {
							return "the parameter " + t.Name()
						}
						if w := origin(e.Site.Common().Args[idx], seen); w != "" {
							return w
						}
					}
					return ""
				}
			}
			return "the parameter " + t.Name()
		case *ssa.FreeVar:
			return "the captured variable " + t.Name()
		case *ssa.Phi:
			for _, e := range t.Edges {
				if w := origin(e, seen); w != "" {
					return w
				}
			}
		case *ssa.ChangeType:
			return origin(t.X, seen)
		case *ssa.UnOp:
			switch a := t.X.(type) {
			case *ssa.Alloc:
				for _, r := range *a.Referrers() {
					if st, ok := r.(*ssa.Store); ok && st.Addr == ssa.Value(a) {
						if w := origin(st.Val, seen); w != "" {
							return w
						}
					}
				}
			case *ssa.FreeVar:
				// a captured cell: what its creator stored there
				if par := a.Parent().Parent(); par != nil {
					for _, b := range par.Blocks {
						for _, in := range b.Instrs {
							mc, ok := in.(*ssa.MakeClosure)
							if !ok || mc.Fn != ssa.Value(a.Parent()) {
								continue
							}
							for i, fv := range a.Parent().FreeVars {
								if fv == a && i < len(mc.Bindings) {
									if cell, ok := mc.Bindings[i].(*ssa.Alloc); ok {
										for _, r := range *cell.Referrers() {
											if st, ok := r.(*ssa.Store); ok && st.Addr == ssa.Value(cell) {
												if w := origin(st.Val, seen); w != "" {
													return w + " of " + par.Name()
												}
											}
										}
									}
								}
							}
						}
					}
				}
			case *ssa.Global:
				return "the package-level variable " + a.Name()
			}
		}
		return ""
	}
	for _, pk := range []string{"token/invocation", "token/delegation"} {
		n, bad := 0, ""
		for _, f := range x.P.ModuleFuncs() {
			if x.P.PkgPathOf(f) != load.Module+"/"+pk || len(f.Blocks) == 0 {
				continue
			}
			for _, b := range f.Blocks {
				for _, in := range b.Instrs {
					st, ok := in.(*ssa.Store)
					if !ok {
						continue
					}
					fa, ok := st.Addr.(*ssa.FieldAddr)
					if !ok || !isContainer(st.Val.Type()) {
						continue
					}
					sp, ok := fa.X.Type().Underlying().(*types.Pointer)
					if !ok {
						continue
					}
					nt, ok := sp.Elem().(*types.Named)
					if !ok || nt.Obj().Name() != "Token" {
						continue
					}
					n++
					if w := origin(st.Val, map[ssa.Value]bool{}); w != "" {
						fld := nt.Underlying().(*types.Struct).Field(fa.Field).Name()
						bad += fmt.Sprintf("%s: %s stores %s into the token's %s: the token shares a mutable container with its caller\n", x.P.Pos(in.Pos()), load.ShortName(f), w, fld)
					}
				}
			}
		}
		x.C.Obl("C20.R4", "owned-containers:"+pk, "-", fmt.Sprintf("each of the %d stores into the argument / metadata fields of a Token stores a container made for it", n), bad == "" && n > 0, dedupLines(bad))
	}
}

func isExportedFunc(g *ssa.Function) bool {
	if g.Object() == nil {
		return false
	}
	return g.Object().Exported()
}

// wholeStream (C18.R5): a stream entry point hands the caller's stream on whole. Every io.Reader / io.Writer that
// the stream-handling code gives to a function outside the module (a codec, bufio, base64, io.ReadFull ...) is the
// caller's own stream, one of the library's wrappers around it (CIDReader, CIDWriter, a type of the module), or the
// result of a constructor that passes every byte through (bufio, base64, bytes, hash). A limiting or sampling
// wrapper from the standard library (io.LimitReader, io.LimitedReader, io.SectionReader, io.MultiReader ...) makes the streaming variant see another stream than the buffered one.
func wholeStream(x *Ctx, S map[*ssa.Function]bool) {
	passThrough := map[string]bool{
		"bufio.NewReader": true, "bufio.NewReaderSize": true, "bufio.NewWriter": true, "bufio.NewWriterSize": true,
		"encoding/base64.NewDecoder": true, "encoding/base64.NewEncoder": true,
		"bytes.NewReader": true, "bytes.NewBuffer": true, "bytes.NewBufferString": true, "strings.NewReader": true,
		"crypto/sha256.New": true, "hash.Hash": true,
		// every byte read / written goes through unchanged (a copy is fed to the second argument)
		"io.TeeReader": true, "io.MultiWriter": true, "io.NopCloser": true,
	}
	var origin func(v ssa.Value, seen map[ssa.Value]bool) string
	origin = func(v ssa.Value, seen map[ssa.Value]bool) string {
		if seen[v] {
			return ""
		}
		seen[v] = true
		inModule := func(t types.Type) bool {
			if p, ok := t.(*types.Pointer); ok {
				t = p.Elem()
			}
			n, ok := t.(*types.Named)
			return ok && n.Obj().Pkg() != nil && strings.HasPrefix(n.Obj().Pkg().Path(), load.Module)
		}
		switch t := v.(type) {
		case *ssa.Parameter, *ssa.FreeVar, *ssa.Const, *ssa.Global:
			return ""
		case *ssa.MakeInterface:
			return origin(t.X, seen)
		case *ssa.ChangeInterface:
			return origin(t.X, seen)
		case *ssa.ChangeType:
			return origin(t.X, seen)
		case *ssa.TypeAssert:
			return origin(t.X, seen)
		case *ssa.Extract:
			return origin(t.Tuple, seen)
		case *ssa.Phi:
			for _, e := range t.Edges {
				if w := origin(e, seen); w != "" {
					return w
				}
			}
			return ""
		case *ssa.UnOp:
			if a, ok := t.X.(*ssa.Alloc); ok {
				for _, r := range *a.Referrers() {
					if st, ok := r.(*ssa.Store); ok && st.Addr == ssa.Value(a) {
						if w := origin(st.Val, seen); w != "" {
							return w
						}
					}
				}
			}
			return "" // a field of the receiver, a captured cell
		case *ssa.Alloc:
			if inModule(t.Type()) {
				return ""
			}
			bt := t.Type().(*types.Pointer).Elem()
			if n, ok := bt.(*types.Named); ok && n.Obj().Pkg() != nil {
				q := n.Obj().Pkg().Path() + "." + n.Obj().Name()
				if q == "bytes.Buffer" || q == "strings.Builder" || q == "bufio.Reader" || q == "bufio.Writer" {
					return ""
				}
				return "a " + q + " literal"
			}
			return ""
		case *ssa.Call:
			if h := t.Call.StaticCallee(); h != nil {
				if x.P.InModule(h) {
					return ""
				}
				name := paths.FuncName(h)
				if passThrough[name] {
					return ""
				}
				return "the result of " + name
			}
			return ""
		}
		return ""
	}
	n, bad := 0, ""
	var fns []*ssa.Function
	for f := range S {
		fns = append(fns, f)
	}
	sort.Slice(fns, func(i, j int) bool { return load.ShortName(fns[i]) < load.ShortName(fns[j]) })
	for _, f := range fns {
		for _, b := range f.Blocks {
			for _, in := range b.Instrs {
				c, ok := in.(ssa.CallInstruction)
				if !ok {
					continue
				}
				cc := c.Common()
				if h := cc.StaticCallee(); h != nil && x.P.InModule(h) {
					continue
				}
				for _, a := range cc.Args {
					if !implementsIO(x, a.Type()) {
						continue
					}
					if _, isIface := a.Type().Underlying().(*types.Interface); !isIface {
						if _, isPtr := a.Type().(*types.Pointer); !isPtr {
							continue
						}
					}
					n++
					if w := origin(a, map[ssa.Value]bool{}); w != "" {
						bad += fmt.Sprintf("%s: %s hands %s to %s instead of the caller's stream\n", x.P.Pos(in.Pos()), load.ShortName(f), w, calleeLabel(c))
					}
				}
			}
		}
	}
	x.C.Obl("C18.R5", "whole-stream", "-", fmt.Sprintf("each of the %d streams handed to code outside the module is the caller's stream, a wrapper of the module or a pass-through constructor of it", n), bad == "" && n >= 10, dedupLines(bad))
}

// cloneValues (C20.R4): what Clone puts into the clone's map is the value the original holds under that key (nodes
// are immutable, sharing them is fine) or a node built over storage of its own (bytes.Clone, slices.Clone,
// append onto nil). A node built over a piece of a larger buffer shares its spare capacity with its neighbours: an
// append to the bytes one entry hands out overwrites the next entry.
func cloneValues(x *Ctx) {
	for _, name := range []string{"(*pkg/args.Args).Clone", "(*pkg/meta.Meta).Clone"} {
		f := x.fn("C20.R4", name)
		if f == nil {
			continue
		}
		fns := []*ssa.Function{f}
		for _, b := range f.Blocks {
			for _, in := range b.Instrs {
				if c, ok := in.(ssa.CallInstruction); ok {
					if h := c.Common().StaticCallee(); h != nil && len(h.Blocks) > 0 && x.P.IsNewHelper(h) {
						fns = append(fns, h)
					}
				}
			}
		}
		var fresh func(v ssa.Value, seen map[ssa.Value]bool) string
		fresh = func(v ssa.Value, seen map[ssa.Value]bool) string {
			if seen[v] {
				return ""
			}
			seen[v] = true
			switch t := v.(type) {
			case *ssa.MakeInterface:
				return fresh(t.X, seen)
			case *ssa.ChangeInterface:
				return fresh(t.X, seen)
			case *ssa.ChangeType:
				return fresh(t.X, seen)
			case *ssa.Phi:
				for _, e := range t.Edges {
					if w := fresh(e, seen); w != "" {
						return w
					}
				}
				return ""
			case *ssa.Extract, *ssa.Lookup, *ssa.Parameter, *ssa.Const:
				return "" // the original's own value (range / lookup), handed over as it is
			case *ssa.UnOp:
				if a, ok := t.X.(*ssa.Alloc); ok {
					for _, r := range *a.Referrers() {
						if st, ok := r.(*ssa.Store); ok && st.Addr == ssa.Value(a) {
							if w := fresh(st.Val, seen); w != "" {
								return w
							}
						}
					}
				}
				return ""
			case *ssa.Call:
				h := t.Call.StaticCallee()
				if h == nil {
					if bi, ok := t.Call.Value.(*ssa.Builtin); ok && bi.Name() == "append" && len(t.Call.Args) == 2 {
						if c, ok := t.Call.Args[0].(*ssa.Const); ok && c.IsNil() {
							return ""
						}
						return "append onto an existing buffer"
					}
					return ""
				}
				n := paths.FuncName(h)
				switch {
				case n == "bytes.Clone", strings.HasPrefix(n, "slices.Clone"), n == "strings.Clone":
					return ""
				case strings.HasPrefix(n, "github.com/ipld/go-ipld-prime/node/basicnode.New"), strings.HasPrefix(n, load.Module+"/pkg/policy/literal."):
					for _, a := range t.Call.Args {
						if w := fresh(a, seen); w != "" {
							return w
						}
					}
					return ""
				}
				return ""
			case *ssa.Slice:
				return "a piece of a larger buffer (" + t.String() + ")"
			}
			return ""
		}
		n, bad := 0, ""
		for _, g := range fns {
			for _, b := range g.Blocks {
				for _, in := range b.Instrs {
					if c, isCall := in.(*ssa.Call); isCall {
						if h := c.Call.StaticCallee(); h != nil {
							if hn := paths.FuncName(h); strings.HasPrefix(hn, "maps.Copy") || strings.HasPrefix(hn, "maps.Clone") {
								n++ // the original's values handed over as they are
							}
						}
					}
					mu, ok := in.(*ssa.MapUpdate)
					if !ok {
						continue
					}
					n++
					if w := fresh(mu.Value, map[ssa.Value]bool{}); w != "" {
						bad += fmt.Sprintf("%s: the value stored into the clone is built over %s\n", x.P.Pos(in.Pos()), w)
					}
				}
			}
		}
		x.C.Obl("C20.R4", "clone-values:"+name, x.pos(f), fmt.Sprintf("each of the %d values put into the clone's map is the original's value or a node over storage of its own", n), bad == "" && n > 0, dedupLines(bad))
	}
}

// bytesPassedOn (C08.R2): between the bytes a byte-slice decoder is given and the codec nothing rewrites them. In
// packages token, delegation, invocation and envelope every []byte argument handed to ipld.Decode or to another
// decoder of the module is the function's own parameter (FromSealed hashes its parameter: what is decoded must be
// those very bytes; a trimming, transcoding or sniffing step in between makes the CID name other bytes than the
// ones the token was read from).
func bytesPassedOn(x *Ctx) {
	isBytes := func(t types.Type) bool {
		s, ok := t.Underlying().(*types.Slice)
		if !ok {
			return false
		}
		b, ok := s.Elem().Underlying().(*types.Basic)
		return ok && b.Kind() == types.Uint8
	}
	var own func(v ssa.Value, seen map[ssa.Value]bool) bool
	own = func(v ssa.Value, seen map[ssa.Value]bool) bool {
		if seen[v] {
			return true
		}
		seen[v] = true
		switch t := v.(type) {
		case *ssa.Parameter:
			return true
		case *ssa.ChangeType:
			return own(t.X, seen)
		case *ssa.Phi:
			for _, e := range t.Edges {
				if !own(e, seen) {
					return false
				}
			}
			return true
		case *ssa.UnOp:
			if a, ok := t.X.(*ssa.Alloc); ok {
				n := 0
				for _, r := range *a.Referrers() {
					if st, ok := r.(*ssa.Store); ok && st.Addr == ssa.Value(a) {
						n++
						if !own(st.Val, seen) {
							return false
						}
					}
				}
				return n > 0
			}
		}
		return false
	}
	pk := map[string]bool{load.Module + "/token": true, load.Module + "/token/delegation": true, load.Module + "/token/invocation": true, load.Module + "/token/internal/envelope": true}
	n, bad := 0, ""
	for _, f := range x.P.ModuleFuncs() {
		if !pk[x.P.PkgPathOf(f)] || len(f.Blocks) == 0 {
			continue
		}
		hasBytesParam := false
		for _, p := range f.Params {
			if isBytes(p.Type()) {
				hasBytesParam = true
			}
		}
		if !hasBytesParam {
			continue
		}
		for _, b := range f.Blocks {
			for _, in := range b.Instrs {
				c, ok := in.(*ssa.Call)
				if !ok {
					continue
				}
				h := c.Call.StaticCallee()
				if h == nil {
					continue
				}
				name := paths.FuncName(h)
				decoder := name == "github.com/ipld/go-ipld-prime.Decode" || name == "github.com/ipld/go-ipld-prime.Unmarshal"
				if x.P.InModule(h) && pk[x.P.PkgPathOf(h)] {
					switch h.Name() {
					case "Decode", "FromDagCbor", "FromDagJson", "FromSealed", "CIDFromBytes":
						decoder = true
					}
				}
				if !decoder {
					continue
				}
				for _, a := range c.Call.Args {
					if !isBytes(a.Type()) {
						continue
					}
					n++
					if !own(a, map[ssa.Value]bool{}) {
						bad += fmt.Sprintf("%s: %s hands %s bytes that are not its own parameter (%s)\n", x.P.Pos(in.Pos()), load.ShortName(f), name, a.String())
					}
				}
			}
		}
	}
	x.C.Obl("C08.R2", "bytes-passed-on", "-", fmt.Sprintf("each of the %d byte slices handed to a decoder or to the hash in the token packages is the caller's own parameter", n), bad == "" && n >= 8, dedupLines(bad))
}

// retainedConcat (C09.M2): a recursive function does not keep what it builds from its own result. A string or slice
// made by concatenating / appending to the result of the recursive call and stored into a field or a package-level
// variable is kept alive at every level: a path of depth n holds 1 + 2 + ... + n pieces, quadratic in the nesting
// depth of the input.
func retainedConcat(x *Ctx, fns []*ssa.Function) {
	n, bad := 0, ""
	for _, f := range fns {
		var selfCalls []*ssa.Call
		for _, b := range f.Blocks {
			for _, in := range b.Instrs {
				if c, ok := in.(*ssa.Call); ok && c.Call.StaticCallee() == f {
					selfCalls = append(selfCalls, c)
				}
			}
		}
		if len(selfCalls) == 0 {
			continue
		}
		n++
		var fromSelf func(v ssa.Value, seen map[ssa.Value]bool) bool
		fromSelf = func(v ssa.Value, seen map[ssa.Value]bool) bool {
			if seen[v] {
				return false
			}
			seen[v] = true
			switch t := v.(type) {
			case *ssa.Call:
				if t.Call.StaticCallee() == f {
					return true
				}
				if bi, ok := t.Call.Value.(*ssa.Builtin); ok && bi.Name() == "append" {
					for _, a := range t.Call.Args {
						if fromSelf(a, seen) {
							return true
						}
					}
				}
			case *ssa.Extract:
				return fromSelf(t.Tuple, seen)
			case *ssa.BinOp:
				return fromSelf(t.X, seen) || fromSelf(t.Y, seen)
			case *ssa.Phi:
				for _, e := range t.Edges {
					if fromSelf(e, seen) {
						return true
					}
				}
			case *ssa.Slice:
				return fromSelf(t.X, seen)
			case *ssa.ChangeType:
				return fromSelf(t.X, seen)
			}
			return false
		}
		for _, b := range f.Blocks {
			for _, in := range b.Instrs {
				st, ok := in.(*ssa.Store)
				if !ok {
					continue
				}
				switch st.Addr.(type) {
				case *ssa.FieldAddr, *ssa.Global, *ssa.IndexAddr:
				default:
					continue
				}
				bo, isConcat := st.Val.(*ssa.BinOp)
				_, isCall := st.Val.(*ssa.Call)
				if !(isConcat && bo.Op == token.ADD) && !isCall {
					continue
				}
				if _, direct := st.Val.(*ssa.Call); direct && st.Val.(*ssa.Call).Call.StaticCallee() == f {
					continue // the result itself, not something built on top of it
				}
				if fromSelf(st.Val, map[ssa.Value]bool{}) {
					bad += fmt.Sprintf("%s: %s keeps a value built on top of its own recursive result: every level of the recursion retains its own copy\n", x.P.Pos(in.Pos()), load.ShortName(f))
				}
			}
		}
	}
	x.C.Obl("C09.M2", "no-retained-concatenation", "-", fmt.Sprintf("none of the %d directly recursive functions stores a string / slice built on top of its own result", n), bad == "", dedupLines(bad))
}

// singleReads lists the calls of a Read([]byte) (int, error) method that are made once, outside a loop, by a
// function that is not itself a Read method: one Read returns what one chunk of the stream holds, so a function
// that fills a buffer of a known size with it succeeds or fails depending on how the bytes arrive.
func singleReads(fns []*ssa.Function) []string {
	var out []string
	for _, f := range fns {
		if len(f.Blocks) == 0 || f.Name() == "Read" {
			continue
		}
		// blocks that lie on a cycle
		inLoop := map[*ssa.BasicBlock]bool{}
		for _, b := range f.Blocks {
			seen := map[*ssa.BasicBlock]bool{}
			stack := append([]*ssa.BasicBlock{}, b.Succs...)
			for len(stack) > 0 {
				c := stack[len(stack)-1]
				stack = stack[:len(stack)-1]
				if c == b {
					inLoop[b] = true
					break
				}
				if seen[c] {
					continue
				}
				seen[c] = true
				stack = append(stack, c.Succs...)
			}
		}
		for _, b := range f.Blocks {
			for _, in := range b.Instrs {
				c, ok := in.(*ssa.Call)
				if !ok {
					continue
				}
				cc := c.Common()
				var sig *types.Signature
				name := ""
				if cc.IsInvoke() {
					name, sig = cc.Method.Name(), cc.Method.Type().(*types.Signature)
				} else if h := cc.StaticCallee(); h != nil && h.Signature.Recv() != nil {
					name, sig = h.Name(), h.Signature
				}
				if name != "Read" || sig == nil || sig.Params().Len() != 1 || sig.Results().Len() != 2 {
					continue
				}
				if s, ok := sig.Params().At(0).Type().Underlying().(*types.Slice); !ok || s.Elem().String() != "byte" {
					continue
				}
				if !inLoop[b] {
					out = append(out, load.ShortName(f)+"@"+fmt.Sprint(c.Pos()))
				}
			}
		}
	}
	return out
}

func noSingleReads(x *Ctx, S map[*ssa.Function]bool) {
	var fns []*ssa.Function
	for _, f := range x.P.ModuleFuncs() {
		rel := strings.TrimPrefix(x.P.PkgPathOf(f), load.Module+"/")
		if ioPkgs[rel] && x.P.IsLibrary(f) {
			fns = append(fns, f)
		}
	}
	bad := ""
	for _, s := range singleReads(fns) {
		i := strings.LastIndex(s, "@")
		var pos token.Pos
		fmt.Sscan(s[i+1:], (*int)(&pos))
		bad += fmt.Sprintf("%s: %s fills a buffer with a single Read: the outcome depends on how the stream is chunked (io.ReadFull reads until the buffer is full)\n", x.P.Pos(pos), s[:i])
	}
	x.C.Obl("C18.R5", "no-single-read", "-", fmt.Sprintf("in the %d functions of the stream-handling packages a Read is made in a loop, by a Read method, or through io.ReadFull", len(fns)), bad == "" && len(fns) > 0, dedupLines(bad))
	if canaryProg == nil {
		cp, err := load.Load(load.Options{Dir: filepath.Join(x.VerifDir, "lint", "testdata", "canary"), Module: "canary"})
		if err != nil {
			x.C.Unresolved("C18.R5", "single-read-canary-load", "-", err.Error())
			return
		}
		canaryProg = cp
	}
	got := map[string]bool{}
	for _, s := range singleReads(canaryProg.ModuleFuncs()) {
		n := s[:strings.LastIndex(s, "@")]
		got[n[strings.LastIndex(n, ".")+1:]] = true
	}
	x.C.Obl("C18.R5", "no-single-read:canary", "lint/testdata/canary/stream/stream.go", "the seeded single Read into a sized buffer is flagged; io.ReadFull, a read loop and a wrapper's Read method are not", len(got) == 1 && got["Header"], fmt.Sprint(got))
}

// gettersNeverNilNil (C09.P3): a getter of the container that reports success hands out a token. On every success
// path of GetToken / GetDelegation / GetInvocation the first result is not the nil constant, and when it is the
// value half of a comma-ok type assertion or map lookup the path knows the ok half to be true. invocation.loadProofs
// trusts a nil error: (nil, nil) for a CID that names another kind of token is dereferenced by verifyProofs.
func gettersNeverNilNil(x *Ctx) {
	for _, name := range []string{"GetToken", "GetDelegation", "GetInvocation"} {
		f := x.fn("C09.P3", "(pkg/container.Reader)."+name)
		if f == nil {
			continue
		}
		n, bad := 0, ""
		for _, p := range x.paths("C09.P3", f) {
			if p.End != paths.EndReturn || len(p.Results()) != 2 {
				continue
			}
			if o, _ := p.ErrorOutcome(); o != paths.Success {
				continue
			}
			n++
			r := p.Results()[0]
			if r == nil || r.IsNil() {
				bad += x.P.Pos(p.Ret.Pos()) + ": reports success with a nil token\n"
				continue
			}
			if t := r; t.Op == "extract" && t.Name == "#0" && len(t.Args) == 1 && (t.Args[0].Op == "typeassert" || t.Args[0].Op == "lookup") {
				ok := t.Args[0].String() + "#1"
				if !p.HasFact(ok, true) {
					bad += fmt.Sprintf("%s: hands out %s although the path does not know %s to hold\n", x.P.Pos(p.Ret.Pos()), firstLines(t.String(), 1), firstLines(ok, 1))
				}
			}
			if r.Op == "loopphi" && !p.HasFact(eqs(r.String(), "const(nil)"), false) {
				// a variable a loop fills: handed out only where it is known to be set
				bad += fmt.Sprintf("%s: hands out a variable filled by a loop without knowing it to be non-nil\n", x.P.Pos(p.Ret.Pos()))
			}
		}
		x.C.Obl("C09.P3", "never-nil-nil:(pkg/container.Reader)."+name, x.pos(f), "a success of the getter carries a token: not nil, and a comma-ok value only where ok holds", bad == "" && n > 0, dedupLines(bad))
	}
}

// noEarlyExit (C11.R3): a quantifier looks at every element. The loops of matchStatement (and of helpers its code
// was moved into) are left only by the loop test or by a return from inside: no break. A bound on the number of
// elements visited makes "all" true for a list whose violating element lies beyond it.
func noEarlyExit(x *Ctx) {
	root := x.fn("C11.R3", "pkg/policy.matchStatement")
	if root == nil {
		return
	}
	fns := []*ssa.Function{root}
	for g := range x.P.ReachFrom(root) {
		if g != root && x.P.IsNewHelper(g) && len(g.Blocks) > 0 {
			fns = append(fns, g)
		}
	}
	sort.Slice(fns, func(i, j int) bool { return load.ShortName(fns[i]) < load.ShortName(fns[j]) })
	n, bad := 0, ""
	for _, f := range fns {
		for _, l := range paths.Info(f).Loops {
			// the loops that evaluate statements: their body calls the evaluator
			evaluates := false
			for b := range l.Body {
				for _, in := range b.Instrs {
					if c, ok := in.(ssa.CallInstruction); ok && c.Common().StaticCallee() == root {
						evaluates = true
					}
				}
			}
			if !evaluates {
				continue
			}
			n++
			// the block the loop test leaves to
			var exit *ssa.BasicBlock
			for _, s := range l.Header.Succs {
				if !l.Body[s] {
					exit = s
				}
			}
			if exit == nil {
				continue
			}
			for _, pr := range exit.Preds {
				if pr != l.Header && l.Body[pr] {
					bad += fmt.Sprintf("%s: %s leaves a loop over the elements through a break (%s)\n", x.P.Pos(pr.Instrs[len(pr.Instrs)-1].Pos()), load.ShortName(f), exit.Comment)
				}
			}
		}
	}
	x.C.Obl("C11.R3", "no-early-exit:matchStatement", x.pos(root), fmt.Sprintf("each of the %d loops of the evaluator is left only by its loop test or by a return", n), bad == "" && n >= 1, dedupLines(bad))
}

// noClockOnSealing (C07.R5): whether a token can be sealed does not depend on when it is sealed. No function of the
// module reachable from the encoders (toIPLD of both token types) reads the clock: a token the constructor accepted
// and that could be sealed a minute ago must still seal now (the decoders accept expired tokens; only validity
// checks look at the time).
func noClockOnSealing(x *Ctx) {
	for _, pk := range []string{"token/delegation", "token/invocation"} {
		f := x.fn("C07.R5", "(*"+pk+".Token).toIPLD")
		if f == nil {
			continue
		}
		bad, n := "", 0
		for g := range x.P.ReachFrom(f) {
			n++
			for _, b := range g.Blocks {
				for _, in := range b.Instrs {
					if c, ok := in.(ssa.CallInstruction); ok {
						if h := c.Common().StaticCallee(); h != nil && h.Pkg != nil && h.Pkg.Pkg.Path() == "time" {
							switch h.Name() {
							case "Now", "Since", "Until":
								bad += fmt.Sprintf("%s: %s reads the clock (time.%s) on the sealing path\n", x.P.Pos(in.Pos()), load.ShortName(g), h.Name())
							}
						}
					}
				}
			}
		}
		x.C.Obl("C07.R5", "no-clock-on-sealing:"+pk, x.pos(f), fmt.Sprintf("none of the %d functions reachable from toIPLD reads the clock", n), bad == "" && n > 0, dedupLines(bad))
	}
}

// statelessUnmarshallers (C16.R5): the functions PubKey looks up to decode key material keep no state between calls.
// No function literal of package did stores through a variable it captured: a key struct allocated once outside the
// literal and filled in on every call is shared by all concurrent PubKey calls on keys of that curve.
func statelessUnmarshallers(x *Ctx) {
	n, bad := 0, ""
	for _, f := range x.P.ModuleFuncs() {
		if x.P.PkgPathOf(f) != load.Module+"/did" || f.Parent() == nil || len(f.Blocks) == 0 {
			continue
		}
		n++
		for _, b := range f.Blocks {
			for _, in := range b.Instrs {
				st, ok := in.(*ssa.Store)
				if !ok {
					continue
				}
				v := st.Addr
				for i := 0; i < 8; i++ {
					switch t := v.(type) {
					case *ssa.FieldAddr:
						v = t.X
						continue
					case *ssa.IndexAddr:
						v = t.X
						continue
					case *ssa.UnOp:
						v = t.X
						continue
					}
					break
				}
				if fv, ok := v.(*ssa.FreeVar); ok {
					bad += fmt.Sprintf("%s: %s writes through the captured variable %s: state shared by every call\n", x.P.Pos(in.Pos()), load.ShortName(f), fv.Name())
				}
			}
		}
	}
	x.C.Obl("C16.R5", "stateless-unmarshallers", "did/did.go", fmt.Sprintf("none of the %d function literals of package did writes through a captured variable", n), bad == "", dedupLines(bad))
}

// typedDecodersThroughFromIPLD (C07.R6): the generic decoders pick the typed decoder from the decoded envelope. In
// package token the only functions of the delegation / invocation packages that are called are their FromIPLD: a
// typed byte decoder chosen by looking at the raw bytes lets the generic byte decoder and the generic stream
// decoder disagree.
func typedDecodersThroughFromIPLD(x *Ctx) {
	n, bad := 0, ""
	for _, f := range x.P.ModuleFuncs() {
		if x.P.PkgPathOf(f) != load.Module+"/token" || len(f.Blocks) == 0 {
			continue
		}
		for _, b := range f.Blocks {
			for _, in := range b.Instrs {
				c, ok := in.(ssa.CallInstruction)
				if !ok {
					continue
				}
				h := c.Common().StaticCallee()
				if h == nil || h.Pkg == nil || h.Name() == "init" {
					continue
				}
				pp := h.Pkg.Pkg.Path()
				if pp != load.Module+"/token/delegation" && pp != load.Module+"/token/invocation" {
					continue
				}
				n++
				if h.Name() != "FromIPLD" {
					bad += fmt.Sprintf("%s: %s calls %s: the typed decoder is not chosen from the decoded envelope\n", x.P.Pos(in.Pos()), load.ShortName(f), load.ShortName(h))
				}
			}
		}
	}
	x.C.Obl("C07.R6", "typed-decoders-through-FromIPLD", "token/read.go", fmt.Sprintf("each of the %d calls from package token into the typed packages is FromIPLD(node)", n), bad == "" && n >= 2, dedupLines(bad))
}

// unreadableValuesRefused (C07.R5): what the decoders cannot read back the constructors do not accept.
//   - the schema types the values of args / meta as Any without nullable: bindnode refuses a top-level null. Every
//     path of (*Args).Add and (*Meta).Add that stores a node into Values knows its kind not to be null.
//   - the codecs refuse an undefined CID. Every link literal.Any / anyAssemble builds is built on a path that knows
//     the CID to be Defined(), and invocation.validate looks at the cause and at every proof.
func unreadableValuesRefused(x *Ctx) {
	kn, _ := x.kindConst("Kind_Null")
	for _, name := range []string{"(*pkg/args.Args).Add", "(*pkg/meta.Meta).Add"} {
		f := x.fn("C07.R5", name)
		if f == nil {
			continue
		}
		n, bad := 0, ""
		for _, p := range x.paths("C07.R5", f) {
			p.InstrsIn(func(in ssa.Instruction, c *paths.Ctx) {
				mu, ok := in.(*ssa.MapUpdate)
				if !ok {
					return
				}
				if mt := c.Term(mu.Map); mt == nil || !strings.HasSuffix(mt.String(), ".Values") {
					return
				}
				n++
				v := c.Term(mu.Value).String()
				known := false
				for _, fc := range p.Facts {
					s := fc.Atom.String()
					if !fc.Pol && fc.Atom.Op == "eq" && strings.Contains(s, fmt.Sprintf("const(%d)", kn)) && strings.Contains(s, "Node.Kind]("+v+")") {
						known = true
					}
				}
				if !known {
					bad += fmt.Sprintf("%s: a value is stored on a path that does not know it to be other than null (no decoder reads a top-level null back)\n", x.P.Pos(in.Pos()))
				}
			})
		}
		x.C.Obl("C07.R5", "null-refused:"+name, x.pos(f), "a top-level null is refused: the schema's Any is not nullable", bad == "" && n > 0, dedupLines(bad))
	}
	// links
	n, bad := 0, ""
	for _, name := range []string{"pkg/policy/literal.Any", "pkg/policy/literal.anyAssemble"} {
		f := x.fn("C07.R5", name)
		if f == nil {
			continue
		}
		for _, p := range x.paths("C07.R5", f) {
			for _, c := range p.Calls() {
				ct := p.Term(c)
				if ct == nil || ct.Op != "call" {
					continue
				}
				if !(strings.HasSuffix(ct.Name, "literal.LinkCid") || strings.HasSuffix(ct.Name, "qp.Link") || strings.HasSuffix(ct.Name, "basicnode.NewLink")) {
					continue
				}
				n++
				known := false
				for _, fc := range p.Facts {
					if fc.Pol && strings.Contains(fc.Atom.String(), "(github.com/ipfs/go-cid.Cid).Defined]") {
						known = true
					}
				}
				if !known {
					bad += fmt.Sprintf("%s: a link is built on a path that does not know the CID to be defined (the codecs refuse to encode cid.Undef)\n", x.P.Pos(c.Pos()))
				}
			}
		}
	}
	x.C.Obl("C07.R5", "undefined-link-refused:literal.Any", "pkg/policy/literal/literal.go", "every link built from a caller's CID is built where the CID is known to be defined", bad == "" && n >= 2, dedupLines(bad))
	if f := x.fn("C07.R5", "(*token/invocation.Token).validate"); f != nil {
		okC, okP := false, false
		// validate itself and the helpers its code was moved into, with their function literals
		scope := map[*ssa.Function]bool{f: true}
		for g := range x.P.ReachFrom(f) {
			if x.P.IsNewHelper(g) {
				scope[g] = true
			}
		}
		var blocks []*ssa.BasicBlock
		for g := range scope {
			blocks = append(blocks, g.Blocks...)
			for _, af := range g.AnonFuncs {
				blocks = append(blocks, af.Blocks...)
			}
		}
		for _, b := range blocks {
			for _, in := range b.Instrs {
				c, ok := in.(ssa.CallInstruction)
				if !ok {
					continue
				}
				h := c.Common().StaticCallee()
				if h == nil || h.Name() != "Defined" || h.Pkg == nil || h.Pkg.Pkg.Path() != "github.com/ipfs/go-cid" || len(c.Common().Args) == 0 {
					continue
				}
				a := c.Common().Args[0]
				s := a.String()
				if _, isParam := a.(*ssa.Parameter); isParam && in.Parent().Parent() != nil && scope[in.Parent().Parent()] {
					// a predicate literal handed, together with t.proof, to a function that applies it to every element
					for _, b2 := range in.Parent().Parent().Blocks {
						for _, in2 := range b2.Instrs {
							c2, ok := in2.(ssa.CallInstruction)
							if !ok {
								continue
							}
							hasProof, hasLit := false, false
							for _, a2 := range c2.Common().Args {
								if u, ok := a2.(*ssa.UnOp); ok {
									if fa, ok := u.X.(*ssa.FieldAddr); ok && fieldNameOf(fa) == "proof" {
										hasProof = true
									}
								}
								if mc, ok := a2.(*ssa.MakeClosure); ok && mc.Fn == ssa.Value(in.Parent()) {
									hasLit = true
								}
								if fn, ok := a2.(*ssa.Function); ok && fn == in.Parent() {
									hasLit = true
								}
							}
							if hasProof && hasLit {
								okP = true
							}
						}
					}
				}
				if u, ok := a.(*ssa.UnOp); ok {
					// *t.cause / the element of t.proof
					if u2, ok := u.X.(*ssa.UnOp); ok {
						if fa, ok := u2.X.(*ssa.FieldAddr); ok && fieldNameOf(fa) == "cause" {
							okC = true
						}
					}
					if ia, ok := u.X.(*ssa.IndexAddr); ok {
						// the list indexed is t.proof, or the parameter of a new helper that is handed t.proof
						var isProof func(v ssa.Value, depth int) bool
						isProof = func(v ssa.Value, depth int) bool {
							switch t := v.(type) {
							case *ssa.UnOp:
								fa, ok := t.X.(*ssa.FieldAddr)
								return ok && fieldNameOf(fa) == "proof"
							case *ssa.Parameter:
								g := t.Parent()
								if depth > 3 || !scope[g] || g == f {
									return false
								}
								idx := -1
								for i, prm := range g.Params {
									if prm == t {
										idx = i
									}
								}
								for _, b3 := range blocks {
									for _, in3 := range b3.Instrs {
										if c3, ok := in3.(ssa.CallInstruction); ok && c3.Common().StaticCallee() == g && idx >= 0 && idx < len(c3.Common().Args) {
											if isProof(c3.Common().Args[idx], depth+1) {
												return true
											}
										}
									}
								}
							}
							return false
						}
						if isProof(ia.X, 0) {
							okP = true
						}
					}
				}
				_ = s
			}
		}
		x.C.Obl("C07.R5", "undefined-link-refused:validate", x.pos(f), "validate looks at Defined() of the cause and of every proof", okC && okP, fmt.Sprintf("cause examined: %v, proofs examined: %v", okC, okP))
	}
}

func fieldNameOf(fa *ssa.FieldAddr) string {
	pt, ok := fa.X.Type().Underlying().(*types.Pointer)
	if !ok {
		return ""
	}
	st, ok := pt.Elem().Underlying().(*types.Struct)
	if !ok || fa.Field >= st.NumFields() {
		return ""
	}
	return st.Field(fa.Field).Name()
}

// guardedTrims (C09.P5): a slice expression that drops characters at both ends, Y[k : len(Y)-m], panics when Y is
// shorter than k+m. In selector.Parse (and helpers its code moved into) every such expression sits on paths that
// know Y to be long enough: a length test (len(Y) >= k+m), or a prefix and a suffix test with two different
// one-character constants (one character cannot be both). The same character at both ends - the quotes of a quoted
// key - is satisfied by a string of length one: that case needs the length test.
func guardedTrims(x *Ctx) {
	f := x.fn("C09.P5", selPkg+"Parse")
	if f == nil {
		return
	}
	n, bad := guardedTrimsIn(x, f)
	x.C.Obl("C09.P5", "guarded-trim:Parse", x.pos(f), fmt.Sprintf("each of the %d expressions that drop characters at both ends of a string is reached only where the string is known to be long enough", n), bad == "" && n >= 1, dedupLines(bad))
	// the same for every other library function that cuts a constant number of characters off the end of a string
	// (s[:len(s)-k], s[j:len(s)-k]): found on the SSA form, decided on the paths of the function
	nO, badO, nf := 0, "", 0
	for _, g := range x.P.ModuleFuncs() {
		if !x.P.IsLibrary(g) || g == f || len(g.Blocks) == 0 || g.Parent() == f {
			continue
		}
		nf++
		has := false
		for _, b := range g.Blocks {
			for _, in := range b.Instrs {
				sl, ok := in.(*ssa.Slice)
				if !ok || sl.High == nil {
					continue
				}
				if bt, ok := sl.X.Type().Underlying().(*types.Basic); !ok || bt.Kind() != types.String {
					continue
				}
				if bo, ok := sl.High.(*ssa.BinOp); ok && bo.Op == token.SUB {
					if c, ok := bo.Y.(*ssa.Const); ok && c.Value != nil {
						has = true
					}
				}
			}
		}
		if !has {
			continue
		}
		// a new helper is examined on the paths of the functions its code was moved out of (they hold the facts)
		targets := []*ssa.Function{g}
		if x.P.IsNewHelper(g) {
			targets = nil
			for _, o := range x.P.PathOwners(g) {
				if o != f && o.Parent() != f {
					targets = append(targets, o)
				}
			}
		}
		for _, t := range targets {
			k, w := guardedTrimsIn(x, t)
			nO += k
			badO += w
		}
	}
	x.C.Obl("C09.P5", "guarded-trim:library", "-", fmt.Sprintf("in the %d other library functions each of the %d expressions that cut a constant number of characters off the end of a string is reached only where the string is known to be long enough", nf, nO), badO == "" && nf > 0, dedupLines(badO))
}

// guardedTrimsIn examines the slice expressions Y[k:len(Y)-m] (k may be left out) of one function on its paths.
func guardedTrimsIn(x *Ctx, f *ssa.Function) (int, string) {
	n, bad := 0, ""
	seen := map[string]bool{}
	for _, p := range x.pathsQuiet(f) {
		p.InstrsIn(func(in ssa.Instruction, c *paths.Ctx) {
			sl, ok := in.(*ssa.Slice)
			if !ok || sl.High == nil {
				return
			}
			if b, ok := sl.X.Type().Underlying().(*types.Basic); !ok || b.Kind() != types.String {
				return
			}
			hi, y := c.Term(sl.High), c.Term(sl.X)
			if hi == nil || y == nil {
				return
			}
			k, okk := int64(0), true
			if sl.Low != nil {
				lo := c.Term(sl.Low)
				if lo == nil {
					return
				}
				k, okk = paths.ConstInt(lo)
			}
			if !okk || hi.Op != "sub" || len(hi.Args) != 2 || hi.Args[0].String() != "len("+y.String()+")" {
				return
			}
			m, okm := paths.ConstInt(hi.Args[1])
			if !okm || k+m <= 0 {
				return
			}
			key := x.P.Pos(in.Pos())
			if !seen[key] {
				seen[key] = true
				n++
			}
			ys := y.String()
			guarded := false
			var pre, suf string
			for _, fc := range p.Facts {
				a := fc.Atom
				if a.Op == "lt" && len(a.Args) == 2 {
					// !(len(Y) < c)  or  c' < len(Y)
					if a.Args[0].String() == "len("+ys+")" && !fc.Pol {
						if cv, ok := paths.ConstInt(a.Args[1]); ok && cv >= k+m {
							guarded = true
						}
					}
					if a.Args[1].String() == "len("+ys+")" && fc.Pol {
						if cv, ok := paths.ConstInt(a.Args[0]); ok && cv+1 >= k+m {
							guarded = true
						}
					}
				}
				if a.Op == "call" && fc.Pol && len(a.Args) == 2 && a.Args[0].String() == ys && a.Args[1].Op == "const" {
					if a.Name == "strings.HasPrefix" {
						pre = a.Args[1].Name
					}
					if a.Name == "strings.HasSuffix" {
						suf = a.Args[1].Name
					}
				}
			}
			if !guarded && pre != "" && suf != "" && pre != suf && len(pre) == 3 && len(suf) == 3 && k <= 1 && m <= 1 {
				guarded = true // "x" and "y": two different one-character constants (rendered with their quotes)
			}
			if !guarded {
				bad += fmt.Sprintf("%s: %s[%d:len-%d] on a path that does not know the string to have %d characters\n", key, firstLines(ys, 1), k, m, k+m)
			}
		})
	}
	return n, bad
}

// optionErrorsAbort (C10.R1): a constructor does not return a token when one of the caller's options failed. In New of
// both token packages, no path on which an option answered a non-nil error goes on to the next option or to a
// successful return (an option that refuses its argument leaves the field unset: a token built anyway silently
// lacks the bound the caller asked for).
func optionErrorsAbort(x *Ctx) {
	for _, pk := range []string{"token/delegation", "token/invocation"} {
		f := x.fn("C10.R1", pk+".New")
		if f == nil {
			continue
		}
		n, bad := 0, ""
		for _, p := range x.paths("C10.R1", f) {
			refused := false
			for _, fc := range p.Facts {
				if xx := paths.NilCheckOf(fc.Atom); xx != nil && !fc.Pol && xx.Op == "dyncall" {
					refused = true
				}
			}
			if !refused {
				continue
			}
			n++
			failing := p.End == paths.EndPanic
			if p.End == paths.EndReturn {
				if o, _ := p.ErrorOutcome(); o == paths.Failure || o == paths.Delegated {
					failing = true
				}
			}
			if !failing {
				bad += "an option answered an error and the constructor goes on:\n" + p.String() + "\n"
			}
		}
		x.C.Obl("C10.R1", "option-error-aborts:"+pk+".New", x.pos(f), "every path on which an option failed ends in a failure", bad == "" && n > 0, firstLines(bad, 10))
	}
}

// envelopeRefusals (C07.R5): closed world of the reasons for which envelope.FromIPLD refuses an envelope: a malformed
// envelope (Inspect), the wrong tag, a payload the schema does not accept, an issuer that is not a did:key with a
// usable key, a header that does not match the issuer's key type, a payload that cannot be re-encoded, a signature
// that does not verify. The sealing side signs with whatever the key type's Sign produces: a further requirement
// on the received signature (a canonical form, a size) refuses tokens this library has just issued.
func envelopeRefusals(x *Ctx) {
	allowed := []string{"token/internal/envelope.Inspect", ".Tag", "Node.LookupByString", "NodeBuilder.AssignNode", "bindnode.Unwrap", "Node.AsString",
		"did.Parse", "(did.DID).PubKey", "token/internal/varsig.Encode", "go-ipld-prime.Encode", "PubKey.Verify", "typeassert", ".VarsigHeader"}
	var head func(t *paths.Term) string
	head = func(t *paths.Term) string {
		if t == nil {
			return ""
		}
		switch t.Op {
		case "extract", "conv", "load":
			if len(t.Args) > 0 {
				return head(t.Args[0])
			}
		case "call", "invoke":
			return t.Name
		case "typeassert":
			return "typeassert"
		case "field":
			return "." + t.Name
		}
		s := t.String()
		if i := strings.LastIndex(s, ")."); i >= 0 && !strings.Contains(s[i+2:], "(") {
			return "." + s[i+2:]
		}
		return ""
	}
	for _, name := range []string{"token/internal/envelope.FromIPLD[*token/delegation.tokenPayloadModel]", "token/internal/envelope.FromIPLD[*token/invocation.tokenPayloadModel]"} {
		f := x.fn("C07.R5", name)
		if f == nil {
			continue
		}
		n, bad := 0, ""
		for _, p := range x.paths("C07.R5", f) {
			if p.End != paths.EndReturn || len(p.Facts) == 0 {
				continue
			}
			if o, _ := p.ErrorOutcome(); o == paths.Success {
				continue
			}
			n++
			last := p.Facts[len(p.Facts)-1]
			var hs []string
			if last.Atom.Op == "eq" {
				for _, a := range last.Atom.Args {
					hs = append(hs, head(a))
				}
			} else {
				hs = append(hs, head(last.Atom))
			}
			ok := false
			for _, h := range hs {
				for _, a := range allowed {
					if h != "" && strings.HasSuffix(h, a) {
						ok = true
					}
				}
			}
			if !ok {
				bad += fmt.Sprintf("%s: refuses on %s\n", x.P.Pos(p.Ret.Pos()), firstLines(last.String(), 1))
			}
		}
		x.C.Obl("C07.R5", "no-other-refusal:"+strings.TrimPrefix(name, "token/internal/"), x.pos(f), fmt.Sprintf("each of the %d failing exits is one of the enumerated refusals", n), bad == "" && n >= 10, dedupLines(bad))
	}
}
