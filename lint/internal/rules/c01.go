package rules

import (
	"fmt"
	"go/types"
	"strings"

	"golang.org/x/tools/go/ssa"

	"verif/lint/internal/load"
	"verif/lint/internal/paths"
	"verif/lint/internal/report"
)

// Shared vocabulary of the authorization path (package token/invocation).
var (
	entryPoints = []string{invTok + "ExecutionAllowed", invTok + "ExecutionAllowedWithArgsHook"}
	stageFuncs  = []string{invTok + "loadProofs", invTok + "verifyProofs", invTok + "verifyTimeBoundAt", invTok + "verifyArgs"}
	// fields of invocation.Token that must not influence authorization (C01.R5 / C05.R2)
	irrelevantFields = map[string]bool{"audience": true, "meta": true, "nonce": true, "invokedAt": true, "cause": true}
)

func callee(names ...string) func(string, *paths.Term) bool {
	return func(n string, _ *paths.Term) bool {
		for _, w := range names {
			if n == w {
				return true
			}
		}
		return false
	}
}

// proofLoop finds the single full-range loop over the proofs in f.
// delegs is the rendering of the delegations slice in f's vocabulary ("arg0", "arg1").
func (x *Ctx) proofLoop(rule string, f *ssa.Function, delegs string) (*paths.Loop, string) {
	ls := fullRangeLoops(f, "len(recv.proof)", "len("+delegs+")")
	if len(ls) != 1 {
		fi := paths.Info(f)
		var seen []string
		for _, l := range fi.Loops {
			b := "-"
			if l.Bound != nil {
				b = paths.DetachedTerm(f, l.Bound).String()
			}
			seen = append(seen, fmt.Sprintf("loop#%d counted=%v start=%d bound=%s", l.Index, l.IV != nil, l.Start, b))
		}
		x.C.Obl(rule, "range:"+load.ShortName(f), x.pos(f),
			"exactly one loop over all proofs: counted from 0 while index < len(recv.proof) (or len of the delegations)", false,
			fmt.Sprintf("found %d such loop(s); loops of the function: %s", len(ls), strings.Join(seen, "; ")))
		return nil, ""
	}
	l := ls[0]
	x.C.Obl(rule, "range:"+load.ShortName(f), x.pos(f), "exactly one loop over all proofs, from index 0, step 1, to the last proof", true, "")
	return l, delegs + "[" + ivName(l) + "]"
}

func init() {
	register(&Property{
		Meta: report.Meta{
			Property:    "C01",
			Explanation: "Path-fact analysis of token/invocation (SSA CFG, all acyclic paths, no execution): every success path of both ExecutionAllowed entry points passes through the success of the four stages; verifyProofs cannot succeed with an empty proof list; loadProofs loads proof[i] for every i and fails on any loader error; in verifyProofs every iteration over ALL proofs is guarded by Subject(dlg)==recv.subject and Audience(dlg)==running issuer (init: invocation issuer, then Issuer(dlg)), and success requires the last delegation to be a root; fields audience/meta/nonce/invokedAt/cause are not read anywhere in the authorization path. This decides the structural necessary conditions of the statement, not the behaviour of loaders or DID parsing. (R3, R4) in loadProofs and verifyProofs (and new helpers) the block a loop test exits to has no predecessor inside the loop other than the header.",
			Assumptions: []string{"delegation.Loader returns the delegation the CID names (caller's contract)", "Go struct equality on did.DID (two comparable fields)", "go/ssa faithfully represents the source"},
			Trusted:     []string{"golang.org/x/tools/go/ssa v0.29.0", "go/types"},
			NotDecided:  []string{"behaviour of the caller-supplied loader", "DID parsing (C16)"},
		},
		Run: runC01,
	})
}

func runC01(x *Ctx) {
	x.C.Rule("C01.R1", "every success path of the entry points carries the success of loadProofs, verifyProofs, verifyTimeBoundAt, verifyArgs", 8)
	x.C.Rule("C01.R2", "verifyProofs cannot succeed with zero proofs", 1)
	x.C.Rule("C01.R3", "loadProofs loads every proof, in order, and fails on a loader error", 5)
	x.C.Rule("C01.R4", "per-link subject / audience guards on every iteration, root check after the loop", 5)
	defer noBreakOut(x, "C01.R4", invTok+"verifyProofs")
	defer noBreakOut(x, "C01.R3", invTok+"loadProofs")
	x.C.Rule("C01.R5", "optional audience (and other irrelevant fields) never read on the authorization path", 1)
	x.C.Rule("C01.ACC", "getters return their namesake field", 6)

	stageChain(x, "C01.R1")

	vp := x.fn("C01.R2", invTok+"verifyProofs")
	if vp != nil {
		A := paths.Both(paths.ValueIs("len(arg0)", 0), paths.ValueIs("len(recv.proof)", 0))
		x.mustBlock("C01.R2", "nonempty:"+load.ShortName(vp), vp, nil, A, 2, "no success path when the proof list is empty")
	}

	loadProofsRule(x, "C01.R3")

	if vp != nil {
		if l, elem := x.proofLoop("C01.R4", vp, "arg0"); l != nil {
			subj := "call[" + dlgTok + "Subject](" + elem + ")"
			aud := "call[" + dlgTok + "Audience](" + elem + ")"
			iss := "call[" + dlgTok + "Issuer](" + elem + ")"
			setCarriedScope(x, vp, l)
			defer setCarriedScope(nil, nil, nil)
			// every iteration: Subject(dlg) == recv.subject
			x.mustBlock("C01.R4", "subject-guard:"+load.ShortName(vp), vp, l,
				eqBetween(is(subj), loopInvariant("recv.subject"), false), 2,
				"each iteration fails unless Subject(delegations[i]) == invocation subject (recv.subject exactly)")
			// every iteration: Audience(dlg) == running issuer
			x.mustBlock("C01.R4", "audience-guard:"+load.ShortName(vp), vp, l,
				eqBetween(is(aud), loopCarried(is("recv.issuer"), is(iss)), false), 2,
				"each iteration fails unless Audience(delegations[i]) == X with X = invocation issuer for the first proof and Issuer(previous delegation) afterwards")
			// after the loop: last delegation is a root
			var lastIss, lastSub []string
			for _, n := range []string{"len(arg0)", "len(recv.proof)"} {
				last := "arg0[sub(" + n + ",const(1))]"
				lastIss = append(lastIss, "call["+dlgTok+"Issuer]("+last+")")
				lastSub = append(lastSub, "call["+dlgTok+"Subject]("+last+")")
			}
			rootA := paths.Both(
				eqBetween(is(lastIss...), is(lastSub...), false),
				eqBetween(is(lastIss...), is("recv.subject"), false))
			x.mustBlock("C01.R4", "root-check:"+load.ShortName(vp), vp, nil, rootA, 2,
				"success requires Issuer(last) == Subject(last) (or == invocation subject) for last = delegations[len-1]")
			// operand type of the DID comparisons
			didComparable(x, "C01.R4")
		}
	}

	irrelevantFieldsRule(x, "C01.R5", map[string]bool{"audience": true})

	for _, g := range []string{"Issuer", "Audience", "Subject"} {
		x.accessor("C01.ACC", dlgTok, g, lowerFirst(g), "")
	}
	for _, g := range []string{"Issuer", "Subject", "Proof"} {
		x.accessor("C01.ACC", invTok, g, lowerFirst(g), "")
	}
}

// stageChain: must-pass-through of the four stages from both entry points.
func stageChain(x *Ctx, rule string) {
	for _, en := range entryPoints {
		ef := x.fn(rule, en)
		if ef == nil {
			continue
		}
		for _, st := range stageFuncs {
			if x.fn(rule, st) == nil {
				continue
			}
			x.mustBlock(rule, "stage:"+en+"->"+st, ef, nil, paths.CallFails(callee(st)), 5,
				"no success path of the entry point on which "+st+" is not called or its failure is ignored")
		}
	}
}

func loadProofsRule(x *Ctx, rule string) {
	lp := x.fn(rule, invTok+"loadProofs")
	if lp == nil {
		return
	}
	l, _ := x.proofLoop(rule, lp, "recv.proof")
	if l == nil {
		return
	}
	iv := ivName(l)
	get := "invoke[token/delegation.Loader.GetDelegation](arg0,recv.proof[" + iv + "])"
	// loader error => failure, on every iteration
	A := func(t *paths.Term) (bool, bool) {
		if xx := paths.NilCheckOf(t); xx != nil && xx.String() == get+"#1" {
			return false, true
		}
		return false, false
	}
	x.mustBlock(rule, "loader-error:"+load.ShortName(lp), lp, l, A, 1,
		"each iteration fails unless loader.GetDelegation(recv.proof[i]) returned a nil error")
	// the loaded delegation is stored at the same index of the result
	lps, err := x.E.LatchPaths(lp, l, nil, 0)
	if err != nil {
		x.C.Unresolved(rule, "paths:"+load.ShortName(lp), x.pos(lp), err.Error())
		return
	}
	okStore := len(lps) > 0
	var resSlice string
	detail := ""
	for _, v := range lps {
		found := false
		v.Instrs(func(in ssa.Instruction) {
			st, ok := in.(*ssa.Store)
			if !ok {
				return
			}
			at := v.Term(st.Addr)
			if at.Op == "elemaddr" && at.Args[1].String() == iv && v.Term(st.Val).String() == get+"#0" {
				found = true
				resSlice = at.Args[0].String()
			}
		})
		if !found {
			okStore = false
			detail += "an iteration does not store GetDelegation(recv.proof[i]) at index i of the result:\n" + renderPaths([]paths.VPath{v}, 1)
		}
	}
	if !okStore {
		// idiom B: the result is built by appending exactly the loaded delegation on every iteration to a
		// slice that is empty before the loop (element i of the result is then the delegation of proof i)
		if okB, dB := loadProofsAppendIdiom(x, lp, l, lps, get); okB {
			x.C.Obl(rule, "store-at-index:"+load.ShortName(lp), x.pos(lp), "each iteration appends the loaded delegation to the (initially empty) result, so res[i] is the delegation of proof i", true, "")
			x.C.Obl(rule, "returns-result:"+load.ShortName(lp), x.pos(lp), "success returns the slice the delegations were appended to", true, "")
			if sel, _, _ := x.E.Select(lp, paths.WantSuccess); len(sel) > 0 {
				resultUntouched(x, rule, lp, l, sel[0].Results()[0].String())
			}
			return
		} else {
			detail += dB
		}
	}
	x.C.Obl(rule, "store-at-index:"+load.ShortName(lp), x.pos(lp), "each iteration stores the loaded delegation at res[i] with the same i", okStore, detail)
	// the returned slice is that result, sized len(recv.proof)
	sel, _, _ := x.E.Select(lp, paths.WantSuccess)
	okRet := len(sel) > 0
	detail = ""
	for _, v := range sel {
		r := v.Results()[0]
		if r.String() != resSlice || !strings.HasPrefix(r.String(), "make[[]*token/delegation.Token](len(recv.proof),") {
			okRet = false
			detail += "success returns " + r.String() + ", stores go to " + resSlice + "\n"
		}
	}
	x.C.Obl(rule, "returns-result:"+load.ShortName(lp), x.pos(lp), "success returns the slice made with len(recv.proof) into which the delegations were stored", okRet, detail)
	resultUntouched(x, rule, lp, l, resSlice)
}

// resultUntouched: the order of the loaded delegations is the order of the proof list. On a success path nothing
// but the loading loop writes the result slice, and it is not handed to any function (sort, reverse, compact,
// a helper) before it is returned: the verification that follows is positional.
func resultUntouched(x *Ctx, rule string, lp *ssa.Function, l *paths.Loop, res string) {
	sel, _, _ := x.E.Select(lp, paths.WantSuccess)
	bad := ""
	for _, v := range sel {
		v.InstrsIn(func(in ssa.Instruction, c *paths.Ctx) {
			switch y := in.(type) {
			case *ssa.Call:
				ct := c.Term(y)
				if ct.Op == "len" {
					return
				}
				for _, a := range ct.Args {
					if a != nil && a.String() == res {
						bad += x.P.Pos(in.Pos()) + ": the loaded delegations are handed to " + ct.Name + " before being returned: their order (or content) may no longer be that of the proof list\n"
					}
				}
			case *ssa.Store:
				at := c.Term(y.Addr)
				if at.Op == "elemaddr" && at.Args[0].String() == res && !l.Body[in.Block()] {
					bad += x.P.Pos(in.Pos()) + ": an element of the result is written outside the loading loop\n"
				}
			}
		})
	}
	x.C.Obl(rule, "result-untouched:"+load.ShortName(lp), x.pos(lp), "on a success path the loaded delegations are neither reordered, rewritten nor handed to another function before they are returned", bad == "" && len(sel) > 0, dedupLines(bad))
}

// loadProofsAppendIdiom: every success path returns the header phi R of the loop, R is nil or an empty
// make before the loop, and every latch path carries R' = append(R, GetDelegation(proof[i])#0).
func loadProofsAppendIdiom(x *Ctx, lp *ssa.Function, l *paths.Loop, lps []paths.VPath, get string) (bool, string) {
	sel, _, _ := x.E.Select(lp, paths.WantSuccess)
	if len(sel) == 0 {
		return false, "no success path\n"
	}
	var phi *ssa.Phi
	for _, v := range sel {
		r := v.Results()[0]
		ph, ok := r.Val.(*ssa.Phi)
		if r.Op != "loopphi" || !ok || ph.Block() != l.Header || (phi != nil && phi != ph) {
			return false, "success returns " + r.String() + ", not the slice carried by the loop\n"
		}
		phi = ph
		init := r.Args[0]
		empty := init != nil && (init.IsNil() || init.Op == "make" && len(init.Args) > 0 && init.Args[0].IsConst("0") ||
			init.Op == "slice" && strings.Contains(init.String(), "const(0)"))
		if !empty {
			return false, "the result is not empty before the loop: " + init.String() + "\n"
		}
	}
	self := paths.DetachedTerm(lp, phi).String()
	for _, v := range lps {
		nv := v.LatchValue(phi)
		if nv == nil || nv.Op != "call" || nv.Name != "builtin.append" || len(nv.Args) != 2 || nv.Args[0].String() != self ||
			nv.Args[1].String() != "["+get+"#0]" {
			got := "?"
			if nv != nil {
				got = nv.String()
			}
			return false, "an iteration carries " + got + " instead of append(result, GetDelegation(recv.proof[i]))\n"
		}
	}
	return len(lps) > 0, ""
}

// didComparable: did.DID is a comparable struct so == compares all fields.
func didComparable(x *Ctx, rule string) {
	sp := x.P.SSA[load.Module+"/did"]
	if sp == nil {
		x.C.Unresolved(rule, "type:did.DID", "-", "package did not loaded")
		return
	}
	tn, _ := sp.Pkg.Scope().Lookup("DID").(*types.TypeName)
	if tn == nil {
		x.C.Unresolved(rule, "type:did.DID", "-", "type DID not found")
		return
	}
	st, isStruct := tn.Type().Underlying().(*types.Struct)
	ok := isStruct && types.Comparable(tn.Type())
	detail := ""
	if isStruct {
		for i := 0; i < st.NumFields(); i++ {
			if _, basic := st.Field(i).Type().Underlying().(*types.Basic); !basic {
				ok = false
				detail += "field " + paths.FieldName(st.Field(i)) + " is not of a basic type: == would compare identity, not value\n"
			}
		}
	}
	x.C.Obl(rule, "did-equality", x.P.Pos(tn.Pos()), "did.DID is a struct of basic comparable fields, so == is value equality", ok, detail)
}

// irrelevantFieldsRule: none of the given invocation.Token fields is read in the in-package
// part of the authorization path.
func irrelevantFieldsRule(x *Ctx, rule string, fields map[string]bool) {
	var roots []*ssa.Function
	for _, en := range entryPoints {
		if f := x.fn(rule, en); f != nil {
			roots = append(roots, f)
		}
	}
	if len(roots) == 0 {
		return
	}
	reach := x.P.Reach(roots)
	inPkg := map[*ssa.Function]bool{}
	for f := range reach {
		if x.P.PkgPathOf(f) == load.Module+"/token/invocation" {
			inPkg[f] = true
		}
	}
	uses := x.fieldUses(inPkg, "token/invocation", "Token", fields)
	var names []string
	for f := range fields {
		names = append(names, f)
	}
	detail := ""
	for _, u := range uses {
		detail += fmt.Sprintf("%s: field %s is accessed in %s\n", u.Pos, u.Field, load.ShortName(u.Fn))
	}
	x.C.Obl(rule, "irrelevant-fields", x.pos(roots[0]),
		fmt.Sprintf("fields %v of invocation.Token are not accessed in the %d functions of package invocation reachable from the entry points", names, len(inPkg)),
		len(uses) == 0, detail)
	x.C.Extra["authorization_path_functions"] = len(inPkg)
}
