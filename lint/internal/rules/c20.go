package rules

import (
	"fmt"
	"path/filepath"
	"sort"
	"strings"

	"golang.org/x/tools/go/ssa"

	"verif/lint/internal/effects"
	"verif/lint/internal/load"
	"verif/lint/internal/paths"
	"verif/lint/internal/report"
)

func init() {
	register(&Property{
		Meta: report.Meta{
			Property:    "C20",
			Explanation: "May-write effect analysis (engine E4): taint is propagated, flow- and context-insensitively over the SSA form and the in-module call graph (static callees, VTA targets for interface calls and function values, closures through their bindings, results through return summaries, external results as possible aliases unless the callee is in the returns-fresh table), from the receivers of every exported method of the immutable types (delegation.Token, invocation.Token, args.ReadOnly, meta.ReadOnly, policy.Policy and the statement structs, selector.Selector, container.Reader, did.DID, command.Command). Reported: every store through a tainted address, map update on a tainted map, append/copy/clear/delete with a tainted first operand, call of an external in-place mutator (sort.*, slices.Sort*, ...) on a tainted operand, and every store to a package-level variable outside init / sync.Once. Writes to objects allocated in the same function are exempt. Race-freedom is concluded from write-freedom; schedules as such are not explored. A canary package with three seeded writes and one clean method is analysed on every run and must yield exactly the three findings. (R4) stores into Token fields of type *args.Args / *meta.Meta take their value from a call or a field load, not from a parameter or free variable (parameters of unexported helpers are followed to the call sites); MapUpdate values in Clone are range / lookup values or constructor calls over bytes.Clone / slices.Clone / append(nil, ...). (R2) calls of Add / Store / Swap / CompareAndSwap of sync/atomic and of the mutating methods of sync.Map whose receiver is (a field of) a package-level variable of the module, and MapUpdate on a package-level map, count as stores to package-level state. (R2) a Store whose address is a field / element chain rooted at a package-level variable of the module, outside package initialisers, counts as a store to package-level state.",
			Assumptions: []string{"external functions that receive token state and are not in the mutator table (qp.*, printer.Sprint, ipld.DeepEqual, bindnode.Wrap, fmt, strings, go-ipld-prime node methods) do not write it", "go-ipld-prime nodes are immutable"},
			Trusted:     []string{"golang.org/x/tools/go/ssa + callgraph/vta v0.29.0", "the frozen mutator / returns-fresh tables in internal/effects"},
			NotDecided:  []string{"interleavings as such (race-freedom is concluded from write-freedom)", "writes inside third-party libraries"},
		},
		Run: runC20,
	})
}

var ownedTypes = []string{
	"token/delegation.Token", "token/invocation.Token", "pkg/args.ReadOnly", "pkg/meta.ReadOnly", "pkg/policy.Policy",
	"pkg/policy.equality", "pkg/policy.negation", "pkg/policy.connective", "pkg/policy.wildcard", "pkg/policy.quantifier",
	"pkg/policy/selector.Selector", "pkg/policy/selector.segment", "pkg/container.Reader", "did.DID", "pkg/command.Command",
}

func isOwnedType(s string) bool {
	s = strings.TrimPrefix(s, "*")
	s = strings.TrimPrefix(s, load.Module+"/")
	for _, o := range ownedTypes {
		if s == o {
			return true
		}
	}
	return false
}

func effectsConfig(p *load.Program) effects.Config {
	return effects.Config{
		InModule: p.InModule,
		Callees:  p.CalleesAt,
		Pos:      p.Pos,
		Name:     load.ShortName,
	}
}

func runC20(x *Ctx) {
	x.C.Rule("C20.R1", "no read-only operation may write memory reachable from a token (or the other immutable values)", 1)
	x.C.Rule("C20.R2", "no store to package-level variables on read paths (except schema loading under sync.Once)", 1)
	x.C.Rule("C20.R3", "canary: the analysis flags the three seeded writes and not the clean method", 1)
	x.C.Rule("C20.R4", "writeable clones are deep copies: no container of the token escapes into them; a token owns its argument and metadata containers", 6)

	var roots []*ssa.Function
	for _, f := range x.P.ExportedAPI() {
		if f.Signature.Recv() == nil {
			continue
		}
		if isOwnedType(f.Signature.Recv().Type().String()) {
			roots = append(roots, f)
		}
	}
	owned := func(f *ssa.Function, p *ssa.Parameter) bool {
		return isOwnedType(p.Type().String())
	}
	finds, nfun := effects.Analyze(effectsConfig(x.P), roots, owned)
	x.C.Extra["read_only_roots"] = len(roots)
	x.C.Extra["functions_in_effect_closure"] = nfun
	var rootNames []string
	for _, r := range roots {
		rootNames = append(rootNames, load.ShortName(r))
	}
	sort.Strings(rootNames)
	x.C.Obl("C20.R1", "roots", "-", fmt.Sprintf("read-only roots found: %d exported methods of the immutable types", len(roots)), len(roots) >= 70, strings.Join(rootNames, " "))
	nW, nG := 0, 0
	for _, fd := range finds {
		if fd.Kind == "global-store" {
			// schema loading: stores inside a sync.Once.Do closure
			if fd.Fn.Parent() != nil && strings.HasSuffix(load.ShortName(fd.Fn.Parent()), ".mustLoadSchema") {
				continue
			}
			nG++
			x.C.Obl("C20.R2", "global-store:"+load.ShortName(fd.Fn), fd.Pos, "no package-level variable is written on a read path", false, fd.What)
			continue
		}
		nW++
		x.C.Obl("C20.R1", "write:"+load.ShortName(fd.Fn)+":"+fd.Kind, fd.Pos, "read-only operations do not write token-owned memory", false,
			fd.What+"\nthe written memory derives from: "+fd.Chain+"\n(reachable from a read-only root; concurrent readers race on it and observe the change)")
	}
	x.C.Obl("C20.R1", "write-free", "-", fmt.Sprintf("no may-write of owned memory in the %d functions reachable from the %d read-only roots", nfun, len(roots)), nW == 0, fmt.Sprintf("%d write(s), listed above", nW))
	x.C.Obl("C20.R2", "globals", "-", "no store to package-level variables on read paths", nG == 0, "")

	deepClones(x)
	ownedContainers(x)
	cloneValues(x)

	// canary
	cdir := filepath.Join(x.VerifDir, "lint", "testdata", "canary")
	cp, err := load.Load(load.Options{Dir: cdir, Module: "canary"})
	if err != nil {
		x.C.Unresolved("C20.R3", "canary-load", "-", err.Error())
		return
	}
	var croots []*ssa.Function
	for _, f := range cp.ModuleFuncs() {
		if f.Signature.Recv() != nil && f.Object() != nil && f.Object().Exported() {
			croots = append(croots, f)
		}
	}
	cf, _ := effects.Analyze(effectsConfig(cp), croots, func(f *ssa.Function, p *ssa.Parameter) bool { return true })
	got := map[string]bool{}
	for _, fd := range cf {
		root := load.ShortName(fd.Fn)
		got[root[strings.LastIndex(root, ".")+1:]+":"+fd.Kind] = true
	}
	want := []string{"Print:mutator-call", "First:store", "Count:store"}
	ok := len(got) == len(want)
	for _, w := range want {
		if !got[w] {
			ok = false
		}
	}
	var gs []string
	for g := range got {
		gs = append(gs, g)
	}
	sort.Strings(gs)
	x.C.Obl("C20.R3", "canary", "lint/testdata/canary/c20/c20.go", "the seeded writes (sort of a shared slice, store through an alias from a helper, counter field) are flagged and the copy-then-sort method is not", ok, "flagged: "+strings.Join(gs, " "))
}

// deepClones: (*Args).Clone and (*Meta).Clone (reached through ReadOnly.WriteableClone) return a
// record whose slice / map fields are freshly made: a later Add on the clone must not write the
// token's own containers.
func deepClones(x *Ctx) {
	for _, name := range []string{"(*pkg/args.Args).Clone", "(*pkg/meta.Meta).Clone"} {
		f := x.fn("C20.R4", name)
		if f == nil {
			continue
		}
		ps := x.pathsQuiet(f)
		ok, n := true, 0
		detail := ""
		for _, p := range ps {
			if p.End != paths.EndReturn {
				continue
			}
			n++
			cell := paths.CellOf(p.Results()[0])
			if cell == nil {
				ok = false
				detail += "returns " + p.Results()[0].String() + " (not a freshly allocated record)\n"
				continue
			}
			// no whole-struct copy of the receiver into the clone
			p.Instrs(func(in ssa.Instruction) {
				if st, isSt := in.(*ssa.Store); isSt && st.Addr == cell {
					ok = false
					detail += x.P.Pos(in.Pos()) + ": the clone is initialised by copying the whole record (" + p.Term(st.Val).String() + "): its map / slice fields alias the original\n"
				}
			})
			for fld, v := range p.FieldStores(cell) {
				fresh := v.Op == "make" || (v.Op == "call" && (v.Name == "slices.Clone" || v.Name == "maps.Clone" || strings.HasPrefix(v.Name, "slices.Clone[") || strings.HasPrefix(v.Name, "maps.Clone["))) ||
					// append(fresh, src...) / append([]T(nil), src...): the result is backed by the fresh destination
					(v.Op == "call" && v.Name == "builtin.append" && len(v.Args) == 2 && (v.Args[0].Op == "make" || v.Args[0].IsNil()))
				if !fresh {
					ok = false
					detail += "field " + fld + " of the clone is " + v.String() + ", not a fresh container\n"
				}
			}
			if len(p.FieldStores(cell)) < 2 {
				ok = false
				detail += "not every container field of the clone is assigned a fresh container\n"
			}
		}
		x.C.Obl("C20.R4", "deep-clone:"+name, x.pos(f), "Clone returns a new record whose Keys and Values are fresh containers", ok && n > 0, detail)
	}
}
