package rules

import (
	"fmt"
	"go/types"
	"sort"

	"golang.org/x/tools/go/ssa"

	"verif/lint/internal/load"
	"verif/lint/internal/paths"
)

// iteratorProtocol (C09.P7): a push iterator (func(yield func(...) bool)) must not call yield again once
// yield has answered false: the runtime panics ("range function continued iteration after function for loop
// body returned false") in the consumer's for-range loop. For every call of the yield parameter in the body
// of such a function: the answer is tested by a branch and no call of yield is reachable in the CFG from the
// false side; or the answer is dropped and no call of yield is reachable from the call at all. An answer used
// in any other way (stored, combined) is reported as unrecognised.
func iteratorProtocol(x *Ctx, fns []*ssa.Function) {
	isIter := func(f *ssa.Function) *ssa.Parameter {
		sig := f.Signature
		if sig.Results().Len() != 0 || len(f.Params) == 0 {
			return nil
		}
		p := f.Params[len(f.Params)-1]
		if sig.Params().Len() != 1 {
			return nil
		}
		ys, ok := p.Type().Underlying().(*types.Signature)
		if !ok || ys.Results().Len() != 1 {
			return nil
		}
		if b, ok := ys.Results().At(0).Type().Underlying().(*types.Basic); !ok || b.Kind() != types.Bool {
			return nil
		}
		return p
	}
	var all []*ssa.Function
	seen := map[*ssa.Function]bool{}
	var add func(f *ssa.Function)
	add = func(f *ssa.Function) {
		if seen[f] {
			return
		}
		seen[f] = true
		all = append(all, f)
		for _, a := range f.AnonFuncs {
			add(a)
		}
	}
	for _, f := range fns {
		add(f)
	}
	sort.Slice(all, func(i, j int) bool { return load.ShortName(all[i]) < load.ShortName(all[j]) })
	for _, f := range all {
		y := isIter(f)
		if y == nil || len(f.Blocks) == 0 {
			continue
		}
		// the calls of yield in f: direct, or from a function literal of f that captures it
		callsYield := func(in ssa.Instruction) bool {
			c, ok := in.(ssa.CallInstruction)
			if !ok {
				return false
			}
			if c.Common().Value == ssa.Value(y) {
				return true
			}
			if mc, ok := c.Common().Value.(*ssa.MakeClosure); ok {
				for _, b := range mc.Bindings {
					if b == ssa.Value(y) {
						return true
					}
				}
			}
			for _, a := range c.Common().Args {
				if a == ssa.Value(y) {
					return true // handed on: the callee may call it
				}
				if mc, ok := a.(*ssa.MakeClosure); ok {
					for _, b := range mc.Bindings {
						if b == ssa.Value(y) {
							return true
						}
					}
				}
			}
			return false
		}
		reach := func(start []*ssa.BasicBlock, from *ssa.BasicBlock, after int) ssa.Instruction {
			if from != nil {
				for _, in := range from.Instrs[after+1:] {
					if callsYield(in) {
						return in
					}
				}
			}
			vis := map[*ssa.BasicBlock]bool{}
			st := append([]*ssa.BasicBlock(nil), start...)
			for len(st) > 0 {
				b := st[len(st)-1]
				st = st[:len(st)-1]
				if vis[b] {
					continue
				}
				vis[b] = true
				for _, in := range b.Instrs {
					if callsYield(in) {
						return in
					}
				}
				st = append(st, b.Succs...)
			}
			return nil
		}
		n, bad := 0, ""
		for _, b := range f.Blocks {
			for i, in := range b.Instrs {
				c, ok := in.(*ssa.Call)
				if !ok || c.Call.Value != ssa.Value(y) {
					continue
				}
				n++
				pos := x.P.Pos(c.Pos())
				refs := *c.Referrers()
				var live []ssa.Instruction
				for _, r := range refs {
					if _, dbg := r.(*ssa.DebugRef); !dbg {
						live = append(live, r)
					}
				}
				switch {
				case len(live) == 0:
					if again := reach(b.Succs, b, i); again != nil {
						bad += fmt.Sprintf("%s: the answer of yield is dropped and yield can be called again at %s: a consumer that stopped (break / return in its loop) makes the runtime panic\n", pos, x.P.Pos(again.Pos()))
					}
				default:
					for _, r := range live {
						var cond ssa.Value = c
						neg := false
						if u, ok := r.(*ssa.UnOp); ok && len(*u.Referrers()) == 1 {
							cond, neg = u, true
							r = (*u.Referrers())[0]
						}
						br, ok := r.(*ssa.If)
						if !ok || br.Cond != cond {
							bad += fmt.Sprintf("%s: the answer of yield is used by %s, not tested by a branch: not a recognised form\n", pos, r.String())
							continue
						}
						stop := br.Block().Succs[1]
						if neg {
							stop = br.Block().Succs[0]
						}
						if again := reach([]*ssa.BasicBlock{stop}, nil, 0); again != nil {
							bad += fmt.Sprintf("%s: after yield answered false, yield can be called again at %s\n", pos, x.P.Pos(again.Pos()))
						}
					}
				}
			}
		}
		if n > 0 {
			x.C.Obl("C09.P7", "yield:"+load.ShortName(f), x.pos(f), "no call of yield is reachable after yield answered false (or after an answer that was dropped)", bad == "", dedupLines(bad))
		}
	}
}

// nilCursors (C09.P3): a variable of interface type that the function itself sets to nil (the selector's cursor
// after an optional segment that found nothing) may be nil wherever its value is not known: every method call on
// it whose receiver the path cannot trace to a stored value must be on a path that knows it to be non-nil.
func nilCursors(x *Ctx, fns []*ssa.Function) {
	for _, f := range fns {
		if len(f.Blocks) == 0 {
			continue
		}
		var cells []*ssa.Alloc
		for _, b := range f.Blocks {
			for _, in := range b.Instrs {
				st, ok := in.(*ssa.Store)
				if !ok {
					continue
				}
				a, isA := st.Addr.(*ssa.Alloc)
				c, isC := st.Val.(*ssa.Const)
				if !isA || !isC || !c.IsNil() {
					continue
				}
				if _, isIface := a.Type().Underlying().(*types.Pointer).Elem().Underlying().(*types.Interface); !isIface {
					continue
				}
				dup := false
				for _, o := range cells {
					dup = dup || o == a
				}
				if !dup {
					cells = append(cells, a)
				}
			}
		}
		if len(cells) == 0 {
			continue
		}
		ps := x.pathsQuiet(f)
		for _, a := range cells {
			bad, n := "", 0
			for _, p := range ps {
				p.InstrsIn(func(in ssa.Instruction, c *paths.Ctx) {
					call, ok := in.(ssa.CallInstruction)
					if !ok || !call.Common().IsInvoke() {
						return
					}
					rt := c.Term(call.Common().Value)
					if rt == nil || rt.Op != "load" || len(rt.Args) != 1 || rt.Args[0].Op != "alloc" || rt.Args[0].Val != ssa.Value(a) {
						return
					}
					n++
					known := false
					for _, fc := range p.Facts {
						if xx := paths.NilCheckOf(fc.Atom); xx != nil && xx.String() == rt.String() && !fc.Pol {
							known = true
						}
					}
					if !known {
						bad += fmt.Sprintf("%s: %s is called on %s, which the function sets to nil elsewhere, on a path that does not know it to be non-nil\n", x.P.Pos(in.Pos()), call.Common().Method.Name(), a.Comment)
					}
				})
			}
			if n > 0 {
				x.C.Obl("C09.P3", "nil-cursor:"+load.ShortName(f)+":"+a.Comment, x.P.Pos(a.Pos()), "a method is called on the variable only where it is known to be non-nil", bad == "", dedupLines(bad))
			}
		}
	}
}

// tableCalls (C09.P3): a function taken out of a map and called is nil when the key is missing (an attacker-chosen
// tag, say). Every call whose callee is the value of a map lookup is on a path that knows the key to be present
// (the comma-ok result) or the value to be non-nil.
func tableCalls(x *Ctx, fns []*ssa.Function) {
	for _, f := range fns {
		var sites []*ssa.Call
		for _, b := range f.Blocks {
			for _, in := range b.Instrs {
				c, ok := in.(*ssa.Call)
				if !ok || c.Call.IsInvoke() || c.Call.StaticCallee() != nil {
					continue
				}
				v := c.Call.Value
				if e, isE := v.(*ssa.Extract); isE {
					v = e.Tuple
				}
				if l, isL := v.(*ssa.Lookup); isL {
					if _, isMap := l.X.Type().Underlying().(*types.Map); isMap {
						sites = append(sites, c)
					}
				}
			}
		}
		if len(sites) == 0 {
			continue
		}
		ps := x.sitePaths(f)
		for i, c := range sites {
			bad, seen := "", false
			for _, p := range ps {
				if !p.InBlock(c.Block()) {
					continue
				}
				seen = true
				ft := p.Term(c.Call.Value)
				known := false
				for _, fc := range p.Facts {
					if xx := paths.NilCheckOf(fc.Atom); xx != nil && xx.String() == ft.String() && !fc.Pol {
						known = true
					}
					if fc.Pol && ft.Op == "extract" && len(ft.Args) == 1 && fc.Atom.String() == ft.Args[0].String()+"#1" {
						known = true
					}
				}
				if !known {
					bad = fmt.Sprintf("%s: the function looked up in the table (%s) is called on a path that does not know the key to be present: a missing key gives a nil function", x.P.Pos(c.Pos()), ft)
				}
			}
			if seen {
				x.C.Obl("C09.P3", fmt.Sprintf("table-call:%s#%d", load.ShortName(f), i+1), x.P.Pos(c.Pos()), "a function taken out of a map is called only when the key is known to be present", bad == "", bad)
			}
		}
	}
}

// namedRefusals (C09.P3): when the evaluator answers "false" or "no data" it names the statement to blame.
// invocation.verifyArgs renders that statement into the denial (statement.String()): an answer of false with a
// nil statement - an accumulator that stays nil when a list is empty - is a nil-pointer panic on the denial path
// instead of ErrPolicyNotSatisfied.
func namedRefusals(x *Ctx) {
	f := x.fn("C09.P3", "pkg/policy.matchStatement")
	if f == nil {
		return
	}
	vals := map[int64]string{}
	for _, n := range []string{"matchResultFalse", "matchResultNoData"} {
		if v, ok := x.constOf("C09.P3", "pkg/policy", n); ok {
			if k, ok := constantInt(v); ok {
				vals[k] = n
			}
		}
	}
	ps := x.paths("C09.P3", f)
	n, bad := 0, ""
	for _, p := range ps {
		if p.End != paths.EndReturn || len(p.Results()) != 2 {
			continue
		}
		r0 := p.Results()[0]
		k, ok := paths.ConstInt(r0)
		if !ok {
			continue
		}
		name, isRefusal := vals[k]
		if !isRefusal {
			continue
		}
		n++
		r1 := p.Results()[1]
		if r1 == nil || r1.IsNil() {
			bad += fmt.Sprintf("%s: answers %s without naming a statement\n", x.P.Pos(p.Ret.Pos()), name)
		} else if r1.Op == "loopphi" && len(r1.Args) == 2 && (r1.Args[0] == nil || r1.Args[0].IsNil()) {
			// a variable a loop fills: it still holds nil when the loop runs zero times (an empty list)
			bad += fmt.Sprintf("%s: answers %s with a statement that is nil when the loop before it did not run\n", x.P.Pos(p.Ret.Pos()), name)
		}
	}
	x.C.Obl("C09.P3", "named-refusal:matchStatement", x.pos(f), fmt.Sprintf("each of the %d exits answering false / no data names the statement to blame", n), bad == "" && n >= 10, dedupLines(bad))
}
