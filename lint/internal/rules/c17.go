package rules

import (
	"fmt"
	"go/types"
	"sort"
	"strings"

	"golang.org/x/tools/go/ssa"

	"verif/lint/internal/load"
	"verif/lint/internal/paths"
	"verif/lint/internal/report"
)

const ctnPkg = "pkg/container."

func init() {
	register(&Property{
		Meta: report.Meta{
			Property:    "C17",
			Explanation: "Structural rules on package container: (R1) variant pipelines — for each of the 16 From*/To* functions the set of stages reachable in the package's call graph (base64 = encoding/base64.NewDecoder/NewEncoder, car = readCar/writeCar, cbor = the ipld.DecodeStreaming / EncodeStreaming call of FromCborReader / ToCborWriter) must be exactly what the API name announces, byte and stream variants of a format must agree, byte variants wrap their argument in a reader / collect a buffer, and the base64 variants hand the base64 wrapper of the caller's stream to the format core; (R2) single door — entries are stored into a container.Reader only in addToken, under the CID and token returned by a successful token.FromSealed(data); (R3) all-or-nothing — in both readers an iteration continues only if the iterator reported no error and addToken succeeded, an aborted iteration leaves a non-nil error, and success is returned only after exhaustion; (R4) CAR integrity — readBlock succeeds only if Prefix(cid).Sum(data) equals the stored CID, for the cid/data split of the same section; (R5) the writers iterate the whole map and write cid ++ data (CAR) / every data (CBOR). (R6) pool typestate: no object is put back into a sync.Pool (directly or by a deferred call) while the function returns it, a view of it, or a function literal that captured it; a positive example under lint/testdata/canary/pool must be flagged on every run. Set equality of contents is a runtime-value clause and is not decided. (R2) every MapUpdate on a container.Reader, in whatever function, stores results #0 / #1 of one token.FromSealed call on a path that knows it succeeded. In every function that stores into a Reader, a path through a call of token.FromSealed without the fact that its error is nil ends in a failure return or panic. (R6) no Return of a library function has a map-typed result that is loaded from a package-level variable of the module. (R2) every success path of (Reader).GetToken returns lookup(recv, arg0)#0 under the fact that the key is present; GetDelegation returns an assertion of that lookup or of GetToken(recv, arg0). (R3) in every function that stores into a Reader, no success path contains a call of token.FromSealed without a MapUpdate of the Reader; no function reachable from the eight From* readers calls time.Now / Since / Until.",
			Assumptions: []string{"encoding/base64, bufio, go-cid and go-ipld-prime behave as documented", "range-over-func protocol of the Go compiler"},
			Trusted:     []string{"encoding/base64", "go-cid", "go-ipld-prime", "golang.org/x/tools/go/ssa v0.29.0"},
			NotDecided:  []string{"set equality of written and read contents (runtime values)", "behaviour of the CBOR / base64 codecs"},
		},
		Run: runC17,
	})
}

func runC17(x *Ctx) {
	x.C.Rule("C17.R1", "variant pipelines match the API names; byte/stream variants agree", 24)
	x.C.Rule("C17.R2", "entries enter a Reader only through FromSealed; iterators hand out key and value of one step; a getter hands out the entry stored under the CID asked for", 5)
	x.C.Rule("C17.R3", "all-or-nothing reading: every token read is stored, whatever the time of day", 10)
	x.C.Rule("C17.R4", "CAR block integrity", 3)
	x.C.Rule("C17.R5", "writers cover the whole map and report every failed write", 4)

	variantPipelines(x)
	singleDoor(x)
	gettersLookUpTheirKey(x)
	allOrNothing(x)
	doorsStoreOnSuccess(x)
	carIntegrity(x)
	writersCover(x)
	x.C.Rule("C17.R6", "readers do not share state across calls: nothing is released to a pool while a returned iterator still uses it; no shared map is handed out", 3)
	x.poolDiscipline("C17.R6", "pkg/container")
	freshMaps(x, "C17.R6")
}

// stagesOf computes the stage markers reachable from f inside package container.
func stagesOf(x *Ctx, f *ssa.Function) map[string]bool {
	out := map[string]bool{}
	reach := x.P.ReachFrom(f)
	for g := range reach {
		if x.P.PkgPathOf(g) != load.Module+"/pkg/container" {
			continue
		}
		name := load.ShortName(g)
		for _, b := range g.Blocks {
			for _, in := range b.Instrs {
				c, ok := in.(ssa.CallInstruction)
				if !ok {
					continue
				}
				callee := paths.StaticCallee(c)
				if callee == nil {
					continue
				}
				cn := paths.FuncName(callee)
				switch {
				case cn == "encoding/base64.NewDecoder" || cn == "encoding/base64.NewEncoder":
					out["base64"] = true
				case cn == ctnPkg+"readCar" || cn == ctnPkg+"writeCar":
					out["car"] = true
				case cn == "github.com/ipld/go-ipld-prime.DecodeStreaming" && name == ctnPkg+"FromCborReader":
					out["cbor"] = true
				case cn == "github.com/ipld/go-ipld-prime.EncodeStreaming" && name == "("+ctnPkg+"Writer).ToCborWriter":
					out["cbor"] = true
				}
			}
		}
	}
	return out
}

func setStr(m map[string]bool) string {
	var ks []string
	for k := range m {
		ks = append(ks, k)
	}
	sort.Strings(ks)
	return strings.Join(ks, "+")
}

func variantPipelines(x *Ctx) {
	type variant struct {
		name   string
		stages string
	}
	var vs []variant
	for _, dir := range []string{"From", "To"} {
		for _, fmtName := range []string{"Cbor", "Car"} {
			for _, b64 := range []string{"", "Base64"} {
				for _, st := range []string{"", "Reader"} {
					n := dir + fmtName + b64
					if dir == "From" {
						n = ctnPkg + n + st
					} else {
						if st == "Reader" {
							n = "(" + ctnPkg + "Writer)." + n + "Writer"
						} else {
							n = "(" + ctnPkg + "Writer)." + n
						}
					}
					want := map[string]bool{strings.ToLower(fmtName): true}
					if b64 != "" {
						want["base64"] = true
					}
					vs = append(vs, variant{n, setStr(want)})
				}
			}
		}
	}
	for _, v := range vs {
		f := x.fn("C17.R1", v.name)
		if f == nil {
			continue
		}
		got := setStr(stagesOf(x, f))
		x.C.Obl("C17.R1", "stages:"+v.name, x.pos(f), "the stages reachable from "+v.name+" are exactly "+v.stages, got == v.stages, "reachable stages: "+got)
	}
	// byte variants of readers: From<X>(data) = From<X>Reader(bytes.NewReader(data))
	for _, n := range []string{"FromCbor", "FromCborBase64", "FromCar", "FromCarBase64"} {
		f := x.fn("C17.R1", ctnPkg+n)
		if f == nil {
			continue
		}
		ps := x.pathsQuiet(f)
		want := x.call(ctnPkg+n+"Reader", "call[bytes.NewReader](arg0)")
		ok := len(ps) == 1 && ps[0].End == paths.EndReturn && ps[0].Results()[0].String() == want+"#0" && ps[0].Results()[1].String() == want+"#1"
		got := ""
		if len(ps) > 0 && ps[0].End == paths.EndReturn {
			got = ps[0].Results()[0].String()
		}
		x.C.Obl("C17.R1", "bytes-variant:"+n, x.pos(f), n+"(data) is "+n+"Reader(bytes.NewReader(data))", ok, "returns "+got)
	}
	// base64 stream readers hand the decoder of the caller's stream to the core
	for _, c := range []struct{ n, core string }{{"FromCborBase64Reader", "FromCborReader"}, {"FromCarBase64Reader", "FromCarReader"}} {
		f := x.fn("C17.R1", ctnPkg+c.n)
		if f == nil {
			continue
		}
		ps := x.pathsQuiet(f)
		want := x.call(ctnPkg+c.core, "call[encoding/base64.NewDecoder](*global(encoding/base64.StdEncoding),arg0)")
		ok := len(ps) == 1 && ps[0].End == paths.EndReturn && ps[0].Results()[0].String() == want+"#0"
		x.C.Obl("C17.R1", "base64-wraps-caller-stream:"+c.n, x.pos(f), c.n+" decodes base64 from the caller's reader and hands that to "+c.core, ok, "")
	}
	// byte variants of writers: To<X>() collects To<X>Writer(&buf)
	for _, n := range []string{"ToCbor", "ToCborBase64", "ToCar", "ToCarBase64"} {
		f := x.fn("C17.R1", "("+ctnPkg+"Writer)."+n)
		if f == nil {
			continue
		}
		sel, _, _ := x.E.Select(f, paths.WantSuccess)
		ok := len(sel) == 1
		for _, v := range sel {
			r := v.Results()[0]
			if r.Op != "call" || r.Name != "(*bytes.Buffer).Bytes" || r.Args[0].Op != "alloc" {
				ok = false
				continue
			}
			w := "call[(" + ctnPkg + "Writer)." + n + "Writer](recv," + r.Args[0].String() + ")"
			if !v.HasFact(eqs(w, "const(nil)"), true) {
				ok = false
			}
		}
		x.C.Obl("C17.R1", "bytes-variant:"+n, x.pos(f), n+"() returns the bytes "+n+"Writer wrote into a fresh buffer, after its success", ok, "")
	}
	// base64 stream writers write the core format into the encoder of the caller's stream
	for _, c := range []struct{ n, core string }{{"ToCborBase64Writer", "ToCborWriter"}, {"ToCarBase64Writer", "ToCarWriter"}} {
		f := x.fn("C17.R1", "("+ctnPkg+"Writer)."+c.n)
		if f == nil {
			continue
		}
		enc := "call[encoding/base64.NewEncoder](*global(encoding/base64.StdEncoding),arg0)"
		core := "call[(" + ctnPkg + "Writer)." + c.core + "](recv," + enc + ")"
		x.noPath("C17.R1", "base64-wraps-caller-stream:"+c.n, f, paths.WantSuccess, atoms(map[string]bool{eqs(core, "const(nil)"): false}), 0,
			c.n+" succeeds only if "+c.core+" wrote into the base64 encoder of the caller's writer")
	}
}

// readerDoors lists the functions that store an entry into a container.Reader.
func readerDoors(x *Ctx) map[string]*ssa.Function {
	readerT := load.Module + "/pkg/container.Reader"
	out := map[string]*ssa.Function{}
	for _, f := range x.P.ModuleFuncs() {
		if !x.P.IsLibrary(f) {
			continue
		}
		for _, b := range f.Blocks {
			for _, in := range b.Instrs {
				if mu, ok := in.(*ssa.MapUpdate); ok && mu.Map.Type().String() == readerT {
					out[load.ShortName(f)] = f
				}
			}
		}
	}
	return out
}

// singleDoor: wherever an entry is stored into a Reader (in addToken today; in the reading loops themselves if it
// is written out there), it is the token returned by token.FromSealed(data) under the CID the same call
// returned, on a path that knows the call to have succeeded.
func singleDoor(x *Ctx) {
	iteratorPairs(x)
	readerT := load.Module + "/pkg/container.Reader"
	doors := readerDoors(x)
	var names []string
	for n := range doors {
		names = append(names, n)
	}
	sort.Strings(names)
	x.C.Obl("C17.R2", "who-stores", "-", "entries are stored into a container.Reader somewhere in the library (each site is checked below)", len(names) >= 1, strings.Join(names, " "))
	for _, name := range names {
		f := doors[name]
		ok, n := true, 0
		detail := ""
		for _, p := range x.pathsQuiet(f) {
			p.InstrsIn(func(in ssa.Instruction, c *paths.Ctx) {
				mu, isMU := in.(*ssa.MapUpdate)
				if !isMU || mu.Map.Type().String() != readerT {
					return
				}
				n++
				k, v := c.Term(mu.Key), c.Term(mu.Value)
				good := k.Op == "extract" && v.Op == "extract" && k.Name == "#1" && v.Name == "#0" && len(k.Args) == 1 && len(v.Args) == 1 &&
					k.Args[0].String() == v.Args[0].String() && k.Args[0].Op == "call" && k.Args[0].Name == "token.FromSealed"
				if !good {
					ok = false
					detail += fmt.Sprintf("%s: stores %s under %s: not the token and the CID returned by one call of token.FromSealed\n", x.P.Pos(in.Pos()), v, k)
					return
				}
				if !p.HasFact(eqs(k.Args[0].String()+"#2", "const(nil)"), true) {
					ok = false
					detail += fmt.Sprintf("%s: the entry is stored on a path that does not know token.FromSealed to have succeeded\n", x.P.Pos(in.Pos()))
				}
			})
		}
		x.C.Obl("C17.R2", "door:"+name, x.pos(f), "stores the token returned by token.FromSealed(data) under the CID it returned, only after its success", ok && n > 0, dedupLines(detail))
		// and a token that cannot be read stops the reading: on every path through the call that does not know it to
		// have succeeded the function fails (a tolerated kind of error - a sentinel, a "skip" flag - drops the entry
		// and hands back a smaller container without an error)
		okA, nA := true, 0
		detailA := ""
		for _, p := range x.pathsQuiet(f) {
			for _, c := range p.Calls() {
				ct := p.Term(c)
				if ct == nil || ct.Op != "call" || ct.Name != "token.FromSealed" {
					continue
				}
				nA++
				if p.HasFact(eqs(ct.String()+"#2", "const(nil)"), true) {
					continue
				}
				failing := p.End == paths.EndPanic
				if p.End == paths.EndReturn {
					if o, _ := p.ErrorOutcome(); o == paths.Failure || o == paths.Delegated {
						failing = true
					}
					// the body of a range-over-func loop: "return nil, err" is compiled into stores to the enclosing
					// function's results and a false answer that stops the iteration
					if !returnsError(f.Signature) && f.Parent() != nil {
						if known, val, _, _ := p.BoolResult(0); known && !val {
							failing = true
						}
					}
				}
				if !failing {
					okA = false
					detailA += "a path on which token.FromSealed is not known to have succeeded goes on without failing:\n" + p.String() + "\n"
				}
			}
		}
		x.C.Obl("C17.R3", "unreadable-token-aborts:"+name, x.pos(f), "every path on which token.FromSealed did not succeed ends in a failure", okA && nA > 0, firstLines(detailA, 14))
	}
}

func allOrNothing(x *Ctx) {
	// what adds a token: a call of a function that stores into a Reader, or - where the store is written out in
	// the loop itself - the call of token.FromSealed whose results are stored
	doors := readerDoors(x)
	add := func(n string, ct *paths.Term) bool { return doors[n] != nil || n == "token.FromSealed" }
	dataArg := func(ct *paths.Term) string {
		if ct.Name == "token.FromSealed" && len(ct.Args) >= 1 {
			return ct.Args[0].String()
		}
		if len(ct.Args) == 2 {
			return ct.Args[1].String()
		}
		return ""
	}
	// CAR: the yield function of the range-over-func loop
	// (the body of the loop over the blocks of readCar's iterator, in FromCarReader or wherever that loop was moved to)
	var carBody *ssa.Function
	for _, g := range x.P.ModuleFuncs() {
		if g.Parent() == nil || !strings.Contains(g.Synthetic, "range-over-func") || x.P.PkgPathOf(g) != load.Module+"/pkg/container" || !x.P.IsLibrary(g) {
			continue
		}
		for _, b := range g.Blocks {
			for _, in := range b.Instrs {
				if c, ok := in.(ssa.CallInstruction); ok {
					if h := c.Common().StaticCallee(); h != nil && strings.HasSuffix(load.ShortName(h), ".addToken") && carBody == nil {
						root := g
						for root.Parent() != nil {
							root = root.Parent()
						}
						if fr := x.P.Func(ctnPkg + "FromCarReader"); fr != nil && (root == fr || x.P.ReachFrom(fr)[root]) {
							carBody = g
						}
					}
				}
			}
		}
	}
	if carBody == nil {
		x.C.Unresolved("C17.R3", "car:loop-body", "-", "the loop over the CAR blocks that calls addToken was not found")
	}
	if y := carBody; y != nil {
		x.noPath("C17.R3", "car:iterator-error", y, paths.WantTrue, atoms(map[string]bool{"eq(arg1,const(nil))": false}), 0, "the CAR loop does not continue after the block iterator yielded an error")
		x.noPath("C17.R3", "car:addToken-error", y, paths.WantTrue, paths.CallFails(add), 0, "the CAR loop does not continue after addToken failed")
		ok, detail := abortLeavesError(x, y)
		x.C.Obl("C17.R3", "car:abort-leaves-error", x.pos(y), "every abort of the CAR loop stores a non-nil error into the function's result", ok, detail)
		// the data handed to addToken is the block's data
		okD := false
		for _, p := range x.pathsQuiet(y) {
			for _, c := range p.Calls() {
				ct := p.Term(c)
				if (ct.Op == "call") && add(ct.Name, ct) && dataArg(ct) == "arg0.data" {
					okD = true
				}
			}
		}
		x.C.Obl("C17.R3", "car:block-data", x.pos(y), "addToken receives the data of the block that was read", okD, "")
	}
	// CBOR: iterator loop
	if f := x.fn("C17.R3", ctnPkg+"FromCborReader"); f != nil {
		ls := loopsIn(f)
		if len(ls) != 1 {
			x.C.Unresolved("C17.R3", "loop:FromCborReader", x.pos(f), fmt.Sprintf("expected one loop over the token list, found %d", len(ls)))
		} else {
			l := ls[0].L
			x.mustBlock("C17.R3", "cbor:addToken-error", f, l, paths.CallFails(add), 0, "an iteration continues (or the function succeeds from inside the loop) only if addToken succeeded")
			x.mustBlock("C17.R3", "cbor:iterator-error", f, l, paths.CallFails(func(n string, _ *paths.Term) bool {
				return strings.HasSuffix(n, "datamodel.ListIterator.Next") || strings.HasSuffix(n, "datamodel.Node.AsBytes")
			}), 0, "an iteration continues only if the list iterator and AsBytes succeeded")
			// success only after exhaustion: every success path carries Done() == true
			sel, _, _ := x.E.Select(f, paths.WantSuccess)
			ok := len(sel) > 0
			for _, v := range sel {
				done := false
				for _, fc := range v.Facts {
					if fc.Pol && fc.Atom.Op == "invoke" && strings.HasSuffix(fc.Atom.Name, "ListIterator.Done") {
						done = true
					}
				}
				if !done || v.EntersBody(l) {
					ok = false
				}
			}
			x.C.Obl("C17.R3", "cbor:success-after-exhaustion", x.pos(f), "FromCborReader succeeds only after the list iterator is done", ok, "")
		}
	}
}

// abortLeavesError: in a range-over-func yield function, every `return false` path stores into a
// captured error cell a value that the path knows to be non-nil.
func abortLeavesError(x *Ctx, y *ssa.Function) (bool, string) {
	ok, n := true, 0
	detail := ""
	for _, p := range x.pathsQuiet(y) {
		if p.End != paths.EndReturn {
			continue
		}
		known, val, _, _ := p.BoolResult(0)
		if !known || val {
			continue
		}
		n++
		good := false
		p.Instrs(func(in ssa.Instruction) {
			st, isSt := in.(*ssa.Store)
			if !isSt {
				return
			}
			if _, isFV := st.Addr.(*ssa.FreeVar); !isFV {
				return
			}
			if !types.Identical(st.Val.Type(), types.Universe.Lookup("error").Type()) {
				return
			}
			v := p.Term(st.Val)
			if pol, has := p.FactOn(eqs(v.String(), "const(nil)")); has && !pol {
				good = true
			}
		})
		if !good {
			ok = false
			detail += "an abort path does not leave a known non-nil error:\n" + p.String() + "\n"
		}
	}
	return ok && n > 0, detail
}

func carIntegrity(x *Ctx) {
	f := x.fn("C17.R4", ctnPkg+"readBlock")
	if f == nil {
		return
	}
	raw := "call[" + ctnPkg + "ldRead](arg0)#0"
	cfr := "call[github.com/ipfs/go-cid.CidFromReader](call[bytes.NewReader](" + raw + "))"
	data := "slice(" + raw + "," + cfr + "#0,_,_)"
	hashed := "call[(github.com/ipfs/go-cid.Prefix).Sum](call[(github.com/ipfs/go-cid.Cid).Prefix](" + cfr + "#1)," + data + ")"
	eq := "call[(github.com/ipfs/go-cid.Cid).Equals](" + hashed + "#0," + cfr + "#1)"
	x.noPath("C17.R4", "hash-compared", f, paths.WantSuccess, atoms(map[string]bool{eq: false}), 0,
		"readBlock succeeds only if Prefix(cid).Sum(data) equals the stored CID, cid and data being the two parts of the same section")
	x.noPath("C17.R4", "errors-checked", f, paths.WantSuccess, paths.CallFails(callee(ctnPkg+"ldRead", "github.com/ipfs/go-cid.CidFromReader", "(github.com/ipfs/go-cid.Prefix).Sum")), 0,
		"readBlock fails when the section, the CID or the hash cannot be computed")
	sel, _, _ := x.E.Select(f, paths.WantSuccess)
	ok := len(sel) > 0
	for _, v := range sel {
		cell := paths.CellOf(v.Results()[0])
		if cell == nil {
			ok = false
			continue
		}
		fs := v.FieldStores(cell)
		if fs["c"] == nil || fs["c"].String() != cfr+"#1" || fs["data"] == nil || fs["data"].String() != data {
			ok = false
		}
	}
	x.C.Obl("C17.R4", "returns-verified-parts", x.pos(f), "the block returned carries exactly the CID and data that were compared", ok, "")
}

func writersCover(x *Ctx) {
	// CAR: the code reachable from ToCarWriter that ranges over the writer's map (a closure handed to writeCar
	// today; a method value or helper would do) yields {c: key, data: value} for every entry
	if root := x.fn("C17.R5", "("+ctnPkg+"Writer).ToCarWriter"); root != nil {
		rs := rangesOverWriter(x, root)
		if len(rs) == 0 {
			x.C.Unresolved("C17.R5", "range:ToCarWriter", x.pos(root), "no loop over the writer's map is reachable from ToCarWriter inside package container")
		}
		for _, r := range rs {
			f, m := r.fn, "next(range("+r.mapTerm+"))"
			ok, n := true, 0
			for _, p := range x.pathsQuiet(f) {
				if p.End != paths.EndLatch {
					continue
				}
				n++
				has := false
				for _, c := range p.Calls() {
					ct := p.Term(c)
					if ct.Op == "dyncall" && ct.Args[0].Op == "param" && len(ct.Args) == 3 {
						cell := paths.CellOf(ct.Args[1])
						if cell != nil {
							fs := p.FieldStores(cell)
							if fs["c"] != nil && fs["c"].String() == m+"#1" && fs["data"] != nil && fs["data"].String() == m+"#2" && ct.Args[2].IsNil() {
								has = true
							}
						}
					}
				}
				if !has {
					ok = false
				}
			}
			ok = ok && n > 0
			x.C.Obl("C17.R5", "car:yields-all", x.pos(f), "ToCarWriter yields {cid: key, data: value} for every entry of the writer's map", ok, "")
		}
	}
	carWriterAbort(x, "C17.R5")
	var consumer *ssa.Function
	if wc := x.P.Func(ctnPkg + "writeCar"); wc != nil {
		consumer = carConsumer(x, wc) // its absence is reported by carWriterAbort
	}
	if f := consumer; f != nil {
		w := func(n string, ct *paths.Term) bool {
			return n == ctnPkg+"ldWrite" && len(ct.Args) == 2 && ct.Args[1].String() == "[call[(github.com/ipfs/go-cid.Cid).Bytes](arg0.c),arg0.data]"
		}
		x.noPath("C17.R5", "car:writes-cid-and-data", f, paths.WantTrue, paths.CallFails(w), 0, "writeCar continues only after writing cid bytes ++ data of the block as one section")
	}
	if root := x.fn("C17.R5", "("+ctnPkg+"Writer).ToCborWriter"); root != nil {
		rs := rangesOverWriter(x, root)
		if len(rs) == 0 {
			x.C.Unresolved("C17.R5", "range:ToCborWriter", x.pos(root), "no loop over the writer's map is reachable from ToCborWriter inside package container")
		}
		for _, r := range rs {
			f := r.fn
			ok, n := true, 0
			for _, p := range x.pathsQuiet(f) {
				if p.End != paths.EndLatch {
					continue
				}
				n++
				has := false
				for _, c := range p.Calls() {
					ct := p.Term(c)
					if strings.HasSuffix(ct.Name, "qp.ListEntry") && strings.Contains(ct.String(), "qp.Bytes](next(range("+r.mapTerm+"))#2)") {
						has = true
					}
				}
				if !has {
					ok = false
				}
			}
			ok = ok && n > 0
			x.C.Obl("C17.R5", "cbor:writes-all", x.pos(f), "ToCborWriter adds the data of every entry of the writer's map to the list", ok, "")
		}
	}
}

type writerRange struct {
	fn      *ssa.Function
	mapTerm string
}

// rangesOverWriter finds, among the functions of package container reachable from root (context-sensitively:
// closures, method values and helpers it hands on are followed), those that range over a value of type
// container.Writer, with the rendering of that value inside the function.
func rangesOverWriter(x *Ctx, root *ssa.Function) []writerRange {
	var out []writerRange
	var fs []*ssa.Function
	for g := range x.P.ReachFrom(root) {
		if x.P.PkgPathOf(g) == load.Module+"/pkg/container" {
			fs = append(fs, g)
		}
	}
	sort.Slice(fs, func(i, j int) bool { return load.ShortName(fs[i]) < load.ShortName(fs[j]) })
	for _, g := range fs {
		for _, b := range g.Blocks {
			for _, in := range b.Instrs {
				if rg, ok := in.(*ssa.Range); ok && rg.X.Type().String() == load.Module+"/pkg/container.Writer" {
					out = append(out, writerRange{g, paths.DetachedTerm(g, rg.X).String()})
				}
			}
		}
	}
	return out
}

// carWriterAbort: the body that consumes the block iterator in writeCar (the yield function of its
// range-over-func loop, or a callback handed to the iterator): every abort leaves a non-nil error for writeCar
// to return.
func carWriterAbort(x *Ctx, rule string) {
	if wc := x.fn(rule, ctnPkg+"writeCar"); wc != nil {
		y := carConsumer(x, wc)
		if y == nil {
			x.C.Unresolved(rule, "consumer:writeCar", x.pos(wc), "cannot find the function that consumes the block iterator")
		} else {
			ok, detail := abortLeavesError(x, y)
			x.C.Obl(rule, "car:abort-leaves-error", x.pos(y), "when writing a block fails (or the iterator yields an error) the loop stops and a non-nil error reaches writeCar's result", ok, detail)
		}
	}
}

// carConsumer finds the function run for every block of the iterator writeCar is given: the argument of the call
// of the iterator parameter, in writeCar itself or in a new helper of the package the loop was moved to.
func carConsumer(x *Ctx, wc *ssa.Function) *ssa.Function {
	cands := []*ssa.Function{wc}
	var more []*ssa.Function
	for g := range x.P.ReachFrom(wc) {
		if g != wc && x.P.IsNewHelper(g) && x.P.PkgPathOf(g) == x.P.PkgPathOf(wc) && g.Parent() == nil {
			more = append(more, g)
		}
	}
	sort.Slice(more, func(i, j int) bool { return load.ShortName(more[i]) < load.ShortName(more[j]) })
	cands = append(cands, more...)
	for _, g := range cands {
		for _, p := range x.pathsQuiet(g) {
			for _, c := range p.Calls() {
				pv, isParam := c.Call.Value.(*ssa.Parameter)
				if !isParam || pv.Parent() != g || len(c.Call.Args) != 1 {
					continue
				}
				if g == wc && pv != wc.Params[len(wc.Params)-1] {
					continue
				}
				if _, isFn := c.Call.Args[0].Type().Underlying().(*types.Signature); !isFn {
					continue
				}
				if h, _ := paths.FuncOfTerm(p.Term(c.Call.Args[0])); h != nil {
					return h
				}
			}
		}
	}
	return nil
}

// iteratorPairs (C17.R2): the iterators of a Reader (GetAllDelegations, GetAllInvocations, whatever helper they
// share) hand out (CID, token) pairs. Both halves of a pair come from the same step over the map - key and
// value of one range step, or the value looked up under that very key - so that the CID yielded is the CID the
// token was stored under. Two lists built separately (and sorted separately) do not qualify.
func iteratorPairs(x *Ctx) {
	var all []*ssa.Function
	var add func(f *ssa.Function)
	add = func(f *ssa.Function) {
		all = append(all, f)
		for _, a := range f.AnonFuncs {
			add(a)
		}
	}
	for _, f := range x.P.ModuleFuncs() {
		if x.P.IsLibrary(f) && x.P.PkgPathOf(f) == load.Module+"/pkg/container" && f.Parent() == nil {
			add(f)
		}
	}
	root := func(v ssa.Value) (next *ssa.Next, idx int, lookup *ssa.Lookup) {
		for depth := 0; depth < 8 && v != nil; depth++ {
			switch t := v.(type) {
			case *ssa.TypeAssert:
				v = t.X
			case *ssa.ChangeType:
				v = t.X
			case *ssa.ChangeInterface:
				v = t.X
			case *ssa.MakeInterface:
				v = t.X
			case *ssa.Extract:
				if n, ok := t.Tuple.(*ssa.Next); ok {
					return n, t.Index, nil
				}
				v = t.Tuple
			case *ssa.Lookup:
				return nil, 0, t
			default:
				return nil, 0, nil
			}
		}
		return nil, 0, nil
	}
	n, bad := 0, ""
	for _, f := range all {
		if len(f.Params) == 0 {
			continue
		}
		y := f.Params[len(f.Params)-1]
		ys, ok := y.Type().Underlying().(*types.Signature)
		if !ok || ys.Params().Len() != 2 || ys.Results().Len() != 1 || !strings.HasSuffix(ys.Params().At(0).Type().String(), "go-cid.Cid") {
			continue
		}
		for _, b := range f.Blocks {
			for _, in := range b.Instrs {
				c, ok := in.(*ssa.Call)
				if !ok || c.Call.Value != ssa.Value(y) || len(c.Call.Args) != 2 {
					continue
				}
				n++
				kn, ki, _ := root(c.Call.Args[0])
				vn, vi, vl := root(c.Call.Args[1])
				switch {
				case kn != nil && vn == kn && ki == 1 && vi == 2:
				case kn != nil && ki == 1 && vl != nil:
					if ln, li, _ := root(vl.Index); ln != kn || li != 1 {
						bad += x.P.Pos(c.Pos()) + ": the token yielded is looked up under another key than the CID yielded with it\n"
					}
				default:
					bad += x.P.Pos(c.Pos()) + ": the CID and the token yielded are not the key and the value of one step over the container: the pair can mismatch\n"
				}
			}
		}
	}
	x.C.Obl("C17.R2", "iterator-pairs", "-", fmt.Sprintf("each of the %d yields of a (CID, token) iterator hands out the key and the value of one step over the map", n), bad == "" && n >= 2, dedupLines(bad))
}
