package rules

import (
	"fmt"
	"go/constant"
	"go/types"
	"os"
	"path/filepath"
	"sort"
	"strings"

	"golang.org/x/tools/go/ssa"

	"verif/lint/internal/load"
	"verif/lint/internal/paths"
	"verif/lint/internal/report"
)

func init() {
	register(&Property{
		Meta: report.Meta{
			Property:    "C07",
			Explanation: "Structural necessary conditions of a lossless seal/unseal: (R1) field bijection — from toIPLD the relation 'model field is fed from token field' and from tokenFromModel the relation 'token field is fed from model field' are extracted from the stores on every success path; they must be mutually inverse bijections over ALL fields of the Token struct and of the payload model, the model's fields must be the schema's fields, and optional/nullable schema fields must have nilable Go types; (R2) codec pairing — functions named *DagCbor* only reference dagcbor codec functions, *DagJson* only dagjson, sealed variants only DAG-CBOR; (R3) key-algorithm tables — multicodecs FromPubKey emits are accepted by Parse and have unmarshallers, key types have varsig headers; (R4) writer/reader bound agreement — every *time.Time field that toIPLD serialises is, in validate(), rejected beyond +/-(2^53-1) seconds exactly as parse.OptionalTimestamp rejects it on decode; (R5) validator symmetry — what the decoder validates (command grammar, policy integers, argument integers) validate() checks on construction too; (R6) the generic decoder dispatches to the typed decoders by their Tag constants. (R8) ordered containers: in packages args and meta, on every path a key is appended to X.Keys exactly when the path knows it to be absent from X.Values and stores a value under it (a key listed twice is sealed as a repeated map key that every decoder rejects). Equality of the round-tripped values themselves is a runtime-value clause and is not decided. validate may look at a *time.Time bound only through nil tests and Unix() (what the wire keeps); the Values map of an Args / Meta is made or cloned, never another container's map. The header written by envelope.ToIPLD is result #0 of a successful varsig.Encode(Type() of the signing key) on every sealing path, and the variable holding it is not written again. (R5) every failing exit of policy.FromIPLD / statementFromIPLD / statementsFromIPLD is selected by a fact that mentions the node being decoded. (R2) the float case of the JSON encoder that dagjson.Encode reaches (refmt json emitFloat, read from the module cache as part of the type-checked program) must contain a fraction marker constant, or a function of the module reachable from the DAG-JSON entry point must test for Kind_Float / call AsFloat. (R5) Args.Add / Meta.Add store a node only on paths with the fact Kind() != Kind_Null; every link built in literal.Any / anyAssemble is built on a path with Defined() true; invocation.validate (and helpers its code moved into) calls Defined on the cause and applies a Defined predicate to the proof list; no function reachable from toIPLD calls time.Now / Since / Until. (R6) static calls from package token into token/delegation and token/invocation are FromIPLD only. (R2) refmt emitString contains the constant \\ufffd and dagjson linkLookahead the constant /: unless module code reachable from the DAG-JSON entry points calls unicode/utf8.Valid* resp. compares with \"/\", the obligations fail (known findings). Every failing exit of envelope.FromIPLD (both instantiations) is selected by a fact whose head is one of: Inspect, the payload Tag, LookupByString, AssignNode, bindnode.Unwrap, AsString, did.Parse, PubKey, varsig.Encode, the header comparison, ipld.Encode, Verify, the final type assertion. (R1) in (*Args).Equals and (*Meta).Equals no == / != has an element of the receiver's Keys on one side and an element of the other's Keys on the other, and no call receives both Keys slices as loaded. (R5) for each of ==, <, <=, >, >=: a failing path of statementFromIPLD under the operator's kind fact that carries a fact on LookupByIndex(node, 2) requires a failing path of the function the operator's constructor returns with a fact on the value parameter. (R1) the last store into the cell written for a *time.Time field is call[(time.Time).Unix](*recv.<field>); in envelope.ToIPLD (literals and new helpers) the third argument of the qp.MapEntry call keyed by an invoke of Tag() is a call of qp.Node.",
			Assumptions: []string{"go-ipld-prime codecs and bindnode are lossless for the bound types (the float rendering of the JSON codec is not assumed: C07.R2 json-float-fidelity inspects it)", "time.Unix / Time.Unix are inverse at whole-second resolution"},
			Trusted:     []string{"go-ipld-prime (dagcbor, dagjson, bindnode)", "golang.org/x/tools/go/ssa v0.29.0"},
			NotDecided:  []string{"equality of round-tripped field values (runtime values)", "non-finite floats in arguments (excluded by the statement)"},
		},
		Run: runC07,
	})
}

func runC07(x *Ctx) {
	x.C.Rule("C07.R1", "field bijection token <-> model <-> schema; optional fields serialised exactly when set; the comparison of arguments and metadata is independent of key order", 10)
	x.C.Rule("C07.R2", "codec pairing by function name; floats, strings and maps keyed \"/\" survive the DAG-JSON form", 14)
	x.C.Rule("C07.R3", "key-algorithm tables; the header sealed is the one the verifier expects", 4)
	x.C.Rule("C07.R4", "constructors bound every serialised timestamp like the decoder; validate reads time bounds at wire resolution", 11)
	x.C.Rule("C07.R5", "construct-side counterparts of decode-side validators; the policy decoder refuses only for what the document holds; sealing does not read the clock; top-level nulls and undefined CIDs are refused; the envelope decoder refuses for the enumerated reasons only; a comparison statement is refused for its value only if its constructor refuses too", 21)
	x.C.Rule("C07.R6", "generic decoder = typed decoders, chosen from the decoded envelope", 2)
	x.C.Rule("C07.R7", "encoders return the codec's fresh output", 3)
	x.C.Rule("C07.R8", "ordered containers (Args, Meta): a key is appended to the key list exactly when it is new in the map; ToIPLD assembles every key", 5)

	for _, pk := range []string{"token/delegation", "token/invocation"} {
		fieldBijection(x, pk)
	}
	codecPairing(x)
	keysPairedWithValues(x)
	containerComplete(x, "C07.R8", "(*pkg/args.Args).ToIPLD")

	parse, pub, from, cfc := x.fn("C07.R3", "did.Parse"), x.fn("C07.R3", "(did.DID).PubKey"), x.fn("C07.R3", "did.FromPubKey"), x.fn("C07.R3", "did.codeForCurve")
	if parse != nil && pub != nil && from != nil && cfc != nil {
		emitted, parsed, table, _, _ := didCodeTables(x, parse, pub, from, cfc)
		miss := func(a, b map[string]bool) string {
			var m []string
			for k := range a {
				if !b[k] {
					m = append(m, k)
				}
			}
			sort.Strings(m)
			return strings.Join(m, ",")
		}
		x.C.Obl("C07.R3", "emitted-subset-parsed", x.pos(parse), "every multicodec a generated key's DID carries is accepted by did.Parse (else its tokens cannot be decoded)", miss(emitted, parsed) == "" && len(emitted) >= 6, "emitted but rejected by Parse: "+miss(emitted, parsed))
		x.C.Obl("C07.R3", "parsed-subset-table", x.pos(pub), "every accepted multicodec has an unmarshaller", miss(parsed, table) == "", miss(parsed, table))
		x.C.Obl("C07.R3", "generators", x.pos(from), "generatable algorithms: Ed25519, secp256k1, P-256, P-384, P-521, RSA", len(emitted) == 6, fmt.Sprint(keysOf(emitted)))
	}
	// the header written when sealing is the header the verifier will expect: the verifier compares the envelope's
	// header with varsig.Encode(type of the issuer's key) (C06.R1); the sealing side must call the same function
	// with the type of the signing key, and no other function of package varsig
	if to := x.fn("C07.R3", "token/internal/envelope.ToIPLD"); to != nil {
		bad, n := "", 0
		for _, p := range x.pathsQuiet(to) {
			p.InstrsIn(func(in ssa.Instruction, c *paths.Ctx) {
				call, ok := in.(*ssa.Call)
				if !ok {
					return
				}
				ct := c.Term(call)
				if ct == nil || ct.Op != "call" || !strings.HasPrefix(ct.Name, "token/internal/varsig.") {
					return
				}
				n++
				okArg := false
				if len(ct.Args) == 1 {
					a := ct.Args[0].String()
					okArg = a == "invoke[github.com/libp2p/go-libp2p/core/crypto.PrivKey.Type](arg0)" ||
						a == "invoke[github.com/libp2p/go-libp2p/core/crypto.PubKey.Type](invoke[github.com/libp2p/go-libp2p/core/crypto.PrivKey.GetPublic](arg0))" ||
						a == "invoke[github.com/libp2p/go-libp2p/core/crypto.Key.Type](arg0)"
				}
				if ct.Name != "token/internal/varsig.Encode" || !okArg {
					bad += fmt.Sprintf("%s: sealing derives the header with %s: the verifier expects varsig.Encode(type of the key)\n", x.P.Pos(call.Pos()), ct)
				}
			})
		}
		// and every path that seals passed through it
		for _, p := range x.pathsQuiet(to) {
			if o, _ := p.ErrorOutcome(); o == paths.Failure || p.End != paths.EndReturn {
				continue
			}
			has := false
			p.InstrsIn(func(in ssa.Instruction, c *paths.Ctx) {
				if call, ok := in.(*ssa.Call); ok {
					if ct := c.Term(call); ct != nil && ct.Op == "call" && ct.Name == "token/internal/varsig.Encode" && p.HasFact(eqs(ct.String()+"#1", "const(nil)"), true) {
						has = true
					}
				}
			})
			if !has {
				bad += "a path seals a token without a successful varsig.Encode(type of the key): the header comes from somewhere else\n" + p.String() + "\n"
			}
			// the variable that receives Encode's result holds it, unchanged, when the envelope is assembled
			var cells []*ssa.Alloc
			var encTerm string
			p.InstrsIn(func(in ssa.Instruction, c *paths.Ctx) {
				if st, ok := in.(*ssa.Store); ok {
					if a, isA := st.Addr.(*ssa.Alloc); isA {
						if v := c.Term(st.Val); v != nil && v.Op == "extract" && v.Name == "#0" && len(v.Args) == 1 && v.Args[0].Op == "call" && v.Args[0].Name == "token/internal/varsig.Encode" {
							cells = append(cells, a)
							encTerm = v.String()
						}
					}
				}
			})
			for _, a := range cells {
				if lv := p.LastStore(a); lv != nil && lv.String() != encTerm {
					bad += fmt.Sprintf("%s: the header variable is overwritten with %s after varsig.Encode filled it\n", x.P.Pos(a.Pos()), lv)
				}
			}
		}
		x.C.Obl("C07.R3", "header-writer:ToIPLD", x.pos(to), "the header sealed is varsig.Encode(type of the signing key), the function the verifier compares with", bad == "" && n > 0, firstLines(dedupLines(bad), 14))
	}

	timestampBounds(x)
	validatorSymmetry(x)
	decodeOnlyValidators(x)
	documentDecides(x)
	jsonFloatFidelity(x)
	jsonTextFidelity(x)
	noClockOnSealing(x)
	unreadableValuesRefused(x)
	envelopeRefusals(x)
	operandAgreement(x)
	orderFreeEquals(x)
	payloadVerbatim(x)
	typedDecodersThroughFromIPLD(x)
	freshEncoderOutput(x)

	// R6
	if f := x.fn("C07.R6", "token.fromIPLD"); f != nil {
		sel, _, _ := x.E.Select(f, paths.WantSuccess)
		nD, nI, other := 0, 0, ""
		for _, v := range sel {
			r := v.Results()[0]
			switch {
			case decodesWith(r, "token/delegation", "FromIPLD", "arg0"):
				nD++
			case decodesWith(r, "token/invocation", "FromIPLD", "arg0"):
				nI++
			default:
				if tbl := tagDispatchTable(x, r, "call[token/internal/envelope.FindTag](arg0)#0"); tbl != nil {
					for _, fn := range tbl {
						switch fn {
						case "token/delegation.FromIPLD":
							nD++
						case "token/invocation.FromIPLD":
							nI++
						default:
							other += fn + " "
						}
					}
					continue
				}
				other += r.String() + " "
			}
		}
		x.C.Obl("C07.R6", "generic-is-typed", x.pos(f), "token.fromIPLD produces tokens only through delegation.FromIPLD and invocation.FromIPLD applied to its node", nD >= 1 && nI >= 1 && other == "", other)
	}
}

// mentions collects the fields of base (recv / arg0) mentioned by t, looking through local cells.
func mentions_(v paths.VPath, t *paths.Term, base string, out map[string]bool, depth int) {
	if t == nil || depth > 4 {
		return
	}
	t.Walk(func(s *paths.Term) {
		if s.Op == "field" && len(s.Args) == 1 && s.Args[0].String() == base {
			out[s.Name] = true
		}
		if s.Op == "alloc" {
			if a, ok := s.Val.(*ssa.Alloc); ok {
				// the cell is named per activation: a helper spliced in twice has two distinct cells
				v.InstrsIn(func(in ssa.Instruction, c *paths.Ctx) {
					if st, ok := in.(*ssa.Store); ok && st.Addr == ssa.Value(a) && c.Term(st.Addr).String() == s.String() {
						mentions_(v, c.Term(st.Val), base, out, depth+1)
					}
				})
			}
		}
	})
}

func fieldBijection(x *Ctx, pk string) {
	tok := "(*" + pk + ".Token)."
	enc := x.fn("C07.R1", tok+"toIPLD")
	dec := x.fn("C07.R1", pk+".tokenFromModel")
	if enc == nil || dec == nil {
		return
	}
	tokFields := x.structFields("C07.R1", pk, "Token")
	modelFields := x.structFields("C07.R1", pk, "tokenPayloadModel")
	// encoder: model field -> set of token fields
	encRel := map[string]map[string]bool{}
	esel, _, err := x.E.Select(enc, paths.WantSuccess)
	if err != nil || len(esel) == 0 {
		x.C.Unresolved("C07.R1", "success:"+tok+"toIPLD", x.pos(enc), "no classifiable success path")
		return
	}
	for _, v := range esel {
		r := v.Results()[0]
		ct, _ := paths.CallOf(r)
		if ct == nil || ct.Name != "token/internal/envelope.ToIPLD" || len(ct.Args) != 2 {
			x.C.Obl("C07.R1", "seals-model:"+pk, x.pos(enc), "toIPLD returns envelope.ToIPLD(privKey, model)", false, "returns "+r.String())
			return
		}
		cell := paths.CellOf(ct.Args[1])
		if cell == nil {
			continue
		}
		for m, val := range v.FieldStores(cell) {
			if encRel[m] == nil {
				encRel[m] = map[string]bool{}
			}
			mentions_(v, val, "recv", encRel[m], 0)
		}
	}
	// decoder: token field -> set of model fields
	decRel := map[string]map[string]bool{}
	dsel, _, err := x.E.Select(dec, paths.WantSuccess)
	if err != nil || len(dsel) == 0 {
		x.C.Unresolved("C07.R1", "success:"+pk+".tokenFromModel", x.pos(dec), "no classifiable success path")
		return
	}
	for _, v := range dsel {
		cell := paths.CellOf(v.Results()[0])
		if cell == nil {
			continue
		}
		for f, val := range v.FieldStores(cell) {
			if decRel[f] == nil {
				decRel[f] = map[string]bool{}
			}
			mentions_(v, val, "arg0", decRel[f], 0)
		}
	}
	bad := ""
	usedModel := map[string]string{}
	for _, f := range tokFields {
		var encM []string
		for m, fs := range encRel {
			if fs[f] {
				encM = append(encM, m)
			}
		}
		sort.Strings(encM)
		var decM []string
		for m := range decRel[f] {
			decM = append(decM, m)
		}
		sort.Strings(decM)
		if len(encM) != 1 || len(decM) != 1 || encM[0] != decM[0] {
			bad += fmt.Sprintf("token field %s: serialised into model field(s) %v, restored from model field(s) %v\n", f, encM, decM)
			continue
		}
		if prev, dup := usedModel[encM[0]]; dup {
			bad += fmt.Sprintf("model field %s carries both %s and %s\n", encM[0], prev, f)
		}
		usedModel[encM[0]] = f
	}
	for _, m := range modelFields {
		if _, ok := usedModel[m]; !ok {
			bad += "model field " + m + " is not the image of exactly one token field\n"
		}
	}
	x.C.Obl("C07.R1", "bijection:"+pk, x.pos(enc), fmt.Sprintf("toIPLD and tokenFromModel are inverse bijections between the %d token fields and the %d model fields", len(tokFields), len(modelFields)), bad == "" && len(tokFields) == len(modelFields), bad)
	// presence: a pointer-typed token field (time bounds, cause) that is set is written; the wire form says
	// "absent" only on paths that know the token field to be nil (a sealed token that drops a bound that was set
	// - the zero time, say - unseals as a different token)
	badP, nP := "", 0
	for _, v := range esel {
		ct, _ := paths.CallOf(v.Results()[0])
		if ct == nil || len(ct.Args) != 2 {
			continue
		}
		cell := paths.CellOf(ct.Args[1])
		if cell == nil {
			continue
		}
		fs := v.FieldStores(cell)
		for m, f := range usedModel {
			ft := fieldType(x, pk, "Token", f)
			if ft == nil {
				continue
			}
			isDID := strings.HasSuffix(ft.String(), "did.DID")
			if ft.String() != "*time.Time" && !isDID {
				continue // other optional fields are copied as they are (cause) or have a documented empty form (meta)
			}
			val := fs[m]
			absent := val == nil || val.IsNil()
			known, has := v.FactOn(eqs("recv."+f, "const(nil)"))
			if isDID {
				// an optional principal (written through a *string): absent exactly when it is did.Undef; a
				// required principal is not conditional at all and is skipped
				mf := fieldType(x, pk, "tokenPayloadModel", m)
				if mf == nil {
					continue
				}
				if _, isPtr := mf.Underlying().(*types.Pointer); !isPtr {
					continue
				}
				known, has = v.FactOn(eqs("*global(did.Undef)", "recv."+f))
				if !has {
					// the same test through the accessor: Defined() is "not Undef"
					if d, okD := v.FactOn("call[(did.DID).Defined](recv." + f + ")"); okD {
						known, has = !d, true
					}
				}
				// nothing else may decide: any other condition on the field on this path is a second rule
				for _, fc := range v.Facts {
					if fc.Atom.Op == "eq" && strings.Contains(fc.Atom.String(), "recv."+f) && fc.Atom.String() != eqs("*global(did.Undef)", "recv."+f) {
						badP += fmt.Sprintf("whether model field %s is written also depends on %s: the decoder only knows 'absent = undefined'\n", m, fc.Atom)
					}
				}
			}
			nP++
			if !absent && !isDID {
				// and what is written is the whole seconds of that very bound, as Unix() counts them (floor): a count
				// derived another way (milliseconds divided by 1000, a rounded value) differs for some instants
				if _, isA := val.Val.(*ssa.Alloc); isA && val.Op == "alloc" {
					// the last store into this very cell (a helper called once per bound has one cell per call)
					var lv *paths.Term
					v.Path.InstrsIn(func(in ssa.Instruction, c *paths.Ctx) {
						if st, ok := in.(*ssa.Store); ok {
							if at := c.Term(st.Addr); at != nil && at == val {
								lv = c.Term(st.Val)
							}
						}
					})
					if lv != nil && lv.String() != "call[(time.Time).Unix](*recv."+f+")" {
						badP += fmt.Sprintf("model field %s is written as %s: not (time.Time).Unix() of token field %s\n", m, lv, f)
					}
				}
			}
			switch {
			case absent && !(has && known):
				badP += fmt.Sprintf("model field %s is left absent on a path that does not know token field %s to be nil:\n%s\n", m, f, v.Path.String())
			case !absent && !(has && !known):
				badP += fmt.Sprintf("model field %s is written on a path that does not know token field %s to be set\n", m, f)
			}
		}
	}
	x.C.Obl("C07.R1", "presence:"+pk, x.pos(enc), "a time bound of the token is serialised exactly when it is set", badP == "" && nP > 0, firstLines(dedupLines(badP), 14))
	var pairs []string
	for m, f := range usedModel {
		pairs = append(pairs, f+"<->"+m)
	}
	sort.Strings(pairs)
	x.C.Note("%s field pairing: %s", pk, strings.Join(pairs, " "))

	// schema
	name := filepath.Base(pk)
	src, rerr := os.ReadFile(filepath.Join(x.P.Dir, pk, name+".ipldsch"))
	if rerr != nil {
		x.C.Unresolved("C07.R1", "schema:"+pk, "-", rerr.Error())
		return
	}
	sch := parseSchema(string(src))
	bad = ""
	for _, m := range modelFields {
		sf, ok := sch[strings.ToLower(m)]
		if !ok {
			bad += "model field " + m + " has no schema field " + strings.ToLower(m) + "\n"
			continue
		}
		if sf.Optional || sf.Nullable {
			ft := fieldType(x, pk, "tokenPayloadModel", m)
			switch ft.Underlying().(type) {
			case *types.Pointer, *types.Slice, *types.Map:
			default:
				bad += fmt.Sprintf("schema field %s is optional/nullable but the Go field %s has the non-nilable type %s\n", strings.ToLower(m), m, ft)
			}
		}
	}
	for sname := range sch {
		found := false
		for _, m := range modelFields {
			if strings.ToLower(m) == sname {
				found = true
			}
		}
		if !found {
			bad += "schema field " + sname + " has no model field\n"
		}
	}
	x.C.Obl("C07.R1", "schema-model:"+pk, pk+"/"+name+".ipldsch", fmt.Sprintf("the %d schema fields are the model's fields; optional/nullable ones are nilable in Go", len(sch)), bad == "" && len(sch) == len(modelFields), bad)
	// model order = schema order (bindnode binds by name, order kept as documentation)
	x.C.Obl("C07.R1", "fields-counted:"+pk, x.pos(dec), "Token, model and schema have the same number of fields", len(tokFields) == len(modelFields) && len(sch) == len(modelFields), fmt.Sprintf("%d %d %d", len(tokFields), len(modelFields), len(sch)))
}

func fieldType(x *Ctx, pkgRel, typ, field string) types.Type {
	sp := x.P.SSA[load.Module+"/"+pkgRel]
	tn := sp.Pkg.Scope().Lookup(typ).(*types.TypeName)
	st := tn.Type().Underlying().(*types.Struct)
	for i := 0; i < st.NumFields(); i++ {
		if paths.FieldName(st.Field(i)) == field {
			return st.Field(i).Type()
		}
	}
	return types.Typ[types.Invalid]
}

func codecPairing(x *Ctx) {
	bad := ""
	n := 0
	for _, f := range x.P.ModuleFuncs() {
		pp := strings.TrimPrefix(x.P.PkgPathOf(f), load.Module+"/")
		if pp != "token" && pp != "token/delegation" && pp != "token/invocation" && pp != "token/internal/envelope" {
			continue
		}
		name := load.ShortName(f)
		base := name
		if i := strings.Index(base, "["); i >= 0 {
			base = base[:i]
		}
		base = base[strings.LastIndex(base, ".")+1:]
		want := ""
		switch {
		case strings.Contains(base, "DagCbor") || strings.Contains(base, "Sealed"):
			want = "dagcbor"
		case strings.Contains(base, "DagJson"):
			want = "dagjson"
		default:
			continue
		}
		refs := 0
		for _, b := range f.Blocks {
			for _, in := range b.Instrs {
				for _, op := range in.Operands(nil) {
					g, ok := (*op).(*ssa.Function)
					if !ok {
						continue
					}
					gp := x.P.PkgPathOf(g)
					if g.Pkg != nil {
						gp = g.Pkg.Pkg.Path()
					}
					switch {
					case strings.HasSuffix(gp, "codec/dagcbor") || strings.HasSuffix(gp, "codec/dagjson"):
						refs++
						if !strings.HasSuffix(gp, want) {
							bad += x.P.Pos(in.Pos()) + ": " + name + " references " + g.String() + "\n"
						}
					case x.P.InModule(g):
						gb := load.ShortName(g)
						if i := strings.Index(gb, "["); i >= 0 {
							gb = gb[:i]
						}
						gb = gb[strings.LastIndex(gb, ".")+1:]
						if (want == "dagcbor" && strings.Contains(gb, "DagJson")) || (want == "dagjson" && (strings.Contains(gb, "DagCbor") || strings.Contains(gb, "Sealed"))) {
							bad += x.P.Pos(in.Pos()) + ": " + name + " calls " + load.ShortName(g) + "\n"
						}
						if strings.Contains(gb, "DagCbor") || strings.Contains(gb, "DagJson") {
							refs++
						}
					}
				}
			}
		}
		n++
		if refs == 0 && f.Parent() == nil {
			bad += x.pos(f) + ": " + name + " references no codec function and no *DagCbor*/*DagJson* function\n"
		}
	}
	x.C.Obl("C07.R2", "codec-pairing", "-", fmt.Sprintf("each of the %d functions named *DagCbor* / *Sealed* / *DagJson* references only the codec its name announces", n), bad == "" && n >= 30, bad)
	x.C.Obl("C07.R2", "codec-functions", "-", "functions with a codec in their name", n >= 30, fmt.Sprint(n))
}

// timestampBounds: every *time.Time field serialised by toIPLD is bounded by validate().
func timestampBounds(x *Ctx) {
	maxV, _ := x.constOf("C07.R4", "pkg/policy/limits", "MaxInt53")
	minV, _ := x.constOf("C07.R4", "pkg/policy/limits", "MinInt53")
	maxN, _ := constantInt(maxV)
	minN, _ := constantInt(minV)
	for _, pk := range []string{"token/delegation", "token/invocation"} {
		val := x.fn("C07.R4", "(*"+pk+".Token).validate")
		if val == nil {
			continue
		}
		for _, fld := range timeFields(x, pk, "Token") {
			unix := "call[(time.Time).Unix](*recv." + fld + ")"
			set := atoms(map[string]bool{eqs("const(nil)", "recv."+fld): false})
			x.noPath("C07.R4", "above-max:"+pk+":"+fld, val, paths.WantSuccess, paths.Both(set, paths.ValueIs(unix, maxN+1)), 1,
				"the constructor rejects "+fld+" beyond 2^53-1 seconds (the decoder would reject the sealed token)")
			x.noPath("C07.R4", "below-min:"+pk+":"+fld, val, paths.WantSuccess, paths.Both(set, paths.ValueIs(unix, minN-1)), 1,
				"the constructor rejects "+fld+" below -(2^53-1) seconds")
		}
	}
	// validate runs on construction (sub-second instants) and on decoding (whole seconds: the wire format keeps
	// Unix() only). It may look at a time bound only at wire resolution - nil or not, and Unix() - or a token the
	// constructor accepted can be refused when it is read back (or the reverse).
	for _, pk := range []string{"token/delegation", "token/invocation"} {
		val := x.fn("C07.R4", "(*"+pk+".Token).validate")
		if val == nil {
			continue
		}
		flds := timeFields(x, pk, "Token")
		mentions := func(t *paths.Term) string {
			// a time field used other than under Unix() / a nil test
			found := ""
			var walk func(t *paths.Term)
			walk = func(t *paths.Term) {
				if t == nil || found != "" {
					return
				}
				if t.Op == "call" && (t.Name == "(time.Time).Unix" || t.Name == "(time.Time).String" || t.Name == "(time.Time).Format") {
					return
				}
				for _, f := range flds {
					if t.String() == "*recv."+f {
						found = f
						return
					}
				}
				for _, a := range t.Args {
					walk(a)
				}
			}
			walk(t)
			return found
		}
		bad := ""
		for _, p := range x.pathsQuiet(val) {
			for _, fc := range p.Facts {
				if f := mentions(fc.Atom); f != "" {
					bad += fmt.Sprintf("validate decides on %s, which reads %s at full resolution (the sealed form keeps whole seconds)\n", fc.Atom, f)
				}
			}
			p.InstrsIn(func(in ssa.Instruction, c *paths.Ctx) {
				call, ok := in.(*ssa.Call)
				if !ok {
					return
				}
				ct := c.Term(call)
				if ct == nil || (ct.Op != "call" && ct.Op != "invoke") {
					return
				}
				if strings.HasPrefix(ct.Name, "fmt.") || strings.HasPrefix(ct.Name, "errors.") || ct.Name == "(time.Time).Unix" || ct.Name == "(time.Time).String" || ct.Name == "(time.Time).Format" {
					return
				}
				for _, a := range ct.Args {
					if f := mentions(a); f != "" {
						bad += fmt.Sprintf("%s: validate passes %s at full resolution to %s (the sealed form keeps whole seconds)\n", x.P.Pos(call.Pos()), f, ct.Name)
					}
				}
			})
		}
		x.C.Obl("C07.R4", "wire-resolution:"+pk, x.pos(val), "validate looks at the time bounds only through nil tests and Unix()", bad == "", dedupLines(bad))
	}
	// decode side is C04.R4; here: the same constants are used
	x.C.Obl("C07.R4", "same-constants", "-", "both sides use limits.MaxInt53 / MinInt53", maxN == 1<<53-1 && minN == -(1<<53-1), "")
}

func validatorSymmetry(x *Ctx) {
	for _, pk := range []string{"token/delegation", "token/invocation"} {
		val := x.fn("C07.R5", "(*"+pk+".Token).validate")
		if val == nil {
			continue
		}
		x.noPath("C07.R5", "command:"+pk, val, paths.WantSuccess, paths.CallFails(func(n string, ct *paths.Term) bool {
			return n == "pkg/command.Parse" && strings.Contains(ct.Args[0].String(), "recv.command")
		}), 1, "the constructor rejects a command that command.Parse (used by the decoder) rejects")
	}
	if val := x.fn("C07.R5", "(*token/delegation.Token).validate"); val != nil {
		x.noPath("C07.R5", "policy-integers", val, paths.WantSuccess, paths.CallFails(func(n string, ct *paths.Term) bool {
			return n == "pkg/policy/limits.ValidateIntegerBoundsIPLD" && strings.Contains(ct.Args[0].String(), "recv.policy")
		}), 1, "the constructor rejects policy integers beyond +/-(2^53-1) like policy.FromIPLD")
		x.noPath("C07.R5", "policy-encodable", val, paths.WantSuccess, paths.CallFails(func(n string, ct *paths.Term) bool {
			return ct.String() == x.call("(pkg/policy.Policy).ToIPLD", "recv.policy")
		}), 1, "the constructor rejects a policy that cannot be encoded")
	}
	if val := x.fn("C07.R5", "(*token/invocation.Token).validate"); val != nil {
		x.noPath("C07.R5", "argument-integers", val, paths.WantSuccess, paths.CallFails(func(n string, ct *paths.Term) bool {
			return n == "(*pkg/args.Args).Validate" && ct.Args[0].String() == "recv.arguments"
		}), 1, "the constructor validates the (possibly Include'd) arguments like tokenFromModel")
	}
	// Args.Validate covers every value
	if f := x.fn("C07.R5", "(*pkg/args.Args).Validate"); f != nil {
		ok := false
		for _, la := range loopsIn(f) {
			l := la.L
			lps, _ := x.E.LatchPaths(f, l, paths.CallFails(callee("pkg/policy/limits.ValidateIntegerBoundsIPLD")), 0)
			all, _ := x.E.LatchPaths(f, l, nil, 0)
			if len(all) > 0 && len(lps) == 0 {
				ok = true
			}
		}
		x.C.Obl("C07.R5", "args-validate-all", x.pos(f), "Args.Validate fails on the first value whose integers are out of bounds (range over all values)", ok, "")
	}
}

// jsonFloatFidelity (C07.R2): a float written by the DAG-JSON encoder is read back as a float. The Any-typed fields
// of a token (arguments, metadata, policy literals) may hold floats (literal.Any builds them); dagjson.Encode hands
// them to refmt's JSON encoder, whose emitFloat is inspected here: unless it ensures a fraction marker, an
// integral float (2.0, 1e15) is written as "2", the DAG-JSON decoder reads the integer 2, and the signature -
// made over the DAG-CBOR form of the float - no longer verifies: a token the constructor accepted cannot be read
// back from its own DAG-JSON form. The obligation holds for an entry point when the encoder keeps the marker, or
// when the code of the module reachable from the entry point looks at float nodes before encoding (rejecting or
// rewriting them).
func jsonFloatFidelity(x *Ctx) {
	sp := x.P.SSA["github.com/polydawn/refmt/json"]
	var emit *ssa.Function
	if sp != nil {
		if tn := sp.Type("Encoder"); tn != nil {
			ms := x.P.Prog.MethodSets.MethodSet(types.NewPointer(tn.Type()))
			for i := 0; i < ms.Len(); i++ {
				if ms.At(i).Obj().Name() == "emitFloat" {
					emit = x.P.Prog.MethodValue(ms.At(i))
				}
			}
		}
	}
	if emit == nil || len(emit.Blocks) == 0 {
		x.C.Unresolved("C07.R2", "anchor:refmt/json.(*Encoder).emitFloat", "-", "the float case of the JSON encoder behind dagjson.Encode was not found in the type-checked program (dependency changed?)")
		return
	}
	marker := false
	for _, b := range emit.Blocks {
		for _, in := range b.Instrs {
			for _, op := range in.Operands(nil) {
				if c, ok := (*op).(*ssa.Const); ok && c.Value != nil {
					switch c.Value.Kind() {
					case constant.Int:
						if v, ok := constant.Int64Val(c.Value); ok && v == '.' {
							if bt, isB := c.Type().Underlying().(*types.Basic); isB && (bt.Kind() == types.Uint8 || bt.Kind() == types.Int32) {
								marker = true
							}
						}
					case constant.String:
						if strings.Contains(constant.StringVal(c.Value), ".") {
							marker = true
						}
					}
				}
			}
		}
	}
	kf, _ := x.kindConst("Kind_Float")
	for _, name := range []string{"(*token/delegation.Token).ToDagJson", "(*token/delegation.Token).ToDagJsonWriter", "(*token/invocation.Token).ToDagJson", "(*token/invocation.Token).ToDagJsonWriter"} {
		f := x.fn("C07.R2", name)
		if f == nil {
			continue
		}
		looks := ""
		for g := range x.P.ReachFrom(f) {
			for _, b := range g.Blocks {
				for _, in := range b.Instrs {
					switch t := in.(type) {
					case *ssa.BinOp:
						for _, o := range []ssa.Value{t.X, t.Y} {
							if c, ok := o.(*ssa.Const); ok && c.Value != nil && c.Value.Kind() == constant.Int && strings.HasSuffix(c.Type().String(), "datamodel.Kind") {
								if v, ok := constant.Int64Val(c.Value); ok && v == kf {
									looks = load.ShortName(g)
								}
							}
						}
					case ssa.CallInstruction:
						if cc := t.Common(); cc.IsInvoke() && cc.Method.Name() == "AsFloat" {
							looks = load.ShortName(g)
						}
					}
				}
			}
		}
		x.C.Obl("C07.R2", "json-float-fidelity:"+name, x.pos(f), "a float in an Any-typed field survives the DAG-JSON form: the JSON encoder keeps a fraction marker, or the module looks at float nodes before encoding",
			marker || looks != "", "refmt/json.(*Encoder).emitFloat ("+x.P.Pos(emit.Pos())+") formats with strconv.AppendFloat(b, f, 'f', -1, 64) and never adds a fraction marker: 2.0 is written as 2, read back as the integer 2, and the signature made over the float no longer verifies (WithArgument(\"x\", 2.0) then ToDagJson then FromDagJson: \"failed to verify the token's signature\"); no function of the module reachable from here looks at float nodes")
	}
}

// jsonTextFidelity (C07.R2): two more places where the DAG-JSON form does not carry what the DAG-CBOR form (over which
// the signature is made) carries, both read off the dependency's code as loaded:
//   - strings: refmt's emitString replaces every byte sequence that is not valid UTF-8 by \ufffd (the constant is
//     looked for in the function); a string with such bytes is read back as another string and the signature fails;
//   - the reserved key: dagjson's decoder looks one token ahead for the key "/" (linkLookahead / bytesLookahead test
//     the constant) and reads {"/": ...} as a link or as bytes, while its encoder writes a map with that single key
//     as it is: a map {"/": "x"} in an Any-typed field cannot be read back.
//
// Each obligation holds for an entry point when the dependency does not behave so, or when the module's code
// reachable from the entry point looks at strings with unicode/utf8 (resp. compares a key with "/") before encoding.
func jsonTextFidelity(x *Ctx) {
	hasStringConst := func(f *ssa.Function, want string) bool {
		if f == nil {
			return false
		}
		for _, b := range f.Blocks {
			for _, in := range b.Instrs {
				for _, op := range in.Operands(nil) {
					if c, ok := (*op).(*ssa.Const); ok && c.Value != nil && c.Value.Kind() == constant.String && constant.StringVal(c.Value) == want {
						return true
					}
				}
			}
		}
		return false
	}
	method := func(pkg, typ, name string) *ssa.Function {
		sp := x.P.SSA[pkg]
		if sp == nil {
			return nil
		}
		tn := sp.Type(typ)
		if tn == nil {
			return nil
		}
		ms := x.P.Prog.MethodSets.MethodSet(types.NewPointer(tn.Type()))
		for i := 0; i < ms.Len(); i++ {
			if ms.At(i).Obj().Name() == name {
				return x.P.Prog.MethodValue(ms.At(i))
			}
		}
		return nil
	}
	emitString := method("github.com/polydawn/refmt/json", "Encoder", "emitString")
	look := method("github.com/ipld/go-ipld-prime/codec/dagjson", "unmarshalState", "linkLookahead")
	if emitString == nil || look == nil {
		x.C.Unresolved("C07.R2", "anchor:json-text-fidelity", "-", "refmt/json.(*Encoder).emitString or dagjson.(*unmarshalState).linkLookahead not found in the type-checked program (dependency changed?)")
		return
	}
	replaces := hasStringConst(emitString, `\ufffd`)
	reserved := hasStringConst(look, "/")
	for _, name := range []string{"(*token/delegation.Token).ToDagJson", "(*token/delegation.Token).ToDagJsonWriter", "(*token/invocation.Token).ToDagJson", "(*token/invocation.Token).ToDagJsonWriter"} {
		f := x.fn("C07.R2", name)
		if f == nil {
			continue
		}
		looksUTF8, looksKey := false, false
		for g := range x.P.ReachFrom(f) {
			for _, b := range g.Blocks {
				for _, in := range b.Instrs {
					if c, ok := in.(ssa.CallInstruction); ok {
						if h := c.Common().StaticCallee(); h != nil && h.Pkg != nil && h.Pkg.Pkg.Path() == "unicode/utf8" && strings.HasPrefix(h.Name(), "Valid") {
							looksUTF8 = true
						}
					}
					if bo, ok := in.(*ssa.BinOp); ok {
						for _, o := range []ssa.Value{bo.X, bo.Y} {
							if c, ok := o.(*ssa.Const); ok && c.Value != nil && c.Value.Kind() == constant.String && constant.StringVal(c.Value) == "/" && !strings.HasSuffix(x.P.PkgPathOf(g), "/pkg/command") {
								looksKey = true
							}
						}
					}
				}
			}
		}
		x.C.Obl("C07.R2", "json-string-fidelity:"+name, x.pos(f), "a string in an Any-typed field survives the DAG-JSON form: the JSON encoder writes its bytes, or the module looks at strings with unicode/utf8 before encoding",
			!replaces || looksUTF8, "refmt/json.(*Encoder).emitString ("+x.P.Pos(emitString.Pos())+") writes \\ufffd for every byte sequence that is not valid UTF-8: WithArgument(\"x\", \"a\\xffb\") is sealed to DAG-JSON as another string and FromDagJson fails with \"failed to verify the token's signature\" (DAG-CBOR carries the bytes as they are); no function of the module reachable from here validates strings")
		x.C.Obl("C07.R2", "json-reserved-key:"+name, x.pos(f), "a map with the single key \"/\" in an Any-typed field survives the DAG-JSON form: the decoder does not reserve the key, or the module looks for it before encoding",
			!reserved || looksKey, "dagjson.(*unmarshalState).linkLookahead ("+x.P.Pos(look.Pos())+") reads {\"/\": ...} as a link (or bytes): WithArgument(\"x\", map[string]any{\"/\": \"hello\"}) is sealed to DAG-JSON and FromDagJson fails with \"invalid cid\"; no function of the module reachable from here looks for the key")
	}
}

// documentDecides: the policy decoder refuses a document only for what the document holds. Every failing exit of
// FromIPLD / statementFromIPLD / statementsFromIPLD is selected by a test on the node being decoded (its kind, its
// length, an operator, the failure of a nested decoder or parser given a piece of it). The constructors accept any
// policy that encodes (validate() runs ToIPLD, not FromIPLD): a refusal decided by anything else - a nesting
// counter carried in the diagnostic path, a package-level limit - refuses policies the library itself issued.
func documentDecides(x *Ctx) {
	for _, d := range []struct{ fn, node string }{{"pkg/policy.FromIPLD", "arg0"}, {"pkg/policy.statementFromIPLD", "arg1"}, {"pkg/policy.statementsFromIPLD", "arg1"}} {
		f := x.fn("C07.R5", d.fn)
		if f == nil {
			continue
		}
		ps := x.paths("C07.R5", f)
		if ps == nil {
			continue
		}
		n, bad := 0, ""
		for _, p := range ps {
			if p.End != paths.EndReturn {
				continue
			}
			if o, _ := p.ErrorOutcome(); o == paths.Success {
				continue
			}
			n++
			if len(p.Facts) == 0 {
				bad += x.P.Pos(p.Ret.Pos()) + ": fails unconditionally\n"
				continue
			}
			last := p.Facts[len(p.Facts)-1]
			if !last.Atom.Contains(d.node) {
				bad += fmt.Sprintf("%s: refuses on %s, which does not look at the document\n", x.P.Pos(p.Ret.Pos()), last)
			}
		}
		x.C.Obl("C07.R5", "document-decides:"+d.fn, x.pos(f), fmt.Sprintf("each of the %d failing exits is selected by a test on the node being decoded", n), bad == "" && n > 0, firstLines(dedupLines(bad), 8))
	}
}

// decodeSideCounterpart: validators of tokenFromModel whose construct-side counterpart is not "the
// same function called by validate()" but another, separately checked, mechanism.
var decodeSideCounterpart = map[string]string{
	"did.Parse":                              "did.DID values can only be produced by did.Parse / did.FromPubKey / did.Undef (C16); validate() checks Defined()",
	"token/internal/parse.OptionalDID":       "as did.Parse",
	"pkg/policy.FromIPLD":                    "validate() encodes the policy and applies ValidateIntegerBoundsIPLD (C07.R5 policy-integers); statements can only be built by the package's constructors / decoder",
	"token/internal/parse.OptionalTimestamp": "validate() bounds every serialised timestamp (C07.R4)",
}

// decodeOnlyValidators: every in-module call whose failure makes tokenFromModel fail is either one
// of the table above or is also a must-succeed call of validate() (the constructor side): a check
// that exists only on the decode side makes tokens that can be sealed but not read back.
func decodeOnlyValidators(x *Ctx) {
	for _, pk := range []string{"token/delegation", "token/invocation"} {
		dec := x.fn("C07.R5", pk+".tokenFromModel")
		val := x.fn("C07.R5", "(*"+pk+".Token).validate")
		if dec == nil || val == nil {
			continue
		}
		sel, _, err := x.E.Select(dec, paths.WantSuccess)
		if err != nil || len(sel) == 0 {
			continue
		}
		// must-succeed in-module calls of the decoder
		guards := map[string]bool{}
		for i, v := range sel {
			here := map[string]bool{}
			for _, f := range v.AllFacts() {
				if xx := paths.NilCheckOf(f.Atom); xx != nil && f.Pol {
					if ct, call := paths.CallOf(xx); ct != nil && call != nil && ct.Op == "call" {
						if g := paths.StaticCallee(call); g != nil && x.P.InModule(g) {
							here[ct.Name] = true
						}
					}
				}
			}
			if i == 0 {
				guards = here
			} else {
				for k := range guards {
					if !here[k] {
						delete(guards, k)
					}
				}
			}
		}
		// must-succeed in-module calls of validate (transitively through its closures: names only)
		vsel, _, _ := x.E.Select(val, paths.WantSuccess)
		vguards := map[string]bool{}
		for _, v := range vsel {
			for _, f := range v.AllFacts() {
				if xx := paths.NilCheckOf(f.Atom); xx != nil && f.Pol {
					if ct, _ := paths.CallOf(xx); ct != nil {
						vguards[ct.Name] = true
					}
				}
			}
		}
		bad := ""
		var names []string
		for g := range guards {
			names = append(names, g)
		}
		sort.Strings(names)
		for _, g := range names {
			if g == "(*"+pk+".Token).validate" {
				continue
			}
			if _, ok := decodeSideCounterpart[g]; ok {
				continue
			}
			if !vguards[g] {
				bad += "tokenFromModel fails unless " + g + " succeeds, but the constructor's validate() does not call it: a token can be constructed and sealed that every decoder rejects\n"
			}
		}
		x.C.Obl("C07.R5", "decode-only-validators:"+pk, x.pos(dec), fmt.Sprintf("every validator of tokenFromModel %v has a construct-side counterpart", names), bad == "", bad)
	}
}

// freshEncoderOutput: Encode returns exactly what the codec returned (no pooled / shared buffer).
func freshEncoderOutput(x *Ctx) {
	for _, name := range []string{"(*token/delegation.Token).Encode", "(*token/invocation.Token).Encode", "token/internal/envelope.Encode"} {
		f := x.fn("C07.R7", name)
		if f == nil {
			continue
		}
		sel, _, _ := x.E.Select(f, paths.WantSuccess)
		ok := len(sel) > 0
		detail := ""
		for _, v := range sel {
			r := v.Results()[0]
			ct, _ := paths.CallOf(r)
			switch {
			case ct != nil && ct.Name == "github.com/ipld/go-ipld-prime.Encode" && strings.HasSuffix(r.String(), "#0"):
			case ct != nil && ct.Name == "(*bytes.Buffer).Bytes" && len(ct.Args) == 1 && ct.Args[0].Op == "alloc":
				// the bytes of a buffer that is a local variable of this call (what ipld.Encode does itself)
			default:
				ok = false
				detail += "returns " + r.String() + "\n"
			}
		}
		x.C.Obl("C07.R7", "fresh-output:"+name, x.pos(f), "Encode returns the byte slice produced by ipld.Encode for this call (not a view of a reused buffer)", ok, detail)
	}
}

// keysPairedWithValues: Args and Meta serialise by walking Keys and looking each key up in Values, and the
// decoders reject a repeated map key. A token whose container lists a key twice (or holds a value under a key
// the list lacks) seals but cannot be unsealed losslessly. In packages args and meta, on every path: an
// append of key K to X.Keys (X not a container built in this function) requires the fact that K was absent
// from X.Values and a store X.Values[K] on the same path; a store X.Values[K] requires that append unless the
// path knows K to be present (overwrite).
func keysPairedWithValues(x *Ctx) {
	isContainer := func(t types.Type) bool {
		if p, ok := t.Underlying().(*types.Pointer); ok {
			t = p.Elem()
		}
		s := t.String()
		return s == load.Module+"/pkg/args.Args" || s == load.Module+"/pkg/meta.Meta"
	}
	for _, f := range x.P.ModuleFuncs() {
		pp := x.P.PkgPathOf(f)
		if (pp != load.Module+"/pkg/args" && pp != load.Module+"/pkg/meta") || len(f.Blocks) == 0 || !x.P.IsLibrary(f) {
			continue
		}
		touches := false
		for _, b := range f.Blocks {
			for _, in := range b.Instrs {
				switch v := in.(type) {
				case *ssa.FieldAddr:
					if fn := ""; isContainer(v.X.Type()) && func() bool {
						fn = paths.FieldName(v.X.Type().Underlying().(*types.Pointer).Elem().Underlying().(*types.Struct).Field(v.Field))
						return fn == "Keys" || fn == "Values"
					}() {
						for _, r := range *v.Referrers() {
							if st, ok := r.(*ssa.Store); ok && st.Addr == ssa.Value(v) {
								touches = true
							}
						}
					}
				case *ssa.MapUpdate:
					touches = true
				}
			}
		}
		if paths.Inlineable != nil && paths.Inlineable(f) {
			continue // a helper spliced into its callers: its stores are seen on their paths, with their facts
		}
		if !touches {
			// the stores may sit in a helper spliced into this function's paths
			for _, p := range x.pathsQuiet(f) {
				p.Instrs(func(in ssa.Instruction) {
					switch in.(type) {
					case *ssa.MapUpdate:
						touches = touches || in.Parent() != f
					case *ssa.Store:
						touches = touches || in.Parent() != f
					}
				})
			}
		}
		if !touches {
			continue
		}
		type ev struct{ base, key string }
		bad, n, aliased := "", 0, ""
		touchesValues := false
		for _, p := range x.pathsQuiet(f) {
			var appends, updates []ev
			p.InstrsIn(func(in ssa.Instruction, c *paths.Ctx) {
				switch v := in.(type) {
				case *ssa.Store:
					at := c.Term(v.Addr)
					if at.Op == "fieldaddr" && at.Name == "Values" && isFieldOfContainer(v.Addr, isContainer) && at.Args[0].Op != "alloc" {
						// the map of a container is its own: made here or cloned, never another container's map
						val := c.Term(v.Val)
						if !(val.Op == "make" || val.IsNil() || (val.Op == "call" && strings.HasPrefix(val.Name, "maps.Clone["))) {
							aliased += fmt.Sprintf("%s: %s.Values is assigned %s: the container would share its map with another one (an Add on either shows in both)\n", load.ShortName(f), at.Args[0], val)
						}
						touchesValues = true
						return
					}
					if at.Op != "fieldaddr" || at.Name != "Keys" || !isContainer(v.Addr.(*ssa.FieldAddr).X.Type()) || at.Args[0].Op == "alloc" {
						return
					}
					val := c.Term(v.Val)
					base := at.Args[0].String()
					switch {
					case val.Op == "call" && val.Name == "builtin.append" && len(val.Args) == 2 && val.Args[0].String() == base+".Keys" && val.Args[1].Op == "varargs":
						for _, k := range val.Args[1].Args {
							appends = append(appends, ev{base, k.String()})
						}
					case val.Op == "call" && strings.HasPrefix(val.Name, "slices.Grow[") && len(val.Args) == 2 && val.Args[0].String() == base+".Keys":
						// capacity only
					case val.Op == "make" || val.IsNil() || (val.Op == "call" && (strings.HasPrefix(val.Name, "slices.Clone[") || val.Name == "builtin.append" && len(val.Args) == 2 && (val.Args[0].IsNil() || val.Args[0].Op == "make"))):
						// a fresh list
					default:
						aliased += fmt.Sprintf("%s: %s.Keys is assigned %s: the key list of the container must be its own (appended to, or a fresh copy), not another container's slice\n", load.ShortName(f), base, val)
					}
				case *ssa.MapUpdate:
					mt := c.Term(v.Map)
					if mt.Op != "field" || mt.Name != "Values" || mt.Args[0].Op == "alloc" || (mt.Args[0].Op == "load" && mt.Args[0].Args[0].Op == "alloc") {
						return
					}
					if fa, ok := mt.Val.(*ssa.UnOp); !ok || !isFieldOfContainer(fa.X, isContainer) {
						return
					}
					updates = append(updates, ev{mt.Args[0].String(), c.Term(v.Key).String()})
				}
			})
			has := func(l []ev, e ev) bool {
				for _, y := range l {
					if y == e {
						return true
					}
				}
				return false
			}
			for _, a := range appends {
				n++
				absent := "lookup(" + a.base + ".Values," + a.key + ")#1"
				if !p.HasFact(absent, false) {
					bad += fmt.Sprintf("%s: key %s is appended to %s.Keys on a path that does not know it to be absent from %s.Values (a key already present would be listed twice)\n", load.ShortName(f), a.key, a.base, a.base)
				}
				if !has(updates, a) {
					bad += fmt.Sprintf("%s: key %s is appended to %s.Keys without a value being stored under it on the same path\n", load.ShortName(f), a.key, a.base)
				}
			}
			for _, u := range updates {
				n++
				present := "lookup(" + u.base + ".Values," + u.key + ")#1"
				if !has(appends, u) && !p.HasFact(present, true) {
					bad += fmt.Sprintf("%s: a value is stored under key %s of %s.Values without the key being appended to %s.Keys (it would not be serialised)\n", load.ShortName(f), u.key, u.base, u.base)
				}
			}
		}
		if aliased != "" {
			bad += aliased
		}
		if n > 0 || bad != "" || touchesValues {
			x.C.Obl("C07.R8", "paired:"+load.ShortName(f), x.pos(f), "keys are appended to the key list exactly when new in the map, together with their value", bad == "", dedupLines(bad))
		}
	}
}

func isFieldOfContainer(v ssa.Value, isContainer func(types.Type) bool) bool {
	fa, ok := v.(*ssa.FieldAddr)
	return ok && isContainer(fa.X.Type())
}

func dedupLines(s string) string {
	seen := map[string]bool{}
	var out []string
	for _, l := range strings.Split(s, "\n") {
		if l != "" && !seen[l] {
			seen[l] = true
			out = append(out, l)
		}
	}
	return strings.Join(out, "\n")
}
