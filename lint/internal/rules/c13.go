package rules

import (
	"fmt"
	"strings"

	"golang.org/x/tools/go/ssa"

	"verif/lint/internal/load"
	"verif/lint/internal/paths"
	"verif/lint/internal/report"
)

func init() {
	register(&Property{
		Meta: report.Meta{
			Property:    "C13",
			Explanation: "Step classification of the greedy two-pointer matcher glob.Match: every path of the main loop that reaches the next iteration is classified by how it advances the pattern index i and the string index j (values the loop phis receive on that back edge). A step that consumes one string character together with one pattern character must carry the facts pattern[i] != '\\\\', pattern[i] != '*' and pattern[i] == str[j] (literal step) or pattern[i] == '\\\\', i+1 < len(pattern), pattern[i+1] == str[j] with i advanced by two (escape step); a star step requires pattern[i] == '*'; a backtrack step requires a recorded star. Any other step shape is reported as unrecognised. parseGlob rejects a trailing lone backslash; glob values are only produced by parseGlob; like statements obtain their pattern from parseGlob with the error checked. Language equality itself is a runtime-value clause and is not decided; another matching algorithm would be reported as unrecognised. The two remembered positions (last star, its match position) are identified among the loop-carried values; the backtracking step must be exactly i = star+1, match = match+1, j = match; the scanning loop is left early only with false when no step applies and no star is remembered.",
			Assumptions: []string{"byte-wise matching (no multi-byte metacharacters)"},
			Trusted:     []string{"golang.org/x/tools/go/ssa v0.29.0"},
			NotDecided:  []string{"equality of the accepted language with the glob language (needs executing the matcher)", "termination of the backtracking loop (C09.T1 audited entry)"},
		},
		Run: runC13,
	})
}

func runC13(x *Ctx) {
	x.C.Rule("C13.R1", "metacharacters of the pattern are never consumed as literals", 4)
	x.C.Rule("C13.R2", "parseGlob rejects a trailing lone backslash", 2)
	x.C.Rule("C13.R3", "glob values come from parseGlob only; like statements use its checked result", 3)

	if f := x.fn("C13.R1", "(pkg/policy.glob).Match"); f != nil {
		globSteps(x, f)
	}
	if f := x.fn("C13.R2", "pkg/policy.parseGlob"); f != nil {
		fi := paths.Info(f)
		if len(fi.Loops) != 1 {
			x.C.Unresolved("C13.R2", "loop:parseGlob", x.pos(f), fmt.Sprintf("expected one scanning loop, found %d", len(fi.Loops)))
		} else {
			l := fi.Loops[0]
			// index variable: the phi indexing arg0
			var idx string
			for _, phi := range l.HeaderPhis() {
				t := paths.DetachedTerm(f, phi).String()
				ps, _ := x.E.Paths(f)
				for _, p := range ps {
					for _, fc := range p.Facts {
						if fc.Atom.Contains("arg0[" + t + "]") {
							idx = t
						}
					}
				}
			}
			if idx == "" {
				x.C.Unresolved("C13.R2", "index:parseGlob", x.pos(f), "no loop-carried index into the pattern found")
			} else {
				A := paths.Both(paths.ValueIs("arg0["+idx+"]", 92), atoms(map[string]bool{
					"lt(add(" + idx + ",const(1)),len(arg0))": false,
				}))
				x.mustBlock("C13.R2", "trailing-backslash:parseGlob", f, l, A, 0, "a backslash that is the last character of the pattern leads to a failure exit, never to the next iteration or to success")
				// whole pattern is scanned: loop exit only when idx >= len
				sel, _, _ := x.E.Select(f, paths.WantSuccess)
				ok := len(sel) > 0
				for _, v := range sel {
					if !v.HasFact("lt("+idx+",len(arg0))", false) || v.Results()[0].String() != "conv[pkg/policy.glob](arg0)" {
						ok = false
					}
				}
				x.C.Obl("C13.R2", "whole-pattern:parseGlob", x.pos(f), "success only after the index reached len(pattern), returning the pattern unchanged", ok, renderPaths(sel, 2))
			}
		}
	}
	globProvenance(x)
}

func globSteps(x *Ctx, f *ssa.Function) {
	fi := paths.Info(f)
	if len(fi.Loops) < 1 {
		x.C.Unresolved("C13.R1", "loop:glob.Match", x.pos(f), "no loop found: not the recognised two-pointer matcher")
		return
	}
	l := fi.Loops[0]
	ps := x.paths("C13.R1", f)
	if ps == nil {
		return
	}
	// identify i (indexes recv = pattern) and j (indexes arg0 = str)
	var iPhi, jPhi *ssa.Phi
	for _, phi := range l.HeaderPhis() {
		t := paths.DetachedTerm(f, phi).String()
		for _, p := range ps {
			for _, fc := range p.Facts {
				if fc.Atom.Contains("recv[" + t + "]") {
					iPhi = phi
				}
				if fc.Atom.Contains("arg0[" + t + "]") {
					jPhi = phi
				}
			}
		}
	}
	if iPhi == nil || jPhi == nil || iPhi == jPhi {
		x.C.Unresolved("C13.R1", "indices:glob.Match", x.pos(f), "cannot identify the pattern index and the string index among the loop-carried values")
		return
	}
	i, j := paths.DetachedTerm(f, iPhi).String(), paths.DetachedTerm(f, jPhi).String()
	// the two remembered positions: on the step that consumes a '*' alone, one loop-carried value takes the
	// pattern index and another the string index
	var starPhi, matchPhi *ssa.Phi
	for _, p := range ps {
		if p.End != paths.EndLatch || p.Latch != l.Header {
			continue
		}
		if p.LatchValue(iPhi).String() == "add("+i+",const(1))" && p.LatchValue(jPhi).String() == j {
			for _, phi := range l.HeaderPhis() {
				if phi == iPhi || phi == jPhi {
					continue
				}
				switch p.LatchValue(phi).String() {
				case i:
					starPhi = phi
				case j:
					matchPhi = phi
				}
			}
		}
	}
	if starPhi == nil || matchPhi == nil {
		x.C.Unresolved("C13.R1", "remembered:glob.Match", x.pos(f), "cannot identify the remembered star / match positions among the loop-carried values")
		return
	}
	star, match := paths.DetachedTerm(f, starPhi).String(), paths.DetachedTerm(f, matchPhi).String()
	pat := "recv[" + i + "]"
	patNext := "recv[add(" + i + ",const(1))]"
	str := "arg0[" + j + "]"
	isBS, isStar := eqs(pat, "const(92)"), eqs(pat, "const(42)")
	counts := map[string]int{}
	for _, p := range ps {
		if p.End != paths.EndLatch || p.Latch != l.Header {
			continue
		}
		v := paths.VPath{Path: p}
		di, dj := p.LatchValue(iPhi).String(), p.LatchValue(jPhi).String()
		ipl1 := "add(" + i + ",const(1))"
		ipl2a, ipl2b := "add("+i+",const(2))", "add(add("+i+",const(1)),const(1))"
		jpl1 := "add(" + j + ",const(1))"
		has := func(atom string, pol bool) bool { return p.HasFact(atom, pol) }
		var kind string
		ok := false
		detail := ""
		switch {
		case di == ipl1 && dj == jpl1:
			kind = "literal-step"
			ok = has(isBS, false) && has(isStar, false) && has(eqs(pat, str), true)
			detail = "a step consuming pattern[i] and str[j] together must carry: pattern[i] != '\\\\', pattern[i] != '*', pattern[i] == str[j]"
		case (di == ipl2a || di == ipl2b) && dj == jpl1:
			kind = "escape-step"
			ok = has(isBS, true) && has("lt("+ipl1+",len(recv))", true) && has(eqs(patNext, str), true)
			detail = "a step skipping two pattern characters must carry: pattern[i] == '\\\\', i+1 < len(pattern), pattern[i+1] == str[j]"
		case di == ipl1 && dj == j:
			kind = "star-step"
			ok = has(isStar, true)
			detail = "a step advancing only the pattern must carry pattern[i] == '*'"
		case di != i && dj != j && !strings.Contains(di, i) && !strings.Contains(dj, j):
			kind = "backtrack-step"
			// i := star+1 ; match := match+1 ; j := match, with star != -1: the wildcard takes exactly one more character
			m1 := "add(" + match + ",const(1))"
			ok = has(eqs(star, "const(-1)"), false) && di == "add("+star+",const(1))" && dj == m1 &&
				p.LatchValue(matchPhi).String() == m1 && p.LatchValue(starPhi).String() == star
			detail = "a backtracking step must be guarded by a recorded star (starIdx != -1) and be exactly: i = starIdx+1, matchIdx = matchIdx+1, j = matchIdx (the wildcard takes one more character; skipping ahead by anything computed from the raw pattern bytes ignores escapes)"
		default:
			kind = "unrecognised-step"
			detail = fmt.Sprintf("the step i -> %s, j -> %s is none of literal / escape / star / backtrack: not the recognised matcher", di, dj)
		}
		switch kind {
		case "literal-step", "escape-step":
			if p.LatchValue(starPhi).String() != star || p.LatchValue(matchPhi).String() != match {
				ok = false
				detail += "; the remembered star / match positions must not change on this step"
			}
		case "star-step":
			if p.LatchValue(starPhi).String() != i || p.LatchValue(matchPhi).String() != j {
				ok = false
				detail += "; it must remember the position of the '*' and the string position"
			}
		}
		counts[kind]++
		x.C.Obl("C13.R1", fmt.Sprintf("%s#%d:%s", kind, counts[kind], load.ShortName(f)), x.pos(f), detail, ok, renderPaths([]paths.VPath{v}, 1))
	}
	// the only way out of the scanning loop other than reaching the end of the string: no step applies and no
	// star is remembered
	badRet, nRet := "", 0
	for _, p := range ps {
		if p.End != paths.EndReturn || !p.EntersBody(l) {
			continue
		}
		nRet++
		if !p.Results()[0].IsConst("false") || !p.HasFact(eqs(star, "const(-1)"), true) {
			badRet += "a return from inside the scanning loop that is not `no step applies and no star is remembered -> false`:\n" + p.String() + "\n"
		}
	}
	// no answer is given without scanning: a shortcut ahead of the loop (prefix / suffix tests for "simple"
	// patterns, say) decides matches by other rules than the matcher's
	nBypass := 0
	for _, p := range ps {
		if p.End == paths.EndReturn && !p.InBlock(l.Header) {
			nBypass++
		}
	}
	x.C.Obl("C13.R1", "no-bypass:"+load.ShortName(f), x.pos(f), "every answer of Match is given by the scanning loop and the tail check after it", nBypass == 0, fmt.Sprintf("%d returning path(s) do not pass through the scanning loop", nBypass))
	x.C.Obl("C13.R1", "in-loop-exit:"+load.ShortName(f), x.pos(f), "the scanning loop is left early only with false, when no step applies and no '*' is remembered", badRet == "" && nRet >= 1, badRet)
	for _, k := range []string{"literal-step", "escape-step", "star-step", "backtrack-step"} {
		x.C.Obl("C13.R1", "has-"+k+":"+load.ShortName(f), x.pos(f), "the matcher has a "+k, counts[k] > 0, fmt.Sprintf("step kinds found: %v", counts))
	}
}

// globProvenance: conversions to policy.glob only inside parseGlob; wildcard.pattern fields are
// fed from parseGlob's checked result.
func globProvenance(x *Ctx) {
	globT := load.Module + "/pkg/policy.glob"
	var bad []string
	n := 0
	for _, f := range x.P.ModuleFuncs() {
		if !x.P.IsLibrary(f) {
			continue
		}
		for _, b := range f.Blocks {
			for _, in := range b.Instrs {
				var to string
				var from string
				switch v := in.(type) {
				case *ssa.ChangeType:
					to, from = v.Type().String(), v.X.Type().String()
				case *ssa.Convert:
					to, from = v.Type().String(), v.X.Type().String()
				default:
					continue
				}
				if to == globT && from != globT {
					n++
					if load.ShortName(f) != "pkg/policy.parseGlob" {
						bad = append(bad, x.P.Pos(in.Pos())+" in "+load.ShortName(f))
					}
				}
			}
		}
	}
	x.C.Obl("C13.R3", "glob-conversions", "-", "strings are converted to policy.glob only inside parseGlob (so every glob was validated)", len(bad) == 0 && n >= 1, strings.Join(bad, "\n"))
	// producers of wildcard statements
	for _, name := range []string{"pkg/policy.Like$1", "pkg/policy.statementFromIPLD"} {
		f := x.fn("C13.R3", name)
		if f == nil {
			continue
		}
		ps := x.paths("C13.R3", f)
		ok, found := true, 0
		detail := ""
		for _, p := range ps {
			p.Instrs(func(in ssa.Instruction) {
				st, isSt := in.(*ssa.Store)
				if !isSt {
					return
				}
				fa, isFA := st.Addr.(*ssa.FieldAddr)
				if !isFA {
					return
				}
				at := p.Term(st.Addr)
				if at.Op != "fieldaddr" || at.Name != "pattern" || !strings.Contains(fa.X.Type().String(), "pkg/policy.wildcard") {
					return
				}
				found++
				val := p.Term(st.Val)
				ct, _ := paths.CallOf(val)
				if ct == nil || ct.Name != "pkg/policy.parseGlob" || !strings.HasSuffix(val.String(), "#0") {
					ok = false
					detail += x.P.Pos(in.Pos()) + ": pattern is " + val.String() + "\n"
					return
				}
				if !p.HasFact(eqs(ct.String()+"#1", "const(nil)"), true) {
					ok = false
					detail += x.P.Pos(in.Pos()) + ": parseGlob error not checked before use\n"
				}
			})
		}
		x.C.Obl("C13.R3", "pattern-source:"+name, x.pos(f), "the pattern of a like statement is the checked result of parseGlob", ok && found > 0, detail)
	}
}
