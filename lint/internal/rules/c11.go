package rules

import (
	"fmt"
	"go/constant"
	"go/types"
	"sort"
	"strings"

	"golang.org/x/tools/go/ssa"

	"verif/lint/internal/load"
	"verif/lint/internal/paths"
	"verif/lint/internal/report"
)

func init() {
	register(&Property{
		Meta: report.Meta{
			Property:    "C11",
			Explanation: "Finite tables read off the CFG of pkg/policy and checked against the algebraic laws of the statement: (R1) exhaustiveness — the Kind* constants, the cases of matchStatement and of statementFromIPLD and the struct type each case asserts/creates agree; (R2) comparator wiring — each ordering kind passes its own comparison function to isOrdered, the truth sets of gt/gte/lt/lte over {-1,0,1} are {1},{0,1},{-1},{-1,0}, isOrdered compares (actual, expected) only under same-kind facts, == uses DeepEqual(value, selected), not maps T<->F and keeps N/O; (R3) for and/or/all/any the per-child transition table (child result in {True,False,NoData,OptionalNoData} -> continue | return v) and the fall-off value are read off the loop CFG; the fold semantics they define is then enumerated exhaustively over all child-result lists up to length 3 and checked for permutation invariance, monotonicity of and/all, and the classical corners; (R4) selector error -> NoData, optional miss -> OptionalNoData for all eight selector-bearing kinds, like on a non-string and all/any on a non-list -> False; (R5) PartialMatch fails only on False, so full match implies partial match and concatenation is conjunction. Truth of individual comparisons on concrete data (DeepEqual, NaN, selector resolution, glob) is not decided here. Leaf statements: on every path with a selected value the result is True / False exactly as the comparison atom (DeepEqual / isOrdered with the kind's predicate / glob.Match), wherever the comparison is written (case body, local closure, helper: all spliced into the paths, interface getters devirtualised on the asserted type), and True is answered on no other path; isOrdered answers false only for kind mismatch, conversion error, NaN, infinity; every exported constructor returns a function that builds the statement of its kind from exactly its own parameters. policy.assemble: one emitting instruction in the loop, dominating every back edge, loop left only through the header or a failing exit, the statement emitted is the result of the constructor of the iteration. For and / or / all / any: a path that returns before reaching the fold loop may only answer NoData / OptionalNoData, False for a non-list value, or the empty connective's constant. (R3) in matchStatement and helpers its code moved into, the block a loop test exits to has no predecessor inside the loop other than the header.",
			Assumptions: []string{"datamodel.DeepEqual and cmp.Compare semantics", "selector resolution (C12) and glob matching (C13)"},
			Trusted:     []string{"golang.org/x/tools/go/ssa v0.29.0", "go-ipld-prime", "package cmp"},
			NotDecided:  []string{"DeepEqual on concrete nodes", "numeric corner cases beyond the kind facts (NaN/Inf are rejected by explicit facts)", "statement truth on concrete data"},
		},
		Run: runC11,
	})
}

var mrNames = []string{"True", "False", "NoData", "OptionalNoData"}

func runC11(x *Ctx) {
	x.C.Rule("C11.R1", "statement kinds: constants = evaluator cases = decoder cases; struct types agree; constructors faithful", 14)
	x.C.Rule("C11.R2", "comparator wiring and truth sets; equality; negation table", 12)
	x.C.Rule("C11.R3", "and/or/all/any fold tables and laws (permutation invariance, monotonicity, corners); no answer bypasses the fold; no loop over the elements is left early", 13)
	x.C.Rule("C11.R4", "missing data: selector error -> NoData, optional miss -> OptionalNoData; kind mismatches -> False", 18)
	x.C.Rule("C11.R5", "PartialMatch fails only on False", 6)
	noEarlyExit(x)

	ms := x.fn("C11.R1", "pkg/policy.matchStatement")
	if ms == nil {
		return
	}
	mr := map[string]int64{}
	for _, n := range mrNames {
		if v, ok := x.constOf("C11.R1", "pkg/policy", "matchResult"+n); ok {
			mr[n], _ = constantInt(v)
		}
	}
	if len(mr) != 4 {
		return
	}
	byVal := map[int64]string{}
	for n, v := range mr {
		byVal[v] = n
	}
	kinds := kindConsts(x)
	ps := x.paths("C11.R1", ms)
	if ps == nil {
		return
	}
	kindAtom := func(k string) string {
		return eqs(fmt.Sprintf("const(%q)", k), "invoke[pkg/policy.Statement.Kind](arg0)")
	}
	// paths of one kind
	ofKind := func(k string) []*paths.Path {
		var out []*paths.Path
		for _, p := range ps {
			if p.HasFact(kindAtom(k), true) {
				out = append(out, p)
			}
		}
		return out
	}

	// ---------------- R1
	evalCases := map[string]string{} // kind -> asserted struct type
	for _, k := range kinds {
		for _, p := range ofKind(k) {
			for _, f := range p.Facts {
				if f.Pol && f.Atom.Op == "extract" && f.Atom.Name == "#1" && f.Atom.Args[0].Op == "typeassert" {
					evalCases[k] = f.Atom.Args[0].Name
				}
			}
		}
	}
	var missing []string
	for _, k := range kinds {
		if evalCases[k] == "" {
			missing = append(missing, k)
		}
	}
	x.C.Obl("C11.R1", "evaluator-cases", x.pos(ms), fmt.Sprintf("matchStatement has a case asserting a struct type for each of the %d Kind* constants", len(kinds)), len(missing) == 0 && len(kinds) == 11, "kinds without a case: "+strings.Join(missing, " "))
	decCases := decoderCases(x)
	bad := ""
	for _, k := range kinds {
		if decCases[k] == "" {
			bad += "the decoder has no case for kind " + k + "\n"
		} else if decCases[k] != evalCases[k] {
			bad += fmt.Sprintf("kind %s: decoder creates %s, evaluator asserts %s\n", k, decCases[k], evalCases[k])
		}
	}
	for k := range decCases {
		if evalCases[k] == "" {
			bad += "the decoder accepts kind " + k + " that the evaluator has no case for (it would panic)\n"
		}
	}
	x.C.Obl("C11.R1", "decoder-evaluator-agree", x.pos(ms), "for every kind the decoder creates the struct type that the evaluator's case asserts", bad == "", bad)
	// constructors create matching types as well, from exactly their own parameters
	constructorRules(x, ms, evalCases)
	// encoder arms
	if enc := x.fn("C11.R1", "pkg/policy.statementToIPLD"); enc != nil {
		arms := map[string]bool{}
		for _, p := range x.pathsQuiet(enc) {
			for _, f := range p.Facts {
				if f.Atom.Op == "extract" && f.Atom.Args[0].Op == "typeassert" {
					arms[f.Atom.Args[0].Name] = true
				}
			}
		}
		want := map[string]bool{}
		for _, t := range evalCases {
			want[t] = true
		}
		bad := ""
		for t := range want {
			if !arms[t] {
				bad += "statementToIPLD has no arm for " + t + "\n"
			}
		}
		x.C.Obl("C11.R1", "encoder-arms", x.pos(enc), "the encoder's type switch has an arm for each of the statement struct types", bad == "" && len(want) == 5, bad)
	}

	// ---------------- R2
	// decided(k, pre, want): on every returning path of kind k that carries the facts pre (selector resolved,
	// a value selected), the result is decided by the atom want and by nothing else: True when it holds,
	// False (with the statement as the failing one) when it does not. The comparison may sit in the case
	// itself, in a local closure or in a helper: all of these are spliced into the paths.
	decided := func(k string, pre map[string]bool, want string) (bool, int, string) {
		ok, n, detail := true, 0, ""
		for _, p := range ofKind(k) {
			if p.End == paths.EndLatch {
				continue
			}
			sat := true
			for a, pol := range pre {
				if !p.HasFact(a, pol) {
					sat = false
				}
			}
			if !sat {
				// outside the deciding paths nothing may answer True: a leaf statement holds only through its comparison
				if p.End == paths.EndReturn && p.Results()[0].IsConst(fmt.Sprint(mr["True"])) {
					ok = false
					detail += "True is returned without the comparison having been evaluated on the selected value:\n" + p.String() + "\n"
				}
				continue
			}
			n++
			pol, has := p.FactOn(want)
			if !has {
				// the same comparison with its interpretation function looked up in a package-level table under the
				// statement's kind (a map literal keyed by the kind constants)
				for _, fc := range p.Facts {
					if canonTableLookups(x, fc.Atom, k) == want {
						pol, has = fc.Pol, true
					}
				}
			}
			switch {
			case p.End != paths.EndReturn:
				ok = false
				detail += "a path with a selected value ends in " + p.End.String() + "\n"
			case !has:
				ok = false
				detail += "a path with a selected value returns " + p.Results()[0].String() + " without evaluating " + want + ":\n" + p.String() + "\n"
			case pol && !p.Results()[0].IsConst(fmt.Sprint(mr["True"])):
				ok = false
				detail += "the comparison holds but the result is " + p.Results()[0].String() + "\n"
			case !pol && (!p.Results()[0].IsConst(fmt.Sprint(mr["False"])) || p.Results()[1].String() != "arg0"):
				ok = false
				detail += "the comparison fails but the result is " + p.Results()[0].String() + ", " + p.Results()[1].String() + "\n"
			}
		}
		return ok, n, detail
	}
	selected := func(typ string) (string, map[string]bool) {
		sel := selectCall(x, "typeassert["+typ+"](arg0)#0.selector", "arg1")
		return sel, map[string]bool{eqs(sel+"#1", "const(nil)"): true, eqs(sel+"#0", "const(nil)"): false}
	}
	wantCmp := map[string]string{">": "gt", ">=": "gte", "<": "lt", "<=": "lte"}
	for _, k := range []string{">", ">=", "<", "<="} {
		sel, pre := selected("pkg/policy.equality")
		want := "call[pkg/policy.isOrdered](typeassert[pkg/policy.equality](arg0)#0.value," + sel + "#0,func(pkg/policy." + wantCmp[k] + "))"
		ok, n, detail := decided(k, pre, want)
		x.C.Obl("C11.R2", "wiring:"+k, x.pos(ms), "kind "+k+" is True / False exactly as isOrdered(statement value, selected node, "+wantCmp[k]+")", ok && n >= 2, detail)
	}
	truth := map[string][]int64{"gt": {1}, "gte": {0, 1}, "lt": {-1}, "lte": {-1, 0}}
	for _, name := range []string{"gt", "gte", "lt", "lte"} {
		f := x.fn("C11.R2", "pkg/policy."+name)
		if f == nil {
			continue
		}
		var got []int64
		for _, v := range []int64{-1, 0, 1} {
			vt, err := x.E.ConsistentPaths(f, paths.WantTrue, paths.ValueIs("arg0", v), 0)
			vf, _ := x.E.ConsistentPaths(f, paths.WantFalse, paths.ValueIs("arg0", v), 0)
			if err != nil {
				x.C.Unresolved("C11.R2", "paths:"+name, x.pos(f), err.Error())
				continue
			}
			if len(vt) > 0 && len(vf) == 0 {
				got = append(got, v)
			} else if len(vt) > 0 && len(vf) > 0 {
				got = append(got, 99) // undecided
			}
		}
		x.C.Obl("C11.R2", "truth-set:"+name, x.pos(f), fmt.Sprintf("%s is true exactly on %v among the orders {-1,0,1}", name, truth[name]), fmt.Sprint(got) == fmt.Sprint(truth[name]), fmt.Sprintf("true on %v", got))
	}
	if f := x.fn("C11.R2", "pkg/policy.isOrdered"); f != nil {
		kInt, _ := x.kindConst("Kind_Int")
		kFloat, _ := x.kindConst("Kind_Float")
		ok, n := true, 0
		detail := ""
		for _, p := range x.pathsQuiet(f) {
			if p.End != paths.EndReturn {
				continue
			}
			r := p.Results()[0]
			if r.Op == "const" {
				if r.Name != "false" {
					ok = false
					detail += "returns constant " + r.Name + "\n"
				}
				// closed world: an ordering is false only because the operands are not two integers / two floats, a
				// conversion failed, or a float is NaN / infinite. Any other cause makes comparable numbers incomparable.
				if !orderedFalseCause(p, kInt, kFloat) {
					ok = false
					detail += "returns false for two comparable numbers for another reason than kind mismatch, conversion error, NaN or infinity:\n" + p.String() + "\n"
				}
				continue
			}
			n++
			// dyncall(arg2, cmp.Compare(actual, expected)) under same-kind facts
			if r.Op != "dyncall" || r.Args[0].String() != "arg2" || len(r.Args) != 2 || !strings.HasPrefix(r.Args[1].Name, "cmp.Compare[") {
				ok = false
				detail += "returns " + r.String() + "\n"
				continue
			}
			a, b := r.Args[1].Args[0].String(), r.Args[1].Args[1].String()
			var k int64
			var as string
			switch {
			case strings.Contains(a, "Node.AsInt](arg1)#0") && strings.Contains(b, "Node.AsInt](arg0)#0"):
				k, as = kInt, "AsInt"
			case strings.Contains(a, "Node.AsFloat](arg1)#0") && strings.Contains(b, "Node.AsFloat](arg0)#0"):
				k, as = kFloat, "AsFloat"
			default:
				ok = false
				detail += "compares " + a + " with " + b + " (want actual = second parameter first, expected = first parameter second)\n"
				continue
			}
			for _, arg := range []string{"arg0", "arg1"} {
				if !p.HasFact(eqs(fmt.Sprintf("const(%d)", k), "invoke[github.com/ipld/go-ipld-prime.Node.Kind]("+arg+")"), true) {
					ok = false
					detail += as + " comparison without the kind fact on " + arg + "\n"
				}
				if !p.HasFact(eqs("const(nil)", "invoke[github.com/ipld/go-ipld-prime.Node."+as+"]("+arg+")#1"), true) {
					ok = false
					detail += as + " error of " + arg + " not checked\n"
				}
			}
			if as == "AsFloat" {
				for _, g := range []string{"call[math.IsNaN](" + a + ")", "call[math.IsNaN](" + b + ")"} {
					if !p.HasFact(g, false) {
						ok = false
						detail += "float comparison without excluding NaN\n"
					}
				}
			}
		}
		x.C.Obl("C11.R2", "isOrdered", x.pos(f), "isOrdered returns satisfies(cmp.Compare(actual, expected)) only for Int/Int and Float/Float (errors checked, NaN excluded) and false otherwise", ok && n == 2, detail)
	}
	// equality
	{
		sel, pre := selected("pkg/policy.equality")
		want := "call[github.com/ipld/go-ipld-prime/datamodel.DeepEqual](typeassert[pkg/policy.equality](arg0)#0.value," + sel + "#0)"
		ok, n, detail := decided("==", pre, want)
		x.C.Obl("C11.R2", "wiring:==", x.pos(ms), "kind == is True / False exactly as DeepEqual(statement value, selected node)", ok && n >= 2, detail)
	}
	// negation table
	{
		inner := "call[pkg/policy.matchStatement](typeassert[pkg/policy.negation](arg0)#0.statement,arg1)#0"
		want := map[string]string{"True": "False", "False": "True", "NoData": "NoData", "OptionalNoData": "OptionalNoData"}
		for _, n := range mrNames {
			out := map[string]bool{}
			for _, p := range ofKind("not") {
				if p.End != paths.EndReturn {
					continue
				}
				v := paths.VPath{Path: p}
				if !x.E.Consistent(v, paths.ValueIs(inner, mr[n]), nil, 0) || !mentions(p, inner) {
					continue
				}
				r := p.Results()[0]
				switch {
				case r.Op == "const":
					c, _ := paths.ConstInt(r)
					out[byVal[c]] = true
				case r.String() == inner:
					out[n] = true
				default:
					out[r.String()] = true
				}
			}
			x.C.Obl("C11.R2", "not:"+n, x.pos(ms), "not("+n+") = "+want[n], len(out) == 1 && out[want[n]], fmt.Sprint(out))
		}
	}

	// ---------------- R3
	for _, k := range []string{"and", "or", "all", "any"} {
		foldTable(x, ms, k, ofKind(k), mr, byVal)
	}

	// ---------------- R4
	for _, k := range []string{"==", ">", ">=", "<", "<=", "like", "all", "any"} {
		typ := evalCases[k]
		sel := selectCall(x, "typeassert["+typ+"](arg0)#0.selector", "arg1")
		check := func(name string, A paths.Assign, want int64) {
			out := map[string]bool{}
			n := 0
			for _, p := range ofKind(k) {
				if p.End == paths.EndLatch || !mentions(p, sel) {
					continue
				}
				if !x.E.Consistent(paths.VPath{Path: p}, A, nil, 0) {
					continue
				}
				n++
				if p.End != paths.EndReturn {
					out[p.End.String()] = true
					continue
				}
				out[p.Results()[0].String()] = true
			}
			x.C.Obl("C11.R4", name+":"+k, x.pos(ms), fmt.Sprintf("kind %s: %s -> %s", k, name, byVal[want]), n > 0 && len(out) == 1 && out[fmt.Sprintf("const(%d)", want)], fmt.Sprint(out))
		}
		check("selector-error", atoms(map[string]bool{eqs(sel+"#1", "const(nil)"): false}), mr["NoData"])
		check("optional-miss", atoms(map[string]bool{eqs(sel+"#1", "const(nil)"): true, eqs(sel+"#0", "const(nil)"): true}), mr["OptionalNoData"])
	}
	{
		sel := selectCall(x, "typeassert[pkg/policy.wildcard](arg0)#0.selector", "arg1")
		as := "invoke[github.com/ipld/go-ipld-prime.Node.AsString](" + sel + "#0)#1"
		n, ok := 0, true
		for _, p := range ofKind("like") {
			if pol, has := p.FactOn(eqs(as, "const(nil)")); has && !pol {
				n++
				if p.End != paths.EndReturn || !p.Results()[0].IsConst(fmt.Sprint(mr["False"])) {
					ok = false
				}
			}
		}
		x.C.Obl("C11.R4", "like-non-string", x.pos(ms), "like on a value that is not a string is False", ok && n > 0, "")
		// like wiring (C13.R4)
		_, pre := selected("pkg/policy.wildcard")
		pre[eqs(as, "const(nil)")] = true
		want := "call[(pkg/policy.glob).Match](typeassert[pkg/policy.wildcard](arg0)#0.pattern,invoke[github.com/ipld/go-ipld-prime.Node.AsString](" + sel + "#0)#0)"
		okW, nW, dW := decided("like", pre, want)
		x.C.Obl("C11.R4", "like-wiring", x.pos(ms), "like is True / False exactly as pattern.Match(selected string)", okW && nW >= 2, dW)
	}
	for _, k := range []string{"all", "any"} {
		sel := selectCall(x, "typeassert[pkg/policy.quantifier](arg0)#0.selector", "arg1")
		it := "invoke[github.com/ipld/go-ipld-prime.Node.ListIterator](" + sel + "#0)"
		n, ok := 0, true
		for _, p := range ofKind(k) {
			if pol, has := p.FactOn(eqs(it, "const(nil)")); has && pol {
				n++
				if p.End != paths.EndReturn || !p.Results()[0].IsConst(fmt.Sprint(mr["False"])) {
					ok = false
				}
			}
		}
		x.C.Obl("C11.R4", "non-list:"+k, x.pos(ms), k+" over a value that is not a list is False", ok && n > 0, "")
	}

	// ---------------- R5
	policyMatchTable(x, "C11.R5", "(pkg/policy.Policy).PartialMatch", map[string]string{"True": "continue", "OptionalNoData": "continue", "NoData": "continue", "False": "false"})
	runTotalLoops(x, "C11")
}

// constructorRules: each exported statement constructor returns a function (a closure today; a shared
// constructor helper or a method value would do) that, when it succeeds, builds the struct type the evaluator
// asserts for the constructor's kind, with that kind, the parsed form of the selector parameter and the value /
// pattern / inner statements given - nothing rewritten, swapped or dropped.
func constructorRules(x *Ctx, ms *ssa.Function, evalCases map[string]string) {
	parse := "call[pkg/policy/selector.Parse](arg0)#0"
	type want struct {
		kind   string
		fields map[string]string
	}
	eqf := func(k string) want { return want{k, map[string]string{"selector": parse, "value": "arg1"}} }
	table := map[string]want{
		"Equal": eqf("=="), "GreaterThan": eqf(">"), "GreaterThanOrEqual": eqf(">="), "LessThan": eqf("<"), "LessThanOrEqual": eqf("<="),
		"Not":  {"not", map[string]string{"statement": "dyncall(arg0)#0"}},
		"And":  {"and", map[string]string{"statements": "call[pkg/policy.assemble](arg0)#0"}},
		"Or":   {"or", map[string]string{"statements": "call[pkg/policy.assemble](arg0)#0"}},
		"Like": {"like", map[string]string{"selector": parse, "pattern": "call[pkg/policy.parseGlob](arg1)#0"}},
		"All":  {"all", map[string]string{"selector": parse, "statement": "dyncall(arg1)#0"}},
		"Any":  {"any", map[string]string{"selector": parse, "statement": "dyncall(arg1)#0"}},
	}
	var names []string
	for n := range table {
		names = append(names, n)
	}
	sort.Strings(names)
	for _, name := range names {
		w := table[name]
		outer := x.fn("C11.R1", "pkg/policy."+name)
		if outer == nil {
			continue
		}
		ops := x.pathsQuiet(outer)
		if len(ops) != 1 || ops[0].End != paths.EndReturn {
			x.C.Unresolved("C11.R1", "constructor-shape:"+name, x.pos(outer), fmt.Sprintf("expected one straight path returning the constructor function, found %d", len(ops)))
			continue
		}
		rf := x.returnedFunc(ops[0], ops[0].Results()[0])
		if rf == nil {
			x.C.Unresolved("C11.R1", "constructor-value:"+name, x.pos(outer), "the value returned is not a function literal, function or method value: "+ops[0].Results()[0].String())
			continue
		}
		inOuter := rf.Tr
		sel, unk, err := x.E.SelectFrom(rf.Paths, rf.Fn, paths.WantSuccess)
		ok := err == nil && len(unk) == 0 && len(sel) > 0
		detail := ""
		for _, v := range sel {
			cell := paths.CellOf(v.Results()[0])
			if cell == nil {
				ok = false
				detail += "returns " + v.Results()[0].String() + "\n"
				continue
			}
			typ := paths.Short(cell.Type().Underlying().(*types.Pointer).Elem().String())
			if evalCases[w.kind] != typ {
				ok = false
				detail += fmt.Sprintf("builds a %s but the evaluator asserts %s for kind %q\n", typ, evalCases[w.kind], w.kind)
			}
			fs := v.FieldStores(cell)
			wantN := len(w.fields)
			if k, has := fs["kind"]; has {
				wantN++
				if got := inOuter(k); got != fmt.Sprintf("const(%q)", w.kind) {
					ok = false
					detail += fmt.Sprintf("sets kind %s, want %q\n", got, w.kind)
				}
			} else if w.kind != "not" && w.kind != "like" {
				ok = false
				detail += "does not set the kind\n"
			}
			for fld, wv := range w.fields {
				got := "<unset>"
				if fs[fld] != nil {
					got = inOuter(fs[fld])
				}
				if got != wv {
					ok = false
					detail += fmt.Sprintf("field %s = %s, want %s (in terms of %s's parameters)\n", fld, got, wv, name)
				}
			}
			if len(fs) != wantN {
				ok = false
				detail += fmt.Sprintf("%d fields set, want %d\n", len(fs), wantN)
			}
			// inner statements / glob are used only after their own construction succeeded
			for _, wv := range w.fields {
				if strings.HasSuffix(wv, "#0") && wv != parse {
					errAtom := eqs(strings.TrimSuffix(wv, "#0")+"#1", "const(nil)")
					found := false
					for _, f := range v.AllFacts() {
						if f.Pol && inOuter(f.Atom) == errAtom {
							found = true
						}
					}
					if !found {
						ok = false
						detail += "succeeds without " + strings.TrimSuffix(wv, "#0") + " having succeeded\n"
					}
				}
			}
		}
		x.C.Obl("C11.R1", "constructor:"+name, x.pos(outer), "the constructor builds the statement of its kind from exactly its own parameters", ok, dedupLines(detail))
	}
}

// canonTableLookups renders an atom with every lookup `table[kind]` - table a package-level map variable
// initialised by a map literal, kind the statement's kind as the path spells it (cur.Kind() or the kind field of
// the asserted statement) - replaced by the entry the literal holds for the kind k of the case under analysis.
func canonTableLookups(x *Ctx, atom *paths.Term, k string) string {
	s := atom.String()
	atom.Walk(func(t *paths.Term) {
		if t.Op != "extract" || t.Name != "#0" || t.Args[0].Op != "lookup" {
			return
		}
		lk := t.Args[0]
		key := lk.Args[1].String()
		if !(strings.HasPrefix(key, "invoke[pkg/policy.Statement.Kind](") || strings.HasSuffix(key, ".kind")) {
			return
		}
		if lk.Args[0].Op != "load" || lk.Args[0].Args[0].Op != "global" {
			return
		}
		g, ok := lk.Args[0].Args[0].Val.(*ssa.Global)
		if !ok {
			return
		}
		if v, ok := globalMapLiteral(x, g)[fmt.Sprintf("%q", k)]; ok {
			s = strings.ReplaceAll(s, t.String(), v)
		}
	})
	// the plain lookup (no comma-ok) renders without #0
	atom.Walk(func(t *paths.Term) {
		if t.Op != "lookup" {
			return
		}
		key := t.Args[1].String()
		if !(strings.HasPrefix(key, "invoke[pkg/policy.Statement.Kind](") || strings.HasSuffix(key, ".kind")) || t.Args[0].Op != "load" || t.Args[0].Args[0].Op != "global" {
			return
		}
		if g, ok := t.Args[0].Args[0].Val.(*ssa.Global); ok {
			if v, ok := globalMapLiteral(x, g)[fmt.Sprintf("%q", k)]; ok {
				s = strings.ReplaceAll(s, t.String(), v)
			}
		}
	})
	return s
}

// orderedFalseCause tells whether a `return false` path of isOrdered carries one of the recognised causes.
func orderedFalseCause(p *paths.Path, kInt, kFloat int64) bool {
	kindOf := func(arg string, k int64) (bool, bool) {
		return p.FactOn(eqs(fmt.Sprintf("const(%d)", k), "invoke[github.com/ipld/go-ipld-prime.Node.Kind]("+arg+")"))
	}
	bothInt, bothFloat := true, true
	for _, arg := range []string{"arg0", "arg1"} {
		if pol, has := kindOf(arg, kInt); !has || !pol {
			bothInt = false
		}
		if pol, has := kindOf(arg, kFloat); !has || !pol {
			bothFloat = false
		}
	}
	if !bothInt && !bothFloat {
		return true // kind mismatch / unsupported kinds
	}
	for _, f := range p.Facts {
		s := f.Atom.String()
		switch {
		case f.Atom.Op == "eq" && !f.Pol && strings.Contains(s, "const(nil)") && (strings.Contains(s, "Node.AsInt](") || strings.Contains(s, "Node.AsFloat](")) && strings.HasSuffix(strings.TrimSuffix(strings.Replace(s, ",const(nil))", "", 1), ")"), "#1"):
			return true // conversion error
		case f.Pol && f.Atom.Op == "call" && (f.Atom.Name == "math.IsNaN" || f.Atom.Name == "math.IsInf"):
			return true
		}
	}
	return false
}

func mentions(p *paths.Path, term string) bool {
	for _, f := range p.Facts {
		if f.Atom.Contains(term) {
			return true
		}
	}
	return false
}

// pathsQuiet returns the paths of f or nil (no obligation recorded).
func (x *Ctx) pathsQuiet(f *ssa.Function) []*paths.Path {
	ps, err := x.E.Paths(f)
	if err != nil {
		return nil
	}
	return ps
}

// kindConsts returns the values of the Kind* string constants of pkg/policy.
func kindConsts(x *Ctx) []string {
	sp := x.P.SSA[load.Module+"/pkg/policy"]
	var out []string
	if sp == nil {
		return out
	}
	sc := sp.Pkg.Scope()
	for _, n := range sc.Names() {
		if c, ok := sc.Lookup(n).(*types.Const); ok && strings.HasPrefix(n, "Kind") && c.Val().Kind() == constant.String {
			out = append(out, constant.StringVal(c.Val()))
		}
	}
	sort.Strings(out)
	return out
}

func (x *Ctx) kindConst(name string) (int64, bool) {
	for path, sp := range x.P.SSA {
		if path == "github.com/ipld/go-ipld-prime/datamodel" {
			if c, ok := sp.Pkg.Scope().Lookup(name).(*types.Const); ok {
				return constantInt(c.Val())
			}
		}
	}
	return 0, false
}

// decoderCases maps each operator accepted by statementFromIPLD to the struct type it creates.
func decoderCases(x *Ctx) map[string]string {
	out := map[string]string{}
	dec := x.fn("C11.R1", "pkg/policy.statementFromIPLD")
	if dec == nil {
		return out
	}
	sel, _, err := x.E.Select(dec, paths.WantSuccess)
	if err != nil {
		return out
	}
	for _, v := range sel {
		cell := paths.CellOf(v.Results()[0])
		if cell == nil {
			continue
		}
		typ := paths.Short(cell.Type().Underlying().(*types.Pointer).Elem().String())
		// the last true comparison of the operator with a string constant
		for _, f := range v.Facts {
			if !f.Pol || f.Atom.Op != "eq" {
				continue
			}
			c, o := f.Atom.Args[0], f.Atom.Args[1]
			if c.Op != "const" {
				c, o = o, c
			}
			if c.Op == "const" && strings.HasPrefix(c.Name, `"`) && o.Op == "call" && strings.HasSuffix(o.Name, "must.String") && strings.Contains(o.String(), "Node.LookupByIndex](arg1,const(0))") {
				out[strings.Trim(c.Name, `"`)] = typ
			}
		}
	}
	return out
}

// foldTable reads the per-child transition table of a connective and checks the laws.
func foldTable(x *Ctx, ms *ssa.Function, k string, ps []*paths.Path, mr map[string]int64, byVal map[int64]string) {
	// the loop of this connective (in matchStatement, or in a helper spliced into its paths)
	var loop *paths.Loop
	for _, p := range ps {
		for _, b := range p.Blocks {
			if l := paths.Info(b.Parent()).LoopOf(b); l != nil {
				loop = l
			}
		}
	}
	if loop == nil {
		x.C.Unresolved("C11.R3", "loop:"+k, x.pos(ms), "no loop found in the "+k+" case")
		return
	}
	// child result term: the matchStatement call consulted inside the loop
	child := ""
	for _, p := range ps {
		for _, f := range p.LoopFacts(loop) {
			f.Atom.Walk(func(t *paths.Term) {
				if t.Op == "extract" && t.Name == "#0" && t.Args[0].Op == "call" && t.Args[0].Name == "pkg/policy.matchStatement" {
					child = t.String()
				}
			})
		}
	}
	if child == "" {
		x.C.Unresolved("C11.R3", "child:"+k, x.pos(ms), "no recursive matchStatement result is consulted in the loop of "+k)
		return
	}
	// table
	table := map[string]string{} // child result name -> "continue" | result name
	for _, n := range mrNames {
		outs := map[string]bool{}
		for _, p := range ps {
			if !p.EntersBody(loop) || !mentions(p, child) {
				continue
			}
			if !x.E.Consistent(paths.VPath{Path: p}, paths.ValueIs(child, mr[n]), nil, 0) {
				continue
			}
			switch p.End {
			case paths.EndLatch:
				outs["continue"] = true
			case paths.EndReturn:
				r := p.Results()[0]
				if r.String() == child {
					outs[n] = true
				} else if c, ok := paths.ConstInt(r); ok {
					outs[byVal[c]] = true
				} else {
					outs["?"+r.String()] = true
				}
			default:
				outs[p.End.String()] = true
			}
		}
		if len(outs) != 1 {
			x.C.Obl("C11.R3", "table:"+k+":"+n, x.pos(ms), "the transition for child result "+n+" is determined", false, fmt.Sprint(outs))
			return
		}
		for o := range outs {
			table[n] = o
		}
	}
	// fall-off value: paths of this kind that pass the loop header without entering the body
	fall := ""
	for _, p := range ps {
		if p.End == paths.EndReturn && p.InBlock(loop.Header) && !p.EntersBody(loop) {
			if c, ok := paths.ConstInt(p.Results()[0]); ok {
				fall = byVal[c]
			}
		}
	}
	x.C.Obl("C11.R3", "table-read:"+k, x.pos(ms), "transition table and fall-off value of "+k+" are read off the CFG", fall != "",
		fmt.Sprintf("table %v fall-off %q", table, fall))
	// nothing answers for the fold: a path of this kind that returns without reaching the loop may only report
	// missing data (NoData / OptionalNoData), or False because the selected value is not a list; True, and False
	// for any other reason, come out of the loop or of its exhaustion
	{
		bypass := ""
		for _, p := range ps {
			if p.End != paths.EndReturn || p.InBlock(loop.Header) || len(p.Results()) == 0 {
				continue
			}
			c, isConst := paths.ConstInt(p.Results()[0])
			if !isConst {
				continue // the result of a helper: classified where it is computed
			}
			// the empty connective, answered before the loop on a test of the number of operands
			if len(p.Facts) > 0 {
				if last := p.Facts[len(p.Facts)-1].Atom; (last.Op == "eq" || last.Op == "lt") && strings.Contains(last.String(), "len(") && strings.Contains(last.String(), ".statements") {
					continue
				}
			}
			switch byVal[c] {
			case "NoData", "OptionalNoData":
				continue
			case "False":
				if len(p.Facts) > 0 {
					last := p.Facts[len(p.Facts)-1].Atom.String()
					if strings.Contains(last, "ListIterator") || strings.Contains(last, "Node.Kind]") || strings.Contains(last, "AsString") {
						continue
					}
				}
			}
			bypass += fmt.Sprintf("a path of %s answers %s without evaluating the operands in the loop:\n%s\n", k, byVal[c], p.String())
		}
		x.C.Obl("C11.R3", "no-bypass:"+k, x.pos(ms), "every True (and every False not due to a non-list value) of "+k+" comes out of the fold over the operands", bypass == "", firstLines(bypass, 14))
	}
	if fall == "" {
		return
	}
	x.C.Note("fold %s: %v, fall-off %s", k, table, fall)
	fold := func(xs []string) string {
		for _, c := range xs {
			if o := table[c]; o != "continue" {
				return o
			}
		}
		return fall
	}
	pass := func(r string) bool { return r == "True" || r == "OptionalNoData" }
	// L1 permutation invariance / L2 monotonicity over all lists up to length 3
	orderDep := map[string]bool{}
	nonMono := ""
	var lists [][]string
	var gen func(cur []string, n int)
	gen = func(cur []string, n int) {
		lists = append(lists, append([]string(nil), cur...))
		if n == 0 {
			return
		}
		for _, c := range mrNames {
			gen(append(cur, c), n-1)
		}
	}
	gen(nil, 3)
	for _, l := range lists {
		r := fold(l)
		// all permutations (lists are short)
		permute(l, func(q []string) {
			if fold(q) != r {
				// blame: the returning results present in the list
				for _, c := range l {
					if table[c] != "continue" {
						orderDep[c] = true
					}
				}
			}
		})
		if (k == "and" || k == "all") && len(l) < 3 {
			for _, extra := range mrNames {
				for pos := 0; pos <= len(l); pos++ {
					l2 := append(append(append([]string(nil), l[:pos]...), extra), l[pos:]...)
					if pass(fold(l2)) && !pass(r) {
						nonMono = fmt.Sprintf("%v is %s but %v is %s", l, r, l2, fold(l2))
					}
				}
			}
		}
	}
	var od []string
	for _, n := range []string{"NoData", "OptionalNoData", "True", "False"} {
		if orderDep[n] {
			od = append(od, n+"->"+table[n])
		}
	}
	key := "policy.matchStatement|" + k + "|order-free"
	detail := ""
	if len(od) > 0 {
		key = "policy.matchStatement|" + k + "|order-dependent{" + strings.Join(od, ",") + "}"
		detail = fmt.Sprintf("table %v, fall-off %s: the child results %v return from the fold with different outcomes, so the order of operands / elements changes the result", table, fall, od)
		if nonMono != "" {
			detail += "; and adding an operand can turn a failing match into a passing one: " + nonMono
		}
	}
	x.C.Obl("C11.R3", key, x.pos(ms), "the outcome of "+k+" does not depend on the order of its operands / elements (all returning child results map to one outcome)", len(od) == 0, detail)
	if len(od) == 0 && nonMono != "" {
		x.C.Obl("C11.R3", "policy.matchStatement|"+k+"|non-monotone", x.pos(ms), "adding an operand to "+k+" never turns a failing match into a passing one", false, nonMono)
	}
	// L3 classical corners on defined operands
	corner := func(name string, l []string, want string) {
		x.C.Obl("C11.R3", "corner:"+k+":"+name, x.pos(ms), fmt.Sprintf("%s%v = %s", k, l, want), fold(l) == want, "got "+fold(l))
	}
	switch k {
	case "and", "all":
		corner("all-true", []string{"True", "True"}, "True")
		corner("one-false", []string{"True", "False", "True"}, "False")
		corner("empty", nil, "True")
	case "or", "any":
		corner("one-true", []string{"False", "True", "False"}, "True")
		corner("all-false", []string{"False", "False"}, "False")
		if k == "any" {
			corner("empty", nil, "False")
		}
	}
}

func permute(l []string, f func([]string)) {
	var rec func(int)
	q := append([]string(nil), l...)
	rec = func(i int) {
		if i == len(q) {
			f(q)
			return
		}
		for j := i; j < len(q); j++ {
			q[i], q[j] = q[j], q[i]
			rec(i + 1)
			q[i], q[j] = q[j], q[i]
		}
	}
	rec(0)
}

// selectCall renders selector.Select(sel, subject) as matchStatement's paths show it (Select is a
// one-line wrapper of resolve today).
func selectCall(x *Ctx, sel, subject string) string {
	return x.call("(pkg/policy/selector.Selector).Select", sel, subject)
}
