package rules

import (
	"fmt"
	"go/types"
	"strings"

	"golang.org/x/tools/go/ssa"

	"verif/lint/internal/load"
	"verif/lint/internal/paths"
)

// builderKeepsRefusals (C10.R7): args.Builder is the fluent way of supplying arguments; a value that Args.Add
// refuses must make Build fail, however many calls of Add follow ("stored exactly or rejected"). Read off the
// paths of Builder.Add: the value the error field holds afterwards is errors.Join of its old value and the
// error of Args.Add; or it is left alone on a path that knows the new error to be nil or the old one to be set;
// or it takes the new error on a path that knows the old one to be nil. Build succeeds only when the field is nil.
func builderKeepsRefusals(x *Ctx) {
	add := x.fn("C10.R7", "(*pkg/args.Builder).Add")
	build := x.fn("C10.R7", "(*pkg/args.Builder).Build")
	if add == nil || build == nil {
		return
	}
	// the error field of the builder, by type
	st, _ := add.Params[0].Type().Underlying().(*types.Pointer).Elem().Underlying().(*types.Struct)
	errField := ""
	if st != nil {
		for i := 0; i < st.NumFields(); i++ {
			if types.Identical(st.Field(i).Type(), types.Universe.Lookup("error").Type()) {
				if errField != "" {
					errField = "?"
					break
				}
				errField = paths.FieldName(st.Field(i))
			}
		}
	}
	if errField == "" || errField == "?" {
		x.C.Unresolved("C10.R7", "builder-error-field", x.pos(add), "args.Builder does not have exactly one field of type error")
		return
	}
	old := "recv." + errField
	bad := ""
	n := 0
	for _, p := range x.pathsQuiet(add) {
		if p.End != paths.EndReturn {
			continue
		}
		n++
		// the error of Args.Add on this path
		var addErr *paths.Term
		p.InstrsIn(func(in ssa.Instruction, c *paths.Ctx) {
			if call, ok := in.(*ssa.Call); ok {
				ct := c.Term(call)
				if ct != nil && ct.Op == "call" && ct.Name == "(*pkg/args.Args).Add" {
					addErr = ct
				}
			}
		})
		v, stored := p.FieldStores(add.Params[0])[errField]
		if addErr == nil {
			// nothing is added any more once a value was refused: Build fails anyway
			if !p.HasFact(eqs("const(nil)", old), false) || stored {
				bad += "a path of Builder.Add does not call Args.Add (and is not the path of a builder that already holds a refusal)\n"
			}
			continue
		}
		newNil := p.HasFact(eqs("const(nil)", addErr.String()), true)
		oldNil := p.HasFact(eqs("const(nil)", old), true)
		oldSet := p.HasFact(eqs("const(nil)", old), false)
		switch {
		case !stored:
			if !newNil && !oldSet {
				bad += fmt.Sprintf("a path of Builder.Add leaves %s alone without knowing that Args.Add succeeded: the refusal is lost\n", old)
			}
		case v.Op == "call" && v.Name == "errors.Join" && mentionsTerm(v, old) && mentionsTerm(v, addErr.String()):
		case v.String() == addErr.String():
			if !oldNil {
				bad += fmt.Sprintf("Builder.Add overwrites %s with the result of the last Args.Add on a path that does not know it to be nil: an earlier refusal is forgotten when a later Add succeeds\n", old)
			}
		default:
			bad += fmt.Sprintf("Builder.Add stores %s into %s: not errors.Join(old, new), nor the new error over a nil one\n", v, old)
		}
	}
	x.C.Obl("C10.R7", "builder-add-accumulates", x.pos(add), "after Builder.Add the error field is non-nil whenever it was before or Args.Add refused the value", bad == "" && n > 0, dedupLines(bad))
	x.noPath("C10.R7", "builder-build-fails", build, paths.WantSuccess, atoms(map[string]bool{eqs("const(nil)", old): false}), 0, "Build fails when an Add was refused")
	// the Args handed out is the one the values were added to
	okArgs := true
	detail := ""
	for _, p := range x.pathsQuiet(build) {
		if o, _ := p.ErrorOutcome(); o != paths.Success {
			continue
		}
		if r := p.Results(); len(r) != 2 || r[0].String() != "recv.args" && !strings.HasPrefix(r[0].String(), "recv.") {
			okArgs = false
			detail += fmt.Sprintf("Build returns %v\n", r)
		}
	}
	x.C.Obl("C10.R7", "builder-build-returns-args", x.pos(build), "Build returns the builder's own Args", okArgs, detail)
	_ = load.Module
}

func mentionsTerm(t *paths.Term, s string) bool {
	if t == nil {
		return false
	}
	if t.String() == s {
		return true
	}
	for _, a := range t.Args {
		if mentionsTerm(a, s) {
			return true
		}
	}
	return false
}
