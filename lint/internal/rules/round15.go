package rules

import (
	"fmt"
	"go/token"
	"go/types"
	"regexp"
	"strings"

	"golang.org/x/tools/go/ssa"

	"verif/lint/internal/load"
	"verif/lint/internal/paths"
)

// orderFreeEquals (C07.R1): the decoders hand the keys of arguments and metadata back in the order of the wire
// (length-first for DAG-CBOR, lexical for DAG-JSON), a constructor keeps the order of insertion. The library's own
// comparison of two such containers therefore never compares the two key lists position by position: no element
// of a.Keys is compared with an element of other.Keys, and no call receives both lists as they are.
func orderFreeEquals(x *Ctx) {
	for _, name := range []string{"(*pkg/args.Args).Equals", "(*pkg/meta.Meta).Equals"} {
		f := x.fn("C07.R1", name)
		if f == nil {
			continue
		}
		if len(f.Params) != 2 {
			x.C.Unresolved("C07.R1", "order-free:"+name, x.pos(f), "expected a receiver and one parameter")
			continue
		}
		fns := []*ssa.Function{f}
		for i := 0; i < len(fns); i++ {
			fns = append(fns, fns[i].AnonFuncs...)
		}
		// which of the two key lists a value is taken from (0: neither)
		var from func(v ssa.Value, depth int) int
		from = func(v ssa.Value, depth int) int {
			if depth > 12 {
				return 0
			}
			switch t := v.(type) {
			case *ssa.UnOp:
				if t.Op == token.MUL {
					if fa, ok := t.X.(*ssa.FieldAddr); ok && fieldNameOf(fa) == "Keys" {
						switch fa.X {
						case ssa.Value(f.Params[0]):
							return 1
						case ssa.Value(f.Params[1]):
							return 2
						}
						return 0
					}
					return from(t.X, depth+1)
				}
			case *ssa.IndexAddr:
				return from(t.X, depth+1)
			case *ssa.Slice:
				return from(t.X, depth+1)
			case *ssa.Phi:
				for _, e := range t.Edges {
					if w := from(e, depth+1); w != 0 {
						return w
					}
				}
			case *ssa.Extract:
				if nx, ok := t.Tuple.(*ssa.Next); ok {
					if rg, ok := nx.Iter.(*ssa.Range); ok {
						return from(rg.X, depth+1)
					}
				}
			case *ssa.MakeInterface:
				return from(t.X, depth+1)
			case *ssa.ChangeType:
				return from(t.X, depth+1)
			}
			return 0
		}
		n, bad := 0, ""
		for _, g := range fns {
			for _, b := range g.Blocks {
				for _, in := range b.Instrs {
					switch t := in.(type) {
					case *ssa.BinOp:
						if t.Op == token.EQL || t.Op == token.NEQ {
							a, c := from(t.X, 0), from(t.Y, 0)
							if a != 0 || c != 0 {
								n++
							}
							if a != 0 && c != 0 && a != c {
								bad += fmt.Sprintf("%s: an element of one key list is compared with an element of the other: the verdict depends on the order of the keys\n", x.P.Pos(t.Pos()))
							}
						}
					case ssa.CallInstruction:
						cm := t.Common()
						if b, ok := cm.Value.(*ssa.Builtin); ok && b.Name() == "len" {
							n++
							continue
						}
						got := map[int]bool{}
						for _, a := range cm.Args {
							if w := from(a, 0); w != 0 {
								got[w] = true
							}
						}
						if got[1] && got[2] {
							callee := cm.Value.String()
							if sc := cm.StaticCallee(); sc != nil {
								callee = sc.String()
							}
							bad += fmt.Sprintf("%s: both key lists are handed to %s as they are: the verdict depends on the order of the keys\n", x.P.Pos(in.Pos()), callee)
						}
					}
				}
			}
		}
		x.C.Obl("C07.R1", "order-free:"+name, x.pos(f), "the comparison never sets the two key lists side by side: a decoded token holds its keys in wire order, a constructed one in insertion order", bad == "" && n > 0, dedupLines(bad))
	}
}

var wordArg1 = regexp.MustCompile(`\barg1\b`)

// operandAgreement (C07.R5): a comparison statement accepted by its constructor is accepted by the decoder. For
// each of ==, <, <=, >, >= the policy decoder refuses a well-shaped tuple on account of its third element (a
// failing path under the operator's kind fact with a fact on LookupByIndex(node, 2)) only if the constructor of
// that operator refuses on account of its value parameter as well (a failing path of the function it returns with a
// fact on the value). The two conditions themselves are not compared.
func operandAgreement(x *Ctx) {
	dec := x.fn("C07.R5", "pkg/policy.statementFromIPLD")
	if dec == nil {
		return
	}
	dps := x.paths("C07.R5", dec)
	fails, unk, err := x.E.SelectFrom(dps, dec, paths.WantFailure)
	if err != nil || len(unk) > 0 {
		x.C.Unresolved("C07.R5", "operand-agreement", x.pos(dec), fmt.Sprintf("failing paths of the decoder not decided: %v, %d undecided", err, len(unk)))
		return
	}
	ctor := map[string]string{"==": "Equal", "<": "LessThan", "<=": "LessThanOrEqual", ">": "GreaterThan", ">=": "GreaterThanOrEqual"}
	for _, k := range []string{"==", "<", "<=", ">", ">="} {
		kc := fmt.Sprintf("const(%q)", k)
		decWhy, seenKind := "", false
		for _, p := range dps {
			for _, fc := range p.Facts {
				if fc.Pol && fc.Atom.Op == "eq" && strings.Contains(fc.Atom.String(), kc) && strings.Contains(fc.Atom.String(), "LookupByIndex](arg1,const(0))") {
					seenKind = true
				}
			}
		}
		for _, p := range fails {
			under := false
			for _, fc := range p.AllFacts() {
				if fc.Pol && fc.Atom.Op == "eq" && strings.Contains(fc.Atom.String(), kc) && strings.Contains(fc.Atom.String(), "LookupByIndex](arg1,const(0))") {
					under = true
				}
			}
			if !under {
				continue
			}
			for _, fc := range p.AllFacts() {
				if strings.Contains(fc.Atom.String(), "LookupByIndex](arg1,const(2))") && decWhy == "" {
					decWhy = fc.Atom.String()
				}
			}
		}
		outer := x.fn("C07.R5", "pkg/policy."+ctor[k])
		if outer == nil {
			continue
		}
		ctorConstrains, ctorKnown := false, false
		if ops := x.pathsQuiet(outer); len(ops) == 1 && ops[0].End == paths.EndReturn && len(ops[0].Results()) == 1 {
			if rf := x.returnedFunc(ops[0], ops[0].Results()[0]); rf != nil {
				if cf, cu, cerr := x.E.SelectFrom(rf.Paths, rf.Fn, paths.WantFailure); cerr == nil && len(cu) == 0 {
					ctorKnown = true
					for _, p := range cf {
						for _, fc := range p.AllFacts() {
							if wordArg1.MatchString(rf.Tr(fc.Atom)) {
								ctorConstrains = true
							}
						}
					}
				}
			}
		}
		ok := seenKind && (decWhy == "" || ctorConstrains)
		detail := ""
		if !seenKind {
			detail = "no path of the decoder recognises the operator"
		} else if !ok {
			detail = fmt.Sprintf("the decoder refuses a %q statement on account of its value (%s); policy.%s accepts any value", k, firstLines(decWhy, 1), ctor[k])
			if !ctorKnown {
				detail += " (the function it returns could not be followed)"
			}
		}
		x.C.Obl("C07.R5", "operand-agreement:"+k, x.pos(dec), "the decoder puts a condition on the value of a comparison statement only if the constructor of that operator does", ok, detail)
	}
}

// sameNode (C08.R2): the buffered and the streaming encoder of a token package encode the same node. In packages
// delegation and invocation, (*Token).Encode and (*Token).EncodeWriter either delegate one to the other, or on
// every path that reaches the codec hand ipld.Encode / ipld.EncodeStreaming the same term - written over the
// receiver and the parameter names, new helpers seen through. (The node is what is signed: two ways of building it
// are two signed contents, hence two CIDs, for one token.)
func sameNode(x *Ctx) {
	argN := regexp.MustCompile(`\barg(\d+)\b`)
	for _, pk := range []string{"token/delegation", "token/invocation"} {
		enc := x.fn("C08.R2", "(*"+pk+".Token).Encode")
		encW := x.fn("C08.R2", "(*"+pk+".Token).EncodeWriter")
		if enc == nil || encW == nil {
			continue
		}
		// the node terms handed to the codec, and whether the function hands the work to its sibling
		nodes := func(f, sibling *ssa.Function) (map[string]bool, bool) {
			out, deleg := map[string]bool{}, false
			for _, p := range x.pathsQuiet(f) {
				for _, c := range p.Calls() {
					ct := p.Term(c)
					if ct == nil || ct.Op != "call" {
						continue
					}
					if ct.Name == load.ShortName(sibling) {
						deleg = true
					}
					if ct.Name != "github.com/ipld/go-ipld-prime.Encode" && ct.Name != "github.com/ipld/go-ipld-prime.EncodeStreaming" {
						continue
					}
					for i, a := range c.Call.Args {
						if strings.HasSuffix(a.Type().String(), "datamodel.Node") && i < len(ct.Args) && ct.Args[i] != nil {
							t := argN.ReplaceAllStringFunc(ct.Args[i].String(), func(m string) string {
								var k int
								fmt.Sscanf(m, "arg%d", &k)
								if k+1 < len(f.Params) {
									return "$" + f.Params[k+1].Name()
								}
								return m
							})
							out[t] = true
						}
					}
				}
			}
			return out, deleg
		}
		n1, d1 := nodes(enc, encW)
		n2, d2 := nodes(encW, enc)
		ok, detail := false, ""
		switch {
		case d1 && len(n1) == 0, d2 && len(n2) == 0:
			ok = true
		case len(n1) > 0 && len(n2) > 0:
			ok = true
			for t := range n1 {
				if !n2[t] {
					ok = false
					detail += "Encode encodes " + t + ", which EncodeWriter does not\n"
				}
			}
			for t := range n2 {
				if !n1[t] {
					ok = false
					detail += "EncodeWriter encodes " + t + ", which Encode does not\n"
				}
			}
		default:
			detail = fmt.Sprintf("node-encoding calls found: %d in Encode, %d in EncodeWriter, and neither is written in terms of the other: the two are not known to encode one node", len(n1), len(n2))
		}
		x.C.Obl("C08.R2", "same-node:"+pk, x.pos(encW), "the buffered and the streaming encoder sign and encode the node built by one and the same expression over the token and the key", ok, dedupLines(detail))
	}
}

// noSubstituteNode (C10.R4): literal.Any and anyAssemble (their literals and new helpers) build every node from
// the caller's value: no null node is produced (Null(), qp.Null, AssignNull, datamodel.Null) and no scalar node is
// built from a constant. A value that has no IPLD form is rejected, not replaced.
func noSubstituteNode(x *Ctx, name string, fns []*ssa.Function) {
	f := fns[0]
	bad, n := "", 0
	for _, g := range fns {
		for _, b := range g.Blocks {
			for _, in := range b.Instrs {
				switch t := in.(type) {
				case *ssa.UnOp:
					if gl, ok := t.X.(*ssa.Global); ok && t.Op == token.MUL && gl.Pkg != nil && gl.Pkg.Pkg.Path() == "github.com/ipld/go-ipld-prime/datamodel" && (gl.Name() == "Null" || gl.Name() == "Absent") {
						bad += fmt.Sprintf("%s: %s hands out datamodel.%s in place of a caller's value\n", x.P.Pos(in.Pos()), load.ShortName(g), gl.Name())
					}
				case ssa.CallInstruction:
					cm := t.Common()
					n++
					if cm.IsInvoke() {
						if cm.Method.Name() == "AssignNull" {
							bad += fmt.Sprintf("%s: %s assigns null in place of a caller's value\n", x.P.Pos(in.Pos()), load.ShortName(g))
						}
						continue
					}
					h := cm.StaticCallee()
					if h == nil || h.Pkg == nil {
						continue
					}
					pp := h.Pkg.Pkg.Path()
					switch {
					case pp == load.Module+"/pkg/policy/literal" && h.Name() == "Null",
						pp == "github.com/ipld/go-ipld-prime/fluent/qp" && h.Name() == "Null":
						bad += fmt.Sprintf("%s: %s builds a null node: a value without an IPLD form is replaced instead of rejected\n", x.P.Pos(in.Pos()), load.ShortName(g))
					case (pp == "github.com/ipld/go-ipld-prime/node/basicnode" && strings.HasPrefix(h.Name(), "New") || pp == "github.com/ipld/go-ipld-prime/fluent/qp") && len(cm.Args) == 1:
						switch h.Name() {
						case "NewString", "NewBytes", "NewBool", "NewInt", "NewFloat", "String", "Bytes", "Bool", "Int", "Float":
							if k, ok := cm.Args[0].(*ssa.Const); ok {
								bad += fmt.Sprintf("%s: %s builds a node from the constant %s, not from the caller's value\n", x.P.Pos(in.Pos()), load.ShortName(g), k.String())
							}
						}
					}
				}
			}
		}
	}
	x.C.Obl("C10.R4", "no-substitute:"+name, x.pos(f), "no null node and no node of a constant stands in for a value the caller supplied", bad == "" && n > 0, dedupLines(bad))
}

// freshMaps (C17.R6): what a reader returns is the caller's to fill. No library function returns a map that was
// loaded from a package-level variable: a shared "empty" result would collect what one caller stores into it and
// hand it to the next.
func freshMaps(x *Ctx, rule string) {
	var fromGlobal func(v ssa.Value, seen map[ssa.Value]bool) *ssa.Global
	fromGlobal = func(v ssa.Value, seen map[ssa.Value]bool) *ssa.Global {
		if seen[v] {
			return nil
		}
		seen[v] = true
		switch t := v.(type) {
		case *ssa.UnOp:
			if gl, ok := t.X.(*ssa.Global); ok && t.Op == token.MUL && gl.Pkg != nil && strings.HasPrefix(gl.Pkg.Pkg.Path(), load.Module) {
				return gl
			}
			if a, ok := t.X.(*ssa.Alloc); ok && t.Op == token.MUL {
				for _, r := range *a.Referrers() {
					if st, ok := r.(*ssa.Store); ok && st.Addr == ssa.Value(a) {
						if g := fromGlobal(st.Val, seen); g != nil {
							return g
						}
					}
				}
			}
		case *ssa.Phi:
			for _, e := range t.Edges {
				if g := fromGlobal(e, seen); g != nil {
					return g
				}
			}
		case *ssa.ChangeType:
			return fromGlobal(t.X, seen)
		case *ssa.MakeInterface:
			return fromGlobal(t.X, seen)
		}
		return nil
	}
	n, bad := 0, ""
	for _, f := range x.P.ModuleFuncs() {
		if !x.P.IsLibrary(f) || f.Synthetic != "" {
			continue
		}
		for _, b := range f.Blocks {
			for _, in := range b.Instrs {
				r, ok := in.(*ssa.Return)
				if !ok {
					continue
				}
				for _, v := range r.Results {
					if _, isMap := v.Type().Underlying().(*types.Map); !isMap {
						continue
					}
					n++
					if gl := fromGlobal(v, map[ssa.Value]bool{}); gl != nil {
						bad += fmt.Sprintf("%s: %s returns the package-level map %s: every caller receives, and may fill, the same map\n", x.P.Pos(r.Pos()), load.ShortName(f), gl.Name())
					}
				}
			}
		}
	}
	x.C.Obl(rule, "fresh-maps", "-", fmt.Sprintf("none of the %d map values returned by library functions is a package-level variable", n), bad == "" && n > 0, dedupLines(bad))
}
