package rules

import (
	"fmt"
	"regexp/syntax"
	"sort"
	"strconv"
	"strings"

	"golang.org/x/tools/go/ssa"

	"verif/lint/internal/load"
	"verif/lint/internal/paths"
	"verif/lint/internal/report"
)

const selPkg = "pkg/policy/selector."
const segT = "(pkg/policy/selector.segment)."

func init() {
	register(&Property{
		Meta: report.Meta{
			Property:    "C12",
			Explanation: "Structural rules on selector.Parse / resolve: (R1) kind totality — for every segment literal that Parse can produce, the kind it intends (identity, iterator, field, slice, index) is derived from the fields it sets, and resolve's dispatch predicates, evaluated on the abstract values of exactly those fields (constants, regex-derived minimum lengths), must select that kind on every path; (R2) nothing ignored — inside the loop over ALL segments a return with a nil error returns a nil node, a non-nil node is returned only after the loop is exhausted and is the current node; (R3) optional discipline — every failure exit of the field and index cases goes through the optional idiom (errIfNotOptional or a branch on Optional()), other kinds fail with a non-nil error; (R4) slice operands — resolveSliceIndices receives the segment's slice and the length of the very collection that is then sliced; (R5) Select is resolve(selector, subject, nil). Index/slice arithmetic (Python clamping, negative indexes) is a numeric clause and is not decided. (R7) the index case of resolve evaluated on a grid of (index, length) for lists and bytes against element i / length+i / failure; Node.Length() of a bytes node evaluates to -1. (R8) strconv conversions reachable from Parse in the package use base 10 and bit size 0 or 64. The loop stepping a MapIterator in resolve adds the value returned by Next on every step that does not fail. No Convert in package selector narrows a 64-bit integer; a loop computing n = n*c + d compares n (or the length of its text) with a constant. In the iterator case of resolve the cursor is left unchanged only on paths where its kind is known to be list. Each accessor of segment returns recv.<field> (or recv.<field>[:]) on its every path. (R4) every latch or success path of resolve that dispatched a slice segment contains a call of resolveSliceIndices. (R7) the byte loaded from AsBytes()[i] in the index case flows through conversions only into basicnode.NewInt. (R3) a success path of the iterator or slice case inside the loop that returns a nil node carries a positive nil fact on the cursor or a positive Kind() == Kind_Null fact.",
			Assumptions: []string{"go-ipld-prime Node.Kind/Length/LookupBy* contracts", "regexp/syntax minimum-length computation is exact for the three regex constants"},
			Trusted:     []string{"golang.org/x/tools/go/ssa v0.29.0", "regexp/syntax", "go-ipld-prime"},
			NotDecided:  []string{"resolveSliceIndices arithmetic (clamping, negative indexes)", "negative index arithmetic in the index case", "values returned by go-ipld-prime lookups"},
		},
		Run: runC12,
	})
}

type segLit struct {
	where  string
	fields map[string]*paths.Term
	path   *paths.Path
}

func (l segLit) kind() string {
	has := func(f string) bool { _, ok := l.fields[f]; return ok }
	switch {
	case has("identity"):
		return "identity"
	case has("iterator"):
		return "iterator"
	case has("isField") || has("field"):
		return "field"
	case has("slice"):
		return "slice"
	default:
		return "index"
	}
}

func runC12(x *Ctx) {
	x.C.Rule("C12.R1", "every segment literal produced by Parse is dispatched by resolve to the kind it intends; segment accessors return their field", 8)
	x.C.Rule("C12.R2", "no early success return of a node inside the segment loop", 2)
	x.C.Rule("C12.R3", "field and index cases fail through the optional idiom; siblings agree; a successful lookup is never dropped; iterator totality; the iterator is a no-op on lists only", 5)
	x.C.Rule("C12.R4", "resolveSliceIndices gets the slice of the segment and the length of the collection sliced; no slice is resolved without it", 4)
	x.C.Rule("C12.R5", "Select is resolve(selector, subject, nil)", 1)
	x.C.Rule("C12.R6", "resolveSliceIndices computes Python's clamped slice on every region of (start, end, length)", 1)
	x.C.Rule("C12.R7", "the index case of resolve: element i, or length+i for a negative i, failure outside the collection; numbers kept at full width", 3)
	x.C.Rule("C12.R8", "numbers in a selector are decimal: strconv conversions reachable from Parse use base 10, full width", 1)

	parse := x.fn("C12.R1", selPkg+"Parse")
	res := x.fn("C12.R1", selPkg+"resolve")
	if parse == nil || res == nil {
		return
	}
	ls := fullRangeLoops(res, "len(arg0)")
	if len(ls) != 1 {
		x.C.Obl("C12.R2", "range:resolve", x.pos(res), "exactly one loop over all segments of the selector", false, fmt.Sprintf("found %d", len(ls)))
		return
	}
	loop := ls[0]
	x.C.Obl("C12.R2", "range:resolve", x.pos(res), "exactly one loop over all segments of the selector (0..len(sel))", true, "")
	elem := "arg0[" + ivName(loop) + "]"

	// ---------------- R1
	lits := segmentLiterals(x, parse)
	minLen := regexMinLens(x)
	rps := x.paths("C12.R1", res)
	seenKinds := map[string]bool{}
	for _, lit := range lits {
		kind := lit.kind()
		seenKinds[kind] = true
		A := func(t *paths.Term) (bool, bool) {
			constTrue := func(f string) bool { v, ok := lit.fields[f]; return ok && v.IsConst("true") }
			switch t.String() {
			case "call[" + segT + "Identity](" + elem + ")", elem + ".identity":
				return constTrue("identity"), true
			case "call[" + segT + "Iterator](" + elem + ")", elem + ".iterator":
				return constTrue("iterator"), true
			case elem + ".isField":
				return constTrue("isField"), true
			case "lt(const(0),len(call[" + segT + "Slice](" + elem + ")))", "lt(const(0),len(" + elem + ".slice))":
				_, ok := lit.fields["slice"]
				return ok, true
			case eqs("call["+segT+"Field]("+elem+")", `const("")`), eqs(elem+".field", `const("")`):
				v, ok := lit.fields["field"]
				if !ok {
					return true, true // zero value: empty
				}
				if v.Op == "const" {
					return v.Name == `""`, true
				}
				// seg[1:] under fieldRegex.MatchString(seg): non-empty iff min match length >= 2
				if v.Op == "slice" && v.Args[1].IsConst("1") && v.Args[2] == nil {
					guard := "call[(*regexp.Regexp).MatchString](*global(" + selPkg + "fieldRegex)," + v.Args[0].String() + ")"
					if lit.path.HasFact(guard, true) && minLen["fieldRegex"] >= 2 {
						return false, true
					}
				}
				return false, false // may be empty
			}
			return false, false
		}
		selected := map[string]bool{}
		var offending []paths.VPath
		for _, p := range rps {
			if !p.EntersBody(loop) {
				continue
			}
			v := paths.VPath{Path: p}
			if !x.E.Consistent(v, A, nil, 0) {
				continue
			}
			k := dispatchKind(p, elem)
			selected[k] = true
			if k != kind {
				offending = append(offending, v)
			}
		}
		var sk []string
		for k := range selected {
			sk = append(sk, k)
		}
		sort.Strings(sk)
		fieldsDesc := describeFields(lit.fields)
		x.C.Obl("C12.R1", "dispatch:"+kind+":"+fieldsDesc, lit.where,
			"the segment literal {"+fieldsDesc+"} built by Parse is meant as kind '"+kind+"'; resolve must treat it as that kind on every path",
			len(offending) == 0 && selected[kind],
			fmt.Sprintf("resolve may dispatch it as %v:\n%s", sk, renderPaths(offending, 2)))
	}
	for _, k := range []string{"identity", "iterator", "field", "slice", "index"} {
		x.C.Obl("C12.R1", "produces:"+k, x.pos(parse), "Parse produces a segment literal of kind "+k, seenKinds[k], "")
	}
	// the dispatch above reads the predicates of a segment through its accessors: each hands out its namesake field,
	// whatever the value (a Slice() that answers nil for the bounds 0:0 turns that slice into an index)
	for _, m := range []string{"Identity", "Optional", "Iterator", "Slice", "Field", "Index"} {
		g := x.P.Func(segT + m)
		if g == nil || len(g.Blocks) == 0 {
			continue // no such accessor (any more): the field is read directly, which the dispatch table covers
		}
		gps := x.paths("C12.R1", g)
		if gps == nil {
			continue
		}
		want := "recv." + lowerFirst(m)
		badA := ""
		for _, p := range gps {
			if p.End != paths.EndReturn || len(p.Results()) != 1 {
				badA += "a path that does not return\n"
				continue
			}
			r := p.Results()[0]
			if r != nil && r.Op == "slice" && len(r.Args) >= 3 && r.Args[1] == nil && r.Args[2] == nil && (len(r.Args) == 3 || r.Args[3] == nil) {
				r = r.Args[0]
			}
			if r == nil || r.String() != want {
				got := "nil"
				if r != nil {
					got = firstLines(r.String(), 1)
				}
				badA += x.P.Pos(p.Ret.Pos()) + ": returns " + got + "\n"
			}
		}
		x.C.Obl("C12.R1", "accessor:"+m, x.pos(g), "the accessor of a segment returns its namesake field on every path", badA == "", dedupLines(badA))
	}

	// ---------------- R2
	bad := ""
	nIn, nOut := 0, 0
	var curCell string
	for _, p := range rps {
		if p.End != paths.EndReturn {
			continue
		}
		o, _ := p.ErrorOutcome()
		r0 := p.Results()[0]
		if p.EntersBody(loop) {
			if o == paths.Failure {
				continue
			}
			nIn++
			if !r0.IsNil() {
				bad += x.P.Pos(p.Ret.Pos()) + ": returns the node " + r0.String() + " with a possibly nil error from inside the segment loop: the remaining segments are ignored\n"
			}
		} else {
			nOut++
			if o != paths.Success {
				bad += x.P.Pos(p.Ret.Pos()) + ": after the loop the error is not nil\n"
			}
			curCell = r0.String()
			if !(r0.Op == "load" && r0.Args[0].Op == "alloc") && r0.Op != "loopphi" {
				bad += x.P.Pos(p.Ret.Pos()) + ": after the loop returns " + r0.String() + ", not the current node\n"
			}
		}
	}
	x.C.Obl("C12.R2", "no-early-node:resolve", x.pos(res),
		"inside the loop a return without a definite error returns a nil node ('no value'); the current node is returned only after all segments were applied", bad == "" && nOut == 1, bad)

	// ---------------- R3
	bad = ""
	n := 0
	kindsFail := map[string]int{}
	for _, p := range rps {
		if p.End != paths.EndReturn || !p.EntersBody(loop) {
			continue
		}
		k := dispatchKind(p, elem)
		o, ct := p.ErrorOutcome()
		if o == paths.Success {
			// 'no value' from an optional iterator or slice segment is the answer for a missing value only (a nil or
			// null cursor): on a value of the wrong kind these segments fail, optional or not
			if rs := p.Results(); (k == "iterator" || k == "slice") && len(rs) > 0 && rs[0] != nil && rs[0].IsNil() {
				missing := false
				for _, fc := range p.Facts {
					if sub := paths.NilCheckOf(fc.Atom); sub != nil && fc.Pol && (sub.Op == "load" || sub.Op == "loopphi" || sub.Op == "phi") {
						missing = true
					}
					if kv, okK := x.kindConst("Kind_Null"); okK && fc.Pol && fc.Atom.Op == "eq" && strings.Contains(fc.Atom.String(), "Node.Kind]") && strings.Contains(fc.Atom.String(), fmt.Sprintf("const(%d)", kv)) {
						missing = true
					}
				}
				if !missing {
					bad += x.P.Pos(p.Ret.Pos()) + ": the " + k + " case answers 'no value' for a cursor that is not known to be nil or null: an optional " + k + " segment on a value of the wrong kind must fail\n"
				}
			}
			continue
		}
		kindsFail[k]++
		switch k {
		case "field", "index":
			n++
			okIdiom := false
			if o == paths.Delegated {
				if c2, call := paths.CallOf(ct); c2 != nil && call != nil {
					if g := paths.StaticCallee(call); g != nil && isOptionalIdiom(x, g) && len(c2.Args) == 2 && c2.Args[0].String() == elem {
						okIdiom = true
					}
				}
			}
			if pol, has := p.FactOn("call[" + segT + "Optional](" + elem + ")"); has && !pol {
				okIdiom = true
			}
			if pol, has := p.FactOn(elem + ".optional"); has && !pol {
				okIdiom = true // the flag read directly (a method of segment spliced into the path)
			}
			if !okIdiom {
				bad += x.P.Pos(p.Ret.Pos()) + ": the " + k + " case returns an error without consulting Optional(): an optional segment must yield 'no value'\n"
			}
		default:
			if o != paths.Failure {
				if o == paths.Delegated {
					// slice on nil goes through the idiom as well: accepted
					continue
				}
				bad += x.P.Pos(p.Ret.Pos()) + ": failure exit of the " + k + " case with an unclassified error\n"
			}
		}
	}
	x.C.Obl("C12.R3", "optional-discipline:resolve", x.pos(res),
		fmt.Sprintf("each of the %d failure exits of the field and index cases returns (nil, nil) when the segment is optional", n), bad == "" && kindsFail["field"] > 0 && kindsFail["index"] > 0, bad)
	// the local helper that filters an error by the segment's optionality (a closure of resolve today). Its
	// body is spliced into resolve's paths, so the rule above already sees its Optional() test; when it exists
	// as a function of its own it must be the idiom. Written as a method or top-level helper it is spliced too.
	if g := x.P.Func(selPkg + "resolve$1"); g != nil && len(g.Blocks) > 0 && len(g.Params) == 2 {
		x.C.Obl("C12.R3", "idiom:errIfNotOptional", x.pos(g), "the helper returns nil for an optional segment and the given error otherwise", isOptionalIdiom(x, g), "")
	} else {
		x.C.Obl("C12.R3", "idiom:errIfNotOptional", x.pos(res), "no separate optionality helper: every failure exit tests Optional() on resolve's own paths (rule optional-discipline)", true, "")
	}

	lookupResults(x, res, loop, elem, curCell)

	// ---------------- R4
	sliceOperands(x, res, elem, curCell)

	sliceTable(x)
	runTotalLoops(x, "C12")
	indexTable(x)
	noNarrowing(x)
	decimalNumbers(x)

	// ---------------- R5
	if f := x.fn("C12.R5", "("+selPkg+"Selector).Select"); f != nil {
		ps := x.paths("C12.R5", f)
		want := "call[" + selPkg + "resolve](recv,arg0,const(nil))"
		ok := len(ps) == 1 && ps[0].End == paths.EndReturn && ps[0].Results()[0].String() == want+"#0" && ps[0].Results()[1].String() == want+"#1"
		x.C.Obl("C12.R5", "select", x.pos(f), "Select returns resolve(s, subject, nil) unchanged", ok, "")
	}
}

// dispatchKind tells which case of resolve a path is in: the first dispatch predicate that is true.
func dispatchKind(p *paths.Path, elem string) string {
	for _, f := range p.Facts {
		s := f.Atom.String()
		switch {
		case s == "call["+segT+"Identity]("+elem+")" || s == elem+".identity":
			if f.Pol {
				return "identity"
			}
		case s == "call["+segT+"Iterator]("+elem+")" || s == elem+".iterator":
			if f.Pol {
				return "iterator"
			}
		case s == elem+".isField":
			if f.Pol {
				return "field"
			}
		case s == eqs("call["+segT+"Field]("+elem+")", `const("")`) || s == eqs(elem+".field", `const("")`):
			if !f.Pol {
				return "field"
			}
		case s == "lt(const(0),len(call["+segT+"Slice]("+elem+")))" || s == "lt(const(0),len("+elem+".slice))":
			if f.Pol {
				return "slice"
			}
			return "index"
		}
	}
	return "undispatched"
}

func describeFields(m map[string]*paths.Term) string {
	var ks []string
	for k := range m {
		if k == "str" || k == "optional" {
			continue
		}
		v := m[k].String()
		if len(v) > 40 {
			v = v[:40] + "…"
		}
		ks = append(ks, k+"="+v)
	}
	sort.Strings(ks)
	return strings.Join(ks, " ")
}

// segmentLiterals collects the distinct segment composite literals built on the paths of Parse.
func segmentLiterals(x *Ctx, parse *ssa.Function) []segLit {
	ps := x.paths("C12.R1", parse)
	seen := map[string]bool{}
	var out []segLit
	for _, p := range ps {
		p.Instrs(func(in ssa.Instruction) {
			a, ok := in.(*ssa.Alloc)
			if !ok || !strings.HasSuffix(a.Type().String(), "pkg/policy/selector.segment") {
				return
			}
			fs := p.FieldStores(a)
			if len(fs) == 0 {
				return
			}
			key := x.P.Pos(a.Pos()) + describeFields(fs)
			if seen[key] {
				return
			}
			seen[key] = true
			out = append(out, segLit{where: x.P.Pos(a.Pos()), fields: fs, path: p})
		})
	}
	sort.Slice(out, func(i, j int) bool { return out[i].where < out[j].where })
	return out
}

// regexMinLens computes the static minimum match length of the selector package's regex globals.
func regexMinLens(x *Ctx) map[string]int {
	out := map[string]int{}
	for name, src := range regexSources(x) {
		if re, err := syntax.Parse(src, syntax.Perl); err == nil {
			out[name] = minLen(re)
		}
	}
	return out
}

// regexSources returns the source text of the regexp.MustCompile(constant) globals of the selector package.
func regexSources(x *Ctx) map[string]string {
	out := map[string]string{}
	sp := x.P.SSA[load.Module+"/pkg/policy/selector"]
	if sp == nil {
		return out
	}
	initf := sp.Func("init")
	if initf == nil {
		return out
	}
	for _, b := range initf.Blocks {
		for _, in := range b.Instrs {
			st, ok := in.(*ssa.Store)
			if !ok {
				continue
			}
			g, ok := st.Addr.(*ssa.Global)
			if !ok {
				continue
			}
			c, ok := st.Val.(*ssa.Call)
			if !ok || paths.StaticCallee(c) == nil || paths.FuncName(paths.StaticCallee(c)) != "regexp.MustCompile" {
				continue
			}
			k, ok := c.Call.Args[0].(*ssa.Const)
			if !ok || k.Value == nil {
				continue
			}
			src, err := strconv.Unquote(k.Value.ExactString())
			if err != nil {
				continue
			}
			out[g.Name()] = src
		}
	}
	return out
}

func minLen(re *syntax.Regexp) int {
	switch re.Op {
	case syntax.OpLiteral:
		return len(re.Rune)
	case syntax.OpCharClass, syntax.OpAnyCharNotNL, syntax.OpAnyChar:
		return 1
	case syntax.OpCapture:
		return minLen(re.Sub[0])
	case syntax.OpConcat:
		n := 0
		for _, s := range re.Sub {
			n += minLen(s)
		}
		return n
	case syntax.OpAlternate:
		m := -1
		for _, s := range re.Sub {
			if k := minLen(s); m < 0 || k < m {
				m = k
			}
		}
		if m < 0 {
			return 0
		}
		return m
	case syntax.OpPlus:
		return minLen(re.Sub[0])
	case syntax.OpRepeat:
		return re.Min * minLen(re.Sub[0])
	}
	return 0
}

// isOptionalIdiom: g(seg, err) returns nil when seg.Optional() and err otherwise.
func isOptionalIdiom(x *Ctx, g *ssa.Function) bool {
	ps, err := x.E.Paths(g)
	if err != nil || len(ps) != 2 {
		return false
	}
	// a function (segment, error) or a method of segment taking the error: the test is Optional() or the field
	seg, errP := "arg0", "arg1"
	if g.Signature.Recv() != nil {
		seg, errP = "recv", "arg0"
	}
	opts := []string{"call[" + segT + "Optional](" + seg + ")", seg + ".optional"}
	okT, okF := false, false
	for _, p := range ps {
		if p.End != paths.EndReturn || len(p.Results()) != 1 {
			return false
		}
		pol, has := false, false
		for _, opt := range opts {
			if v, ok := p.FactOn(opt); ok {
				pol, has = v, true
			}
		}
		if !has {
			return false
		}
		r := p.Results()[0]
		if pol && r.IsNil() {
			okT = true
		}
		if !pol && r.String() == errP {
			okF = true
		}
	}
	return okT && okF
}

func sliceOperands(x *Ctx, res *ssa.Function, elem, cur string) {
	ps := x.paths("C12.R4", res)
	type site struct{ length, pos string }
	seen := map[string]site{}
	bad := ""
	for _, p := range ps {
		for _, c := range p.Calls() {
			ct := p.Term(c)
			if ct.Name != selPkg+"resolveSliceIndices" || len(ct.Args) != 2 {
				continue
			}
			if a := ct.Args[0].String(); a != "call["+segT+"Slice]("+elem+")" && a != elem+".slice" {
				bad += x.P.Pos(c.Pos()) + ": slice operand is " + a + "\n"
			}
			seen[x.P.Pos(c.Pos())] = site{ct.Args[1].String(), x.P.Pos(c.Pos())}
			// uses of the result as bounds of a Go slice expression on this path: the sliced value
			// must be the one whose length was passed
			p.Instrs(func(in ssa.Instruction) {
				sl, ok := in.(*ssa.Slice)
				if !ok || sl.Low == nil {
					return
				}
				lo := p.Term(sl.Low)
				if c2, _ := paths.CallOf(lo); c2 == nil || c2.String() != ct.String() {
					return
				}
				base := p.Term(sl.X).String()
				want := "conv[int64](len(" + base + "))"
				if ct.Args[1].String() != want {
					bad += x.P.Pos(in.Pos()) + ": slices " + base + " with indices resolved against " + ct.Args[1].String() + "\n"
				}
				if hi := p.Term(sl.High); hi == nil || !strings.HasPrefix(hi.String(), ct.String()) {
					bad += x.P.Pos(in.Pos()) + ": upper bound is not the resolved end index\n"
				}
			})
		}
	}
	// the three collection kinds
	var lens []string
	for _, s := range seen {
		lens = append(lens, s.length)
	}
	sort.Strings(lens)
	want := []string{
		"conv[int64](len(conv[[]rune](invoke[github.com/ipld/go-ipld-prime.Node.AsString](" + cur + ")#0)))",
		"conv[int64](len(invoke[github.com/ipld/go-ipld-prime.Node.AsBytes](" + cur + ")#0))",
		"invoke[github.com/ipld/go-ipld-prime.Node.Length](" + cur + ")",
	}
	x.C.Obl("C12.R4", "lengths:resolve", x.pos(res), "resolveSliceIndices is called with the length of the current node as list (Length()), bytes (len) and string (rune count)",
		strings.Join(lens, ";") == strings.Join(want, ";"), "lengths passed: "+strings.Join(lens, " ; "))
	x.C.Obl("C12.R4", "operands:resolve", x.pos(res), "the slice passed is the segment's own; Go slice expressions use both resolved bounds on the collection whose length was passed", bad == "", bad)
	x.C.Obl("C12.R4", "sites:resolve", x.pos(res), "three slicing sites (list, bytes, string)", len(seen) == 3, fmt.Sprintf("%d sites", len(seen)))
	// and no slice is computed any other way: every iteration that dispatches a slice segment and goes on (or ends
	// the resolution successfully) has resolved its bounds with resolveSliceIndices - a second, hand-written
	// clamping for "the easy bounds" is a second definition of the slice arithmetic
	nS, badS := 0, ""
	for _, p := range ps {
		if dispatchKind(p, elem) != "slice" {
			continue
		}
		if p.End == paths.EndReturn {
			if o, _ := p.ErrorOutcome(); o != paths.Success {
				continue
			}
			if r := p.Results()[0]; r == nil || r.IsNil() {
				continue // "no value" of an optional segment: nothing was sliced
			}
		} else if p.End != paths.EndLatch {
			continue
		}
		nS++
		through := false
		for _, c := range p.Calls() {
			if ct := p.Term(c); ct != nil && ct.Name == selPkg+"resolveSliceIndices" {
				through = true
			}
		}
		if !through {
			badS += "a slice segment is resolved without resolveSliceIndices:\n" + p.String() + "\n"
		}
	}
	x.C.Obl("C12.R4", "only-way:resolve", x.pos(res), fmt.Sprintf("each of the %d ways a slice segment is resolved goes through resolveSliceIndices", nS), badS == "" && nS >= 3, firstLines(badS, 14))
}

// lookupResults: in the field-on-map and index-on-list cases, an iteration that continues after a
// SUCCESSFUL lookup continues with exactly the looked-up node (a present value, e.g. an explicit
// null, is never turned into 'no value'), and continues with 'no value' only after a failed lookup
// of an optional segment.
func lookupResults(x *Ctx, res *ssa.Function, loop *paths.Loop, elem, cur string) {
	if !strings.HasPrefix(cur, "*alloc(") {
		x.C.Unresolved("C12.R3", "cursor:resolve", x.pos(res), "the current node is not kept in a local cell: "+cur)
		return
	}
	cell := strings.TrimPrefix(cur, "*")
	lps, err := x.E.LatchPaths(res, loop, nil, 0)
	if err != nil {
		return
	}
	bad, n := "", 0
	for _, v := range lps {
		k := dispatchKind(v.Path, elem)
		if k != "field" && k != "index" {
			continue
		}
		// last store to the cursor on this path
		var stored *paths.Term
		v.Instrs(func(in ssa.Instruction) {
			if st, ok := in.(*ssa.Store); ok && v.Term(st.Addr).String() == cell {
				stored = v.Term(st.Val)
			}
		})
		for _, f := range v.Facts {
			xx := paths.NilCheckOf(f.Atom)
			if xx == nil {
				continue
			}
			ct, _ := paths.CallOf(xx)
			if ct == nil || !(strings.HasSuffix(ct.Name, "Node.LookupByString") || strings.HasSuffix(ct.Name, "Node.LookupByIndex")) || !strings.HasSuffix(xx.String(), "#1") {
				continue
			}
			n++
			switch {
			case f.Pol && (stored == nil || stored.String() != ct.String()+"#0"):
				bad += x.termPos(ct, res) + ": after a successful lookup the selection continues with " + fmt.Sprint(stored) + " instead of the node found (a present value such as null must not become 'no value')\n"
			case !f.Pol && (stored == nil || !stored.IsNil()):
				bad += x.termPos(ct, res) + ": after a failed lookup the selection continues with " + fmt.Sprint(stored) + "\n"
			}
		}
	}
	x.C.Obl("C12.R3", "lookup-result-kept:resolve", x.pos(res), "a successful field lookup continues with the node found; only a failed lookup of an optional segment continues with 'no value'", bad == "" && n >= 2, bad)
	// the iterator segment leaves the current value as it is only when that value is a list; on a map it becomes
	// the list of the map's values (however many there are), on nothing - for an optional segment - the empty list
	badI, nI := "", 0
	kList, _ := x.kindConst("Kind_List")
	for _, v := range lps {
		if dispatchKind(v.Path, elem) != "iterator" {
			continue
		}
		var stored *paths.Term
		v.Instrs(func(in ssa.Instruction) {
			if st, ok := in.(*ssa.Store); ok && v.Term(st.Addr).String() == cell && (in.Parent() != res || loop.Body[in.Block()]) {
				stored = v.Term(st.Val)
			}
		})
		nI++
		if stored != nil {
			continue
		}
		isList := false
		for _, f := range v.Facts {
			s := f.Atom.String()
			if f.Pol && f.Atom.Op == "eq" && strings.Contains(s, fmt.Sprintf("const(%d)", kList)) && strings.Contains(s, "Node.Kind]("+cur+")") {
				isList = true
			}
		}
		if !isList {
			badI += "an iterator segment leaves the current value unchanged on a path that does not know it to be a list:\n" + v.Path.String() + "\n"
		}
	}
	x.C.Obl("C12.R3", "iterator-noop-on-lists-only:resolve", x.pos(res), "an iterator segment keeps the current value only when it is a list", badI == "" && nI >= 2, firstLines(badI, 12))
}
