// Package effects implements the may-write effect analysis (engine E4): a flow-insensitive,
// context-insensitive taint propagation over SSA from "owned" roots, reporting every instruction
// that may write memory reachable from them.
package effects

import (
	"fmt"
	"go/token"
	"go/types"
	"sort"
	"strings"

	"golang.org/x/tools/go/ssa"
)

// Config parameterises one analysis run.
type Config struct {
	InModule func(*ssa.Function) bool
	// Callees resolves the in-module callees of a call instruction (static, or via the call graph
	// for interface invokes and function values).
	Callees func(ssa.CallInstruction) []*ssa.Function
	// Pos renders a position.
	Pos  func(token.Pos) string
	Name func(*ssa.Function) string
}

// Finding is one may-write of owned memory.
type Finding struct {
	Fn    *ssa.Function
	Pos   string
	Kind  string // store | map-update | mutator-call | append | global-store
	What  string
	Chain string // how the written value derives from owned state
}

// Mutators are external functions that write through their argument (index of the operand).
var Mutators = map[string]int{
	"sort.Strings": 0, "sort.Ints": 0, "sort.Float64s": 0, "sort.Slice": 0, "sort.SliceStable": 0, "sort.Sort": 0, "sort.Stable": 0,
	"slices.Sort": 0, "slices.SortFunc": 0, "slices.SortStableFunc": 0, "slices.Reverse": 0, "slices.Compact": 0, "slices.CompactFunc": 0,
	"slices.Delete": 0, "slices.DeleteFunc": 0, "slices.Insert": 0, "slices.Replace": 0,
	"io.ReadFull": 1, "io.ReadAtLeast": 1, "crypto/rand.Read": 0, "math/rand.Read": 0,
	"encoding/binary.PutUvarint": 0, "encoding/binary.PutVarint": 0, "encoding/binary.AppendUvarint": 0, "encoding/binary.AppendVarint": 0,
	"bytes.ToUpper": -1, // example of a non-mutator kept out: negative index = never
}

// ReturnsFresh are external functions whose result never aliases their arguments.
var ReturnsFresh = map[string]bool{
	"slices.Clone": true, "maps.Clone": true, "bytes.Clone": true, "slices.Sorted": true, "slices.Collect": true,
	"strings.Clone": true, "maps.Keys": true, "maps.Values": true, "strings.Split": true, "strings.Join": true,
	"fmt.Sprintf": true, "fmt.Errorf": true, "errors.New": true, "strings.ReplaceAll": true,
}

type state struct {
	cfg      Config
	tainted  map[ssa.Value]string  // value -> provenance note
	holds    map[*ssa.Alloc]string // fresh cells that had owned pointers stored into them
	holdsV   map[ssa.Value]string  // fresh slices / maps whose elements are owned pointers
	retTaint map[*ssa.Function]string
	callers  map[*ssa.Function]map[*ssa.Function]bool
	work     []*ssa.Function
	inWork   map[*ssa.Function]bool
	visited  map[*ssa.Function]bool
	findings map[string]Finding
}

func pointerLike(t types.Type) bool {
	switch u := t.Underlying().(type) {
	case *types.Pointer, *types.Slice, *types.Map, *types.Interface, *types.Chan, *types.Signature:
		return true
	case *types.Struct:
		for i := 0; i < u.NumFields(); i++ {
			if pointerLike(u.Field(i).Type()) {
				return true
			}
		}
	case *types.Array:
		return pointerLike(u.Elem())
	case *types.Tuple:
		for i := 0; i < u.Len(); i++ {
			if pointerLike(u.At(i).Type()) {
				return true
			}
		}
	}
	return false
}

// Analyze runs the analysis from roots; owned(root, param index) says which parameters of a root
// are owned state.
func Analyze(cfg Config, roots []*ssa.Function, owned func(f *ssa.Function, p *ssa.Parameter) bool) ([]Finding, int) {
	st := &state{cfg: cfg, tainted: map[ssa.Value]string{}, holds: map[*ssa.Alloc]string{}, holdsV: map[ssa.Value]string{}, retTaint: map[*ssa.Function]string{}, callers: map[*ssa.Function]map[*ssa.Function]bool{},
		inWork: map[*ssa.Function]bool{}, visited: map[*ssa.Function]bool{}, findings: map[string]Finding{}}
	for _, r := range roots {
		for _, p := range r.Params {
			if owned(r, p) && pointerLike(p.Type()) {
				st.taint(p, "owned parameter "+p.Name()+" of "+cfg.Name(r))
			}
		}
		st.push(r)
	}
	for len(st.work) > 0 {
		f := st.work[len(st.work)-1]
		st.work = st.work[:len(st.work)-1]
		st.inWork[f] = false
		st.visited[f] = true
		st.process(f)
		if st.noteReturns(f) {
			for c := range st.callers[f] {
				st.push(c)
			}
		}
	}
	var out []Finding
	for _, f := range st.findings {
		out = append(out, f)
	}
	sort.Slice(out, func(i, j int) bool { return out[i].Pos+out[i].What < out[j].Pos+out[j].What })
	return out, len(st.visited)
}

func (st *state) push(f *ssa.Function) {
	if f == nil || len(f.Blocks) == 0 || !st.cfg.InModule(f) || st.inWork[f] {
		return
	}
	st.inWork[f] = true
	st.work = append(st.work, f)
}

func (st *state) taint(v ssa.Value, why string) bool {
	if v == nil {
		return false
	}
	if _, ok := st.tainted[v]; ok {
		return false
	}
	st.tainted[v] = why
	return true
}

func (st *state) isT(v ssa.Value) bool {
	_, ok := st.tainted[v]
	return ok
}

func (st *state) why(v ssa.Value) string { return st.tainted[v] }

func allocRoot(v ssa.Value) *ssa.Alloc {
	for {
		switch x := v.(type) {
		case *ssa.Alloc:
			return x
		case *ssa.FieldAddr:
			v = x.X
		case *ssa.IndexAddr:
			v = x.X
		default:
			return nil
		}
	}
}

func (st *state) report(f *ssa.Function, in ssa.Instruction, kind, what string, v ssa.Value) {
	pos := st.cfg.Pos(in.Pos())
	key := pos + kind + what
	st.findings[key] = Finding{Fn: f, Pos: pos, Kind: kind, What: what, Chain: st.why(v)}
}

// process propagates taint inside f to a fixpoint and checks the sinks.
func (st *state) process(f *ssa.Function) {
	name := st.cfg.Name(f)
	changed := true
	for changed {
		changed = false
		for _, b := range f.Blocks {
			for _, in := range b.Instrs {
				switch v := in.(type) {
				case *ssa.FieldAddr:
					if st.isT(v.X) && st.taint(v, st.why(v.X)) {
						changed = true
					}
				case *ssa.Field:
					if st.isT(v.X) && pointerLike(v.Type()) && st.taint(v, st.why(v.X)) {
						changed = true
					}
				case *ssa.IndexAddr:
					if st.isT(v.X) && st.taint(v, st.why(v.X)) {
						changed = true
					}
				case *ssa.Index:
					if st.isT(v.X) && pointerLike(v.Type()) && st.taint(v, st.why(v.X)) {
						changed = true
					}
					if w, ok := st.holdsV[v.X]; ok && pointerLike(v.Type()) && st.taint(v, w) {
						changed = true
					}
				case *ssa.Lookup:
					if st.isT(v.X) && pointerLike(v.Type()) && st.taint(v, st.why(v.X)) {
						changed = true
					}
					if w, ok := st.holdsV[v.X]; ok && pointerLike(v.Type()) && st.taint(v, w) {
						changed = true
					}
				case *ssa.UnOp:
					if v.Op == token.MUL {
						if ia, ok := v.X.(*ssa.IndexAddr); ok && pointerLike(v.Type()) {
							if w, ok := st.holdsV[ia.X]; ok && st.taint(v, w) {
								changed = true
							}
						}
						if st.isT(v.X) && pointerLike(v.Type()) {
							if st.taint(v, st.why(v.X)) {
								changed = true
							}
						} else if a := allocRoot(v.X); a != nil && pointerLike(v.Type()) {
							if why, ok := st.holds[a]; ok && st.taint(v, why) {
								changed = true
							}
						}
					}
				case *ssa.Slice:
					if st.isT(v.X) && st.taint(v, st.why(v.X)) {
						changed = true
					}
					if w, ok := st.holdsV[v.X]; ok {
						if _, had := st.holdsV[v]; !had {
							st.holdsV[v] = w
							changed = true
						}
					}
				case *ssa.ChangeType:
					if st.isT(v.X) && pointerLike(v.Type()) && st.taint(v, st.why(v.X)) {
						changed = true
					}
				case *ssa.Convert:
					// []byte(string) and string([]byte) copy; other conversions of pointer-likes alias
					if st.isT(v.X) && pointerLike(v.Type()) && pointerLike(v.X.Type()) && st.taint(v, st.why(v.X)) {
						changed = true
					}
				case *ssa.ChangeInterface:
					if st.isT(v.X) && st.taint(v, st.why(v.X)) {
						changed = true
					}
				case *ssa.MakeInterface:
					if st.isT(v.X) && pointerLike(v.X.Type()) && st.taint(v, st.why(v.X)) {
						changed = true
					}
				case *ssa.TypeAssert:
					if st.isT(v.X) && st.taint(v, st.why(v.X)) {
						changed = true
					}
				case *ssa.Extract:
					if st.isT(v.Tuple) && pointerLike(v.Type()) && st.taint(v, st.why(v.Tuple)) {
						changed = true
					}
				case *ssa.Phi:
					for _, e := range v.Edges {
						if st.isT(e) && st.taint(v, st.why(e)) {
							changed = true
						}
						if w, ok := st.holdsV[e]; ok {
							if _, had := st.holdsV[v]; !had {
								st.holdsV[v] = w
								changed = true
							}
						}
					}
				case *ssa.Range:
					if st.isT(v.X) && st.taint(v, st.why(v.X)) {
						changed = true
					}
					if w, ok := st.holdsV[v.X]; ok && st.taint(v, w) {
						changed = true
					}
				case *ssa.Next:
					if st.isT(v.Iter) && st.taint(v, st.why(v.Iter)) {
						changed = true
					}
				case *ssa.Store:
					// storing an owned pointer into a fresh cell: later loads from the cell are owned
					if st.isT(v.Val) && !st.isT(v.Addr) {
						if a := allocRoot(v.Addr); a != nil {
							if _, ok := st.holds[a]; !ok {
								st.holds[a] = st.why(v.Val)
								changed = true
							}
						}
					}
				case *ssa.MakeClosure:
					g := v.Fn.(*ssa.Function)
					for i, bnd := range v.Bindings {
						t := st.isT(bnd)
						why := st.why(bnd)
						if !t {
							if a := allocRoot(bnd); a != nil {
								if w, ok := st.holds[a]; ok {
									t, why = true, w
								}
							}
						}
						if t && i < len(g.FreeVars) {
							// a captured cell that holds owned pointers: loads through the free var are owned
							if st.taintFreeVar(g, i, why) {
								st.push(g)
							}
						}
					}
					if !st.visited[g] {
						st.push(g)
					}
				case ssa.CallInstruction:
					if st.call(f, v) {
						changed = true
					}
				}
			}
		}
	}
	// sinks
	for _, b := range f.Blocks {
		for _, in := range b.Instrs {
			switch v := in.(type) {
			case *ssa.Store:
				if st.isT(v.Addr) {
					st.report(f, in, "store", "store through "+v.Addr.Name()+" in "+name, v.Addr)
				}
				if g, ok := v.Addr.(*ssa.Global); ok && f.Name() != "init" && !strings.HasPrefix(f.Name(), "init#") {
					st.findings[st.cfg.Pos(in.Pos())+"global"] = Finding{Fn: f, Pos: st.cfg.Pos(in.Pos()), Kind: "global-store", What: "store to package variable " + g.Name() + " in " + name}
				} else if _, direct := v.Addr.(*ssa.Global); !direct && f.Name() != "init" && !strings.HasPrefix(f.Name(), "init#") {
					// a field or element of a package-level variable of the module
					if g := globalBase(v.Addr); g != nil && inModuleGlobal(st, g) {
						root := f
						for root.Parent() != nil {
							root = root.Parent()
						}
						if root.Name() != "init" && !strings.HasPrefix(root.Name(), "init#") {
							st.findings[st.cfg.Pos(in.Pos())+"global"] = Finding{Fn: f, Pos: st.cfg.Pos(in.Pos()), Kind: "global-store", What: "store to a part of the package variable " + g.Name() + " in " + name}
						}
					}
				}
			case *ssa.MapUpdate:
				if st.isT(v.Map) {
					st.report(f, in, "map-update", "map update in "+name, v.Map)
				}
				if gl := globalBase(v.Map); gl != nil && inModuleGlobal(st, gl) && f.Name() != "init" && !strings.HasPrefix(f.Name(), "init#") {
					st.findings[st.cfg.Pos(in.Pos())+"global"] = Finding{Fn: f, Pos: st.cfg.Pos(in.Pos()), Kind: "global-store", What: "update of the package-level map " + gl.Name() + " in " + name}
				}
			case ssa.CallInstruction:
				cc := v.Common()
				if b, ok := cc.Value.(*ssa.Builtin); ok {
					switch b.Name() {
					case "append", "copy", "clear", "delete":
						if len(cc.Args) > 0 && st.isT(cc.Args[0]) {
							st.report(f, in, "append", "builtin "+b.Name()+" on owned memory in "+name, cc.Args[0])
						}
					}
					continue
				}
				if cc.IsInvoke() {
					continue
				}
				// process-wide state touched on a read path: a package-level atomic, sync.Map or counter mutated through
				// its methods (the race detector stays silent, the result still depends on what else runs)
				if g, ok := cc.Value.(*ssa.Function); ok && !st.cfg.InModule(g) && g.Pkg != nil && len(cc.Args) > 0 {
					pk := g.Pkg.Pkg.Path()
					mut := false
					switch {
					case pk == "sync/atomic":
						switch g.Name() {
						case "Add", "Store", "Swap", "CompareAndSwap", "And", "Or":
							mut = true
						}
						if strings.HasPrefix(g.Name(), "Add") || strings.HasPrefix(g.Name(), "Store") || strings.HasPrefix(g.Name(), "Swap") || strings.HasPrefix(g.Name(), "CompareAndSwap") {
							mut = true
						}
					case pk == "sync" && g.Signature.Recv() != nil && strings.HasSuffix(g.Signature.Recv().Type().String(), "sync.Map"):
						switch g.Name() {
						case "Store", "LoadOrStore", "LoadAndDelete", "Delete", "Swap", "CompareAndSwap", "CompareAndDelete", "Clear":
							mut = true
						}
					}
					if mut && st.isT(cc.Args[0]) {
						// an atomic or sync.Map inside owned memory: still a write of it (a flag or memo kept in the token)
						st.report(f, in, "mutator-call", g.Name()+" on an atomic / sync.Map inside owned memory in "+name, cc.Args[0])
					}
					if mut {
						if gl := globalBase(cc.Args[0]); gl != nil && inModuleGlobal(st, gl) {
							st.findings[st.cfg.Pos(in.Pos())+"global"] = Finding{Fn: f, Pos: st.cfg.Pos(in.Pos()), Kind: "global-store", What: g.Name() + " on the package-level variable " + gl.Name() + " in " + name}
						}
					}
				}
				if g, ok := cc.Value.(*ssa.Function); ok && !st.cfg.InModule(g) {
					cn := strings.TrimSuffix(g.String(), "")
					if i := strings.Index(cn, "["); i >= 0 {
						cn = cn[:i]
					}
					if idx, ok := Mutators[cn]; ok && idx >= 0 && idx < len(cc.Args) && st.isT(cc.Args[idx]) {
						st.report(f, in, "mutator-call", cn+" on owned memory in "+name, cc.Args[idx])
					}
				}
			}
		}
	}
}

func (st *state) taintFreeVar(g *ssa.Function, i int, why string) bool {
	fv := g.FreeVars[i]
	return st.taint(fv, why)
}

// call handles parameter passing, results and external aliasing. Returns whether a value of the
// current function became tainted.
func (st *state) call(f *ssa.Function, c ssa.CallInstruction) bool {
	cc := c.Common()
	changed := false
	var args []ssa.Value
	if cc.IsInvoke() {
		args = append(args, cc.Value)
	}
	args = append(args, cc.Args...)
	// the address of a package-level variable of the module (or of a part of it) handed to a callee: what the callee
	// writes through it is process-wide state (a cache behind a method with a pointer receiver, ...)
	for _, a := range args {
		if _, isPtr := a.Type().Underlying().(*types.Pointer); !isPtr {
			continue
		}
		if gl := globalBase(a); gl != nil && inModuleGlobal(st, gl) && f.Name() != "init" && !strings.HasPrefix(f.Name(), "init#") {
			if st.taint(a, "package variable "+gl.Name()) {
				changed = true
			}
		}
	}
	anyT, why := false, ""
	for _, a := range args {
		if st.isT(a) {
			anyT, why = true, st.why(a)
		}
	}
	callees := st.cfg.Callees(c)
	val, hasVal := c.(ssa.Value)
	if b, ok := cc.Value.(*ssa.Builtin); ok {
		switch b.Name() {
		case "append":
			// the result aliases the destination only; elements are copied
			if hasVal && len(cc.Args) > 0 {
				if st.isT(cc.Args[0]) && st.taint(val, st.why(cc.Args[0])) {
					changed = true
				}
				for _, a := range cc.Args {
					w, holds := st.holdsV[a]
					if st.isT(a) && pointerLike(elemType(a.Type())) {
						w, holds = st.why(a), true
					}
					if holds {
						if _, had := st.holdsV[val]; !had {
							st.holdsV[val] = w
							changed = true
						}
					}
				}
			}
			return changed
		case "copy":
			if len(cc.Args) == 2 && st.isT(cc.Args[1]) && pointerLike(elemType(cc.Args[1].Type())) {
				if _, had := st.holdsV[cc.Args[0]]; !had {
					st.holdsV[cc.Args[0]] = st.why(cc.Args[1])
					changed = true
				}
			}
			return changed
		case "len", "cap", "min", "max", "print", "println", "delete", "clear", "panic", "recover":
			return false
		}
	}
	for _, g := range callees {
		if len(g.Blocks) == 0 {
			continue
		}
		if st.callers[g] == nil {
			st.callers[g] = map[*ssa.Function]bool{}
		}
		st.callers[g][f] = true
		// bind arguments to parameters
		for i, a := range args {
			if i < len(g.Params) && st.isT(a) {
				if st.taint(g.Params[i], st.why(a)) {
					st.push(g)
				}
			}
		}
		// closure value called: its captured cells were handled at MakeClosure
		if !st.visited[g] {
			st.push(g)
		}
		if w, ok := st.retTaint[g]; ok && hasVal && pointerLike(val.Type()) {
			if st.taint(val, w) {
				changed = true
			}
		}
	}
	if len(callees) == 0 && anyT && hasVal && pointerLike(val.Type()) {
		// external call: the result may alias an owned argument
		name := ""
		if g, ok := cc.Value.(*ssa.Function); ok {
			name = g.String()
			if i := strings.Index(name, "["); i >= 0 {
				name = name[:i]
			}
		}
		if b, ok := cc.Value.(*ssa.Builtin); ok {
			name = "builtin." + b.Name()
		}
		if !ReturnsFresh[name] && !cc.IsInvoke() {
			if st.taint(val, why+" (through "+name+")") {
				changed = true
			}
		}
		// a method of an external interface called on owned state: a slice or map it returns may be a view of that
		// state (datamodel.Node.AsBytes hands out the node's own bytes), not a copy
		if cc.IsInvoke() && st.isT(cc.Value) && returnsView(val.Type()) {
			if st.taint(val, st.why(cc.Value)+" (through "+cc.Method.Name()+")") {
				changed = true
			}
		}
	}
	return changed
}

// NoteReturns recomputes return taint of f; called by process via Return instructions.
func (st *state) noteReturns(f *ssa.Function) bool {
	for _, b := range f.Blocks {
		if r, ok := b.Instrs[len(b.Instrs)-1].(*ssa.Return); ok {
			for _, v := range r.Results {
				if st.isT(v) {
					if _, had := st.retTaint[f]; !had {
						st.retTaint[f] = st.why(v)
						return true
					}
				}
			}
		}
	}
	return false
}

var _ = fmt.Sprintf

// returnsView tells whether a result type contains a slice or a map (directly or as a tuple component).
func returnsView(t types.Type) bool {
	switch u := t.(type) {
	case *types.Tuple:
		for i := 0; i < u.Len(); i++ {
			if returnsView(u.At(i).Type()) {
				return true
			}
		}
		return false
	}
	switch t.Underlying().(type) {
	case *types.Slice, *types.Map:
		return true
	}
	return false
}

func elemType(t types.Type) types.Type {
	switch u := t.Underlying().(type) {
	case *types.Slice:
		return u.Elem()
	case *types.Array:
		return u.Elem()
	case *types.Map:
		return u.Elem()
	case *types.Pointer:
		return u.Elem()
	}
	return t
}

// globalBase returns the package-level variable v is the address of, a field / element address of, or a load of.
func globalBase(v ssa.Value) *ssa.Global {
	for i := 0; i < 8 && v != nil; i++ {
		switch t := v.(type) {
		case *ssa.Global:
			return t
		case *ssa.FieldAddr:
			v = t.X
		case *ssa.IndexAddr:
			v = t.X
		case *ssa.UnOp:
			v = t.X
		default:
			return nil
		}
	}
	return nil
}

// inModuleGlobal: the variable belongs to a package some in-module function lives in (approximated by the package
// of the function being analysed or any visited one).
func inModuleGlobal(st *state, gl *ssa.Global) bool {
	if gl.Pkg == nil {
		return false
	}
	for f := range st.visited {
		if f.Pkg == gl.Pkg && st.cfg.InModule(f) {
			return true
		}
	}
	for _, m := range gl.Pkg.Members {
		if fn, ok := m.(*ssa.Function); ok {
			return st.cfg.InModule(fn)
		}
	}
	return false
}
