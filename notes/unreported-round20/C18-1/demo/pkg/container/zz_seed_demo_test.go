package container

import (
	"bytes"
	"errors"
	"testing"

	"github.com/stretchr/testify/require"
)

// failingSink accepts writes until the failAt-th call (0-based), which fails.
// Every later call fails as well.
type failingSink struct {
	buf    bytes.Buffer
	calls  int
	failAt int
}

var errSinkBroken = errors.New("sink is broken")

func (f *failingSink) Write(p []byte) (int, error) {
	defer func() { f.calls++ }()
	if f.calls >= f.failAt {
		return 0, errSinkBroken
	}
	return f.buf.Write(p)
}

// countingSink counts the calls to Write.
type countingSink struct {
	buf   bytes.Buffer
	calls int
}

func (c *countingSink) Write(p []byte) (int, error) {
	c.calls++
	return c.buf.Write(p)
}

func TestSeedDemoCarWriterReportsSinkFailure(t *testing.T) {
	ctn := NewWriter()
	_, c, data := randToken()
	ctn.AddSealed(c, data)

	expected, err := ctn.ToCar()
	require.NoError(t, err)

	// a healthy sink receives the same bytes as the buffered call
	healthy := &countingSink{}
	require.NoError(t, ctn.ToCarWriter(healthy))
	require.Equal(t, expected, healthy.buf.Bytes())
	require.Greater(t, healthy.calls, 0)

	// a sink failing at any of its calls must make the writer fail
	for failAt := 0; failAt < healthy.calls; failAt++ {
		sink := &failingSink{failAt: failAt}
		err := ctn.ToCarWriter(sink)
		if err == nil {
			t.Errorf("sink failed at write call %d (only %d of %d bytes written) but ToCarWriter reported success",
				failAt, sink.buf.Len(), len(expected))
		}
	}
}
