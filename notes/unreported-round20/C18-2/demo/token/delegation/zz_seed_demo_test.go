package delegation_test

import (
	"bytes"
	"crypto/rand"
	"testing"
	"testing/iotest"
	"time"

	"github.com/libp2p/go-libp2p/core/crypto"
	"github.com/stretchr/testify/require"

	"github.com/ucan-wg/go-ucan/did"
	"github.com/ucan-wg/go-ucan/pkg/command"
	"github.com/ucan-wg/go-ucan/pkg/policy"
	"github.com/ucan-wg/go-ucan/token"
	"github.com/ucan-wg/go-ucan/token/delegation"
)

func TestSeedDemoStreamAndMemoryAgree(t *testing.T) {
	priv, _, err := crypto.GenerateEd25519Key(rand.Reader)
	require.NoError(t, err)
	iss, err := did.FromPrivKey(priv)
	require.NoError(t, err)
	privAud, _, err := crypto.GenerateEd25519Key(rand.Reader)
	require.NoError(t, err)
	aud, err := did.FromPrivKey(privAud)
	require.NoError(t, err)

	tkn, err := delegation.New(iss, aud, command.New("foo", "bar"), policy.Policy{},
		delegation.WithSubject(iss),
		delegation.WithExpiration(time.Now().Add(time.Hour)),
	)
	require.NoError(t, err)

	sealed, _, err := tkn.ToSealed(priv)
	require.NoError(t, err)
	require.Equal(t, byte(0x82), sealed[0])

	// The same envelope as another producer may emit it: the 2-element array
	// head carries its length in a following byte (0x98 0x02) instead of
	// having it packed in the head (0x82). Signed content is untouched.
	foreign := append([]byte{0x98, 0x02}, sealed[1:]...)

	for name, data := range map[string][]byte{"own": sealed, "foreign": foreign} {
		t.Run(name, func(t *testing.T) {
			// read as a stream, with two chunkings
			sTkn, sCid, sErr := delegation.FromSealedReader(bytes.NewReader(data))
			require.NoError(t, sErr)
			oTkn, oCid, oErr := delegation.FromSealedReader(iotest.OneByteReader(bytes.NewReader(data)))
			require.NoError(t, oErr)
			require.Equal(t, sCid, oCid)
			require.Equal(t, sTkn.Nonce(), oTkn.Nonce())

			// the generic readers agree as well
			_, gCid, gErr := token.FromSealed(data)
			require.NoError(t, gErr)
			require.Equal(t, sCid, gCid)

			// decoding the same bytes from memory gives the same token and CID
			mTkn, mCid, mErr := delegation.FromSealed(data)
			require.NoError(t, mErr, "stream decoding accepted these bytes, memory decoding must too")
			require.Equal(t, sCid, mCid)
			require.Equal(t, sTkn.Issuer(), mTkn.Issuer())
			require.Equal(t, sTkn.Audience(), mTkn.Audience())
			require.Equal(t, sTkn.Command(), mTkn.Command())
			require.Equal(t, sTkn.Nonce(), mTkn.Nonce())
		})
	}
}
